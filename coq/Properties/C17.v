(* Properties/C17.v — Morphy returns only valid lemmas when initialized and all
   candidates otherwise.  Statements only; proofs are in Proofs/Morphy.v.
   The rule table is the one the translator read from wn/morphy.py (Gen/Morphy.v). *)
From Coq Require Import String.
From Coq Require Import ZArith List Bool.
Import ListNotations.
Require Import WnV.Base.Sx WnV.Gen.Morphy WnV.Model.Morphy WnV.Proofs.Morphy.

(* (1) Initialized: under each part of speech only lemmas of words of that
   part of speech are returned, and nothing is filed under the None key. *)
Theorem C17_init_sound : forall T W form pos k x,
    entry_in (morphy_call T true W form pos) k x ->
    exists p, k = Some p /\ In p (pos_list T pos)
              /\ exists w, In w W /\ w_pos w = p /\ w_lemma w = x.
Proof.
  intros T W form pos k x H. apply morphy_call_spec in H.
  destruct H as [[H _]|[p [-> [Hp [Hx _]]]]]; [discriminate|].
  exists p. repeat split; try assumption.
  apply lemmas_spec. eapply morphstr_init_sound. exact Hx.
Qed.
Print Assumptions C17_init_sound.

(* (2) Initialized, completeness: for every part of speech p consulted
   (all rule keys for pos=None, p itself otherwise) the result contains
   (a) the query when it is a lemma of p, (b) every lemma of a p-word listing
   the query as an additional form, (c) every rule output that is a lemma of p. *)
Theorem C17_init_complete : forall T W form pos p,
    In p (pos_list T pos) ->
    (forall w, In w W -> w_pos w = p -> w_lemma w = form ->
               entry_in (morphy_call T true W form pos) (Some p) form)
    /\ (forall w, In w W -> w_pos w = p -> In form (w_others w) ->
                  entry_in (morphy_call T true W form pos) (Some p) (w_lemma w))
    /\ (forall r c w, In r (rules_for T p) -> apply_rule form r = Some c ->
                      In w W -> w_pos w = p -> w_lemma w = c ->
                      entry_in (morphy_call T true W form pos) (Some p) c).
Proof.
  intros T W form pos p Hp. repeat split.
  - intros w Hw Hwp Hl. apply morphy_call_spec. right. exists p.
    repeat split; try assumption.
    + apply morphstr_spec. left. repeat split. apply lemmas_spec. eauto.
    + intros [H _]. discriminate.
  - intros w Hw Hwp Hf. apply morphy_call_spec. right. exists p.
    repeat split; try assumption.
    + apply morphstr_spec. right. left. split; [reflexivity|]. apply exc_spec. eauto 6.
    + intros [H _]. discriminate.
  - intros r c w Hr Ha Hw Hwp Hl. apply morphy_call_spec. right. exists p.
    repeat split; try assumption.
    + apply morphstr_spec. right. right. exists r. repeat split; try assumption.
      right. apply lemmas_spec. eauto.
    + intros [H _]. discriminate.
Qed.
Print Assumptions C17_init_complete.

(* (3) Uninitialized: exactly the original form under the given key plus every
   rule output under its part of speech (the original is not repeated under a
   part of speech when it is already filed under None). *)
Theorem C17_uninit_exact : forall T W form pos k x,
    entry_in (morphy_call T false W form pos) k x <->
    (k = pos /\ x = form)
    \/ (exists p r, k = Some p /\ In p (pos_list T pos) /\ In r (rules_for T p)
                    /\ apply_rule form r = Some x /\ ~ (pos = None /\ x = form)).
Proof.
  intros T W form pos k x. rewrite morphy_call_spec. split.
  - intros [[_ H]|[p [-> [Hp [Hx Hn]]]]]; [left; exact H|].
    apply morphstr_spec in Hx.
    destruct Hx as [[H _]|[[H _]|[r [Hr [Ha _]]]]]; try discriminate.
    right. exists p, r. repeat split; try assumption. intros [H1 H2]. apply Hn. auto.
  - intros [H|[p [r [-> [Hp [Hr [Ha Hn]]]]]]]; [left; tauto|].
    right. exists p. repeat split; try assumption.
    + apply morphstr_spec. right. right. exists r. auto.
    + intros [_ H]. apply Hn. exact H.
Qed.
Print Assumptions C17_uninit_exact.

(* (4) A detachment rule of today's table applies exactly to forms
   pre ++ suffix with pre non-empty: a suffix equal to the whole word is never
   detached, and the output is pre ++ replacement. *)
Theorem C17_rule_exact : forall p suf rep form c,
    In (suf, rep) (rules_for wn_rules p) ->
    (apply_rule form (suf, rep) = Some c <->
     exists pre, pre <> [] /\ form = pre ++ suf /\ c = pre ++ rep).
Proof.
  intros p suf rep form c H. apply apply_rule_spec.
  eapply wn_rule_suffix_nonempty. exact H.
Qed.
Print Assumptions C17_rule_exact.

Theorem C17_no_full_suppletion : forall form suf rep c,
    apply_rule form (suf, rep) = Some c -> length suf < length form.
Proof. exact apply_rule_no_full_suppletion. Qed.
Print Assumptions C17_no_full_suppletion.

(* (5) Facts about the rule table the source has now. *)
Theorem C17_adj_sat_shares_adj_rules :
  rules_for wn_rules (sa pos_ADJ_SAT) = rules_for wn_rules (sa pos_ADJ)
  /\ str_mem (sa pos_ADJ_SAT) (rule_keys wn_rules) = true.
Proof. exact adj_sat_shares_adj_rules. Qed.
Print Assumptions C17_adj_sat_shares_adj_rules.

Theorem C17_rules_include_pwn : pwn_rules_included wn_rules = true.
Proof. exact wn_rules_include_pwn. Qed.
Print Assumptions C17_rules_include_pwn.

Theorem C17_rule_keys_are_parts_of_speech :
  forallb (fun p => str_mem p parts_of_speech) (rule_keys wn_rules) = true.
Proof. exact wn_rule_keys_are_pos. Qed.
Print Assumptions C17_rule_keys_are_parts_of_speech.

Require Import WnV.Model.Spec WnV.Model.Tables WnV.Model.Query WnV.Model.Core WnV.Proofs.CoreLemmas WnV.Proofs.QueryFacts WnV.Proofs.SearchProofs.
(* (6) A Wordnet using a lemmatizer (Morphy initialized or not: any table of proposals) finds, for each query, the union over the proposed (part of speech, forms) pairs of what each pair finds ([pass] = concatenation over the pairs), without duplicates, the pairs being the proposals compatible with the requested pos, or the query itself when nothing is proposed (proofs: Proofs/SearchProofs.v over Model/Core.v) *)
Theorem C17_search_find_helper_form :
  forall (D C : Type) (w : Wordnet) (cls : Wordnet -> D -> C) (key_eqb : C -> C -> bool)
           (query : list str -> option str -> bool -> list D) (form : str)
           (pos : option str),
         _find_helper w cls key_eqb query (Some form) pos =
         (let first := pass w cls query (fun f : str => f) (candidates w form pos) in
          dedup key_eqb
            (if negb (nonempty first) && wn_normalizer w
             then pass w cls query (normalize w) (candidates w form pos)
             else first)).
Proof. exact (@find_helper_form). Qed.
Print Assumptions C17_search_find_helper_form.

Theorem C17_search_find_helper_nodup :
  forall (D C : Type) (w : Wordnet) (cls : Wordnet -> D -> C) (key_eqb : C -> C -> bool)
           (query : list str -> option str -> bool -> list D) (form : str)
           (pos : option str), nodup_by key_eqb (_find_helper w cls key_eqb query (Some form) pos).
Proof. exact (@find_helper_nodup). Qed.
Print Assumptions C17_search_find_helper_nodup.

Theorem C17_search_candidates_lemmatizer :
  forall (w : Wordnet) (table : list (str * list (option str * list str)))
           (form : str) (pos : option str) (p : option str * list str)
           (ps : list (option str * list str)),
         wn_lemmatizer w = Some table ->
         lemmatize table form pos = p :: ps -> candidates w form pos = p :: ps.
Proof. exact (@candidates_lemmatizer). Qed.
Print Assumptions C17_search_candidates_lemmatizer.

Theorem C17_search_candidates_lemmatizer_nothing :
  forall (w : Wordnet) (table : list (str * list (option str * list str)))
           (form : str) (pos : option str),
         wn_lemmatizer w = Some table ->
         lemmatize table form pos = [] -> candidates w form pos = [(pos, [form])].
Proof. exact (@candidates_lemmatizer_nothing). Qed.
Print Assumptions C17_search_candidates_lemmatizer_nothing.


(* non-vacuity: a concrete inventory on which the premises are met *)
Example C17_nonvacuous :
  let W := [ {| w_pos := sa "n"; w_lemma := sa "wolf"; w_others := [sa "wolves"] |};
             {| w_pos := sa "v"; w_lemma := sa "wolf"; w_others := [] |} ] in
  morphy_call wn_rules true W (sa "wolves") None = [(Some (sa "n"), [sa "wolf"; sa "wolf"])]
  /\ morphy_call wn_rules false [] (sa "s") None = [(None, [sa "s"])].
Proof. vm_compute. split; reflexivity. Qed.
Print Assumptions C17_nonvacuous.
