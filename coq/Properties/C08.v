(* Properties/C08.v — lexicon specifiers and language codes select exactly the
   documented lexicons.  Statements only; proofs in Proofs/SpecProofs.v, SpecCor.v.
   [find_lexicons] mirrors wn._queries.find_lexicons; [documented] is written from
   docs/guides/lexicons.rst with string equality, not with the matcher. *)
From Coq Require Import String.
From Coq Require Import ZArith List Bool.
Import ListNotations.
Require Import WnV.Base.Sx WnV.Model.Spec WnV.Proofs.SpecProofs WnV.Proofs.SpecCor.
Local Open Scope Z_scope.

(* (1) the matcher on the documented forms *)
Theorem C08_glob_literal : forall p s, plain p -> (glob p s = true <-> s = p).
Proof. exact glob_literal. Qed.
Print Assumptions C08_glob_literal.
Theorem C08_glob_id_star : forall i i' v', plain i -> no_colon i' -> no_colon i ->
    (glob (i ++ [c_colon; c_star]) (i' ++ [c_colon] ++ v') = true <-> i' = i).
Proof. exact glob_id_star. Qed.
Print Assumptions C08_glob_id_star.
Theorem C08_glob_star_version : forall v i' v', plain v -> no_colon v -> no_colon v' ->
    (glob ([c_star; c_colon] ++ v) (i' ++ [c_colon] ++ v') = true <-> v' = v).
Proof. exact glob_star_version. Qed.
Print Assumptions C08_glob_star_version.
Theorem C08_glob_id_version : forall i v i' v', plain i -> plain v -> no_colon i -> no_colon i' ->
    (glob (i ++ [c_colon] ++ v) (i' ++ [c_colon] ++ v') = true <-> (i' = i /\ v' = v)).
Proof. exact glob_id_version. Qed.
Print Assumptions C08_glob_id_version.

(* (2) every specifier other than a bare id selects exactly the documented lexicons
   ('*', id:version, id:*, *:version, other globs), restricted by the language code *)
Theorem C08_selects_documented : forall lexs lang spec l,
    ids_plain lexs -> (zmem c_colon spec = true \/ has_meta spec = true) ->
    (In l (select_one lexs lang spec) <-> In l (filter (lang_ok lang) (documented_one lexs spec))).
Proof. exact select_one_documented_nonbare. Qed.
Print Assumptions C08_selects_documented.

Theorem C08_list_is_union : forall lexs lexicon lang rows l,
    ids_plain lexs ->
    (forall s, In s (split_ws lexicon) -> zmem c_colon s = true \/ has_meta s = true) ->
    find_lexicons lexs lexicon lang = Some rows ->
    (In l rows <-> In l (documented lexs lexicon lang)).
Proof. exact find_lexicons_documented. Qed.
Print Assumptions C08_list_is_union.

(* (3) a bare id selects exactly one lexicon: the most recently added one with that id
   (of the requested language, when a language code is given) *)
Theorem C08_bare_id : forall lexs lang spec l,
    zmem c_colon spec = false -> has_meta spec = false -> ids_plain lexs ->
    (In l (select_one lexs lang spec) <->
     In l (latest (filter (fun r => str_eqb (lx_id r) spec && lang_ok lang r) lexs))).
Proof. exact select_one_bare_id. Qed.
Print Assumptions C08_bare_id.

Theorem C08_bare_id_most_recent : forall lexs spec l,
    zmem c_colon spec = false -> has_meta spec = false -> ids_plain lexs ->
    In l (select_one lexs None spec) ->
    lx_id l = spec /\ exists pre post, lexs = pre ++ l :: post
                                      /\ ~ (exists r, In r post /\ lx_id r = spec).
Proof. exact bare_id_most_recent. Qed.
Print Assumptions C08_bare_id_most_recent.

(* (4) a lexicon matched by none of the given specifiers is never selected *)
Theorem C08_never_unmatched : forall lexs lexicon lang rows l,
    find_lexicons lexs lexicon lang = Some rows -> In l rows ->
    In l lexs /\ lang_ok lang l = true
    /\ exists s, In s (split_ws lexicon)
                 /\ glob (if zmem c_colon s then s else s ++ [c_colon; c_star]) (spec_of l) = true.
Proof. exact find_lexicons_matched. Qed.
Print Assumptions C08_never_unmatched.

(* (5) a request matching nothing is an error for Wordnet (unless it is the bare '*' without
   a language) and the empty list for wn.lexicons() *)
Theorem C08_error_iff : forall lexs lexicon lang,
    find_lexicons lexs lexicon lang = None <->
    ((forall s, In s (split_ws lexicon) -> select_one lexs lang s = [])
     /\ (lexicon <> [c_star] \/ lang <> None)).
Proof. exact find_lexicons_error_iff. Qed.
Print Assumptions C08_error_iff.
Theorem C08_wn_lexicons_empty : forall lexs lexicon lang,
    wordnet_lexicons lexs lexicon lang = None -> wn_lexicons lexs lexicon lang = [].
Proof. exact wn_lexicons_never_fails. Qed.
Print Assumptions C08_wn_lexicons_empty.

(* non-vacuity: ab:1, ab:2, abc:1 added in this order *)
Example C08_nonvacuous :
  let mk := fun r (i v : string) => {| lx_rowid := r; lx_id := str_of_string i; lx_version := str_of_string v;
                            lx_lang := str_of_string "en"%string |} in
  let lexs := [mk 1 "ab" "1"; mk 2 "ab" "2"; mk 3 "abc" "1"]%string in
  map lx_rowid (wn_lexicons lexs (Some (str_of_string "ab")) None) = [2]
  /\ map lx_rowid (wn_lexicons lexs (Some (str_of_string "ab abc:*")) None) = [2; 3]
  /\ map lx_rowid (wn_lexicons lexs (Some (str_of_string "*:1")) None) = [1; 3]
  /\ wordnet_lexicons lexs (Some (str_of_string "zz")) None = None.
Proof. vm_compute. repeat split; reflexivity. Qed.
Print Assumptions C08_nonvacuous.
