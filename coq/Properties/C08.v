(* Properties/C08.v — lexicon specifiers and language codes select exactly the
   documented lexicons.  Statements only; proofs in Proofs/SpecProofs.v, SpecCor.v.
   [find_lexicons] mirrors wn._queries.find_lexicons; [documented] is written from
   docs/guides/lexicons.rst with string equality, not with the matcher. *)
From Coq Require Import String.
From Coq Require Import ZArith List Bool.
Import ListNotations.
Require Import WnV.Base.Sx WnV.Model.Spec WnV.Proofs.SpecProofs WnV.Proofs.SpecCor.
Require Import WnV.Proofs.GlobClass.
Local Open Scope Z_scope.

(* (1) the matcher on the documented forms *)
Theorem C08_glob_literal : forall p s, plain p -> (glob p s = true <-> s = p).
Proof. exact glob_literal. Qed.
Print Assumptions C08_glob_literal.
Theorem C08_glob_id_star : forall i i' v', plain i -> no_colon i' -> no_colon i ->
    (glob (i ++ [c_colon; c_star]) (i' ++ [c_colon] ++ v') = true <-> i' = i).
Proof. exact glob_id_star. Qed.
Print Assumptions C08_glob_id_star.
Theorem C08_glob_star_version : forall v i' v', plain v -> no_colon v -> no_colon v' ->
    (glob ([c_star; c_colon] ++ v) (i' ++ [c_colon] ++ v') = true <-> v' = v).
Proof. exact glob_star_version. Qed.
Print Assumptions C08_glob_star_version.
Theorem C08_glob_id_version : forall i v i' v', plain i -> plain v -> no_colon i -> no_colon i' ->
    (glob (i ++ [c_colon] ++ v) (i' ++ [c_colon] ++ v') = true <-> (i' = i /\ v' = v)).
Proof. exact glob_id_version. Qed.
Print Assumptions C08_glob_id_version.

(* (2) every specifier other than a bare id selects exactly the documented lexicons
   ('*', id:version, id:*, *:version, other globs), restricted by the language code *)
Theorem C08_selects_documented : forall lexs lang spec l,
    ids_plain lexs -> (zmem c_colon spec = true \/ has_meta spec = true) ->
    (In l (select_one lexs lang spec) <-> In l (filter (lang_ok lang) (documented_one lexs spec))).
Proof. exact select_one_documented_nonbare. Qed.
Print Assumptions C08_selects_documented.

Theorem C08_list_is_union : forall lexs lexicon lang rows l,
    ids_plain lexs ->
    (forall s, In s (split_ws lexicon) -> zmem c_colon s = true \/ has_meta s = true) ->
    find_lexicons lexs lexicon lang = Some rows ->
    (In l rows <-> In l (documented lexs lexicon lang)).
Proof. exact find_lexicons_documented. Qed.
Print Assumptions C08_list_is_union.

(* (3) a bare id selects exactly one lexicon: the most recently added one with that id
   (of the requested language, when a language code is given) *)
Theorem C08_bare_id : forall lexs lang spec l,
    zmem c_colon spec = false -> has_meta spec = false -> ids_plain lexs ->
    (In l (select_one lexs lang spec) <->
     In l (latest (filter (fun r => str_eqb (lx_id r) spec && lang_ok lang r) lexs))).
Proof. exact select_one_bare_id. Qed.
Print Assumptions C08_bare_id.

Theorem C08_bare_id_most_recent : forall lexs spec l,
    zmem c_colon spec = false -> has_meta spec = false -> ids_plain lexs ->
    In l (select_one lexs None spec) ->
    lx_id l = spec /\ exists pre post, lexs = pre ++ l :: post
                                      /\ ~ (exists r, In r post /\ lx_id r = spec).
Proof. exact bare_id_most_recent. Qed.
Print Assumptions C08_bare_id_most_recent.

(* (4) a lexicon matched by none of the given specifiers is never selected *)
Theorem C08_never_unmatched : forall lexs lexicon lang rows l,
    find_lexicons lexs lexicon lang = Some rows -> In l rows ->
    In l lexs /\ lang_ok lang l = true
    /\ exists s, In s (split_ws lexicon)
                 /\ glob (if zmem c_colon s then s else s ++ [c_colon; c_star]) (spec_of l) = true.
Proof. exact find_lexicons_matched. Qed.
Print Assumptions C08_never_unmatched.

(* (5) a request matching nothing is an error for Wordnet (unless it is the bare '*' without
   a language) and the empty list for wn.lexicons() *)
Theorem C08_error_iff : forall lexs lexicon lang,
    find_lexicons lexs lexicon lang = None <->
    ((forall s, In s (split_ws lexicon) -> select_one lexs lang s = [])
     /\ (lexicon <> [c_star] \/ lang <> None)).
Proof. exact find_lexicons_error_iff. Qed.
Print Assumptions C08_error_iff.
Theorem C08_wn_lexicons_empty : forall lexs lexicon lang,
    wordnet_lexicons lexs lexicon lang = None -> wn_lexicons lexs lexicon lang = [].
Proof. exact wn_lexicons_never_fails. Qed.
Print Assumptions C08_wn_lexicons_empty.

(* non-vacuity: ab:1, ab:2, abc:1 added in this order *)
Example C08_nonvacuous :
  let mk := fun r (i v : string) => {| lx_rowid := r; lx_id := str_of_string i; lx_version := str_of_string v;
                            lx_lang := str_of_string "en"%string |} in
  let lexs := [mk 1 "ab" "1"; mk 2 "ab" "2"; mk 3 "abc" "1"]%string in
  map lx_rowid (wn_lexicons lexs (Some (str_of_string "ab")) None) = [2]
  /\ map lx_rowid (wn_lexicons lexs (Some (str_of_string "ab abc:*")) None) = [2; 3]
  /\ map lx_rowid (wn_lexicons lexs (Some (str_of_string "*:1")) None) = [1; 3]
  /\ wordnet_lexicons lexs (Some (str_of_string "zz")) None = None.
Proof. vm_compute. repeat split; reflexivity. Qed.
Print Assumptions C08_nonvacuous.

(* ---- character classes of SQLite GLOB (the model follows sqlite3 patternCompare; validated against SQLite on 1.26 million pattern/string pairs incl. an exhaustive sweep, see DESIGN.md E.2): a class of plain characters matches exactly its members, ^ inverts, a-b is a range, an unterminated class matches nothing; patterns without [ behave as the star/question-mark fragment the other theorems are about *)
Theorem C08_glob_class_chars :
  forall (cs p : list Z) (c : Z) (s : list Z),
         cs <> [] ->
         zmem c_rbr cs = false ->
         zmem c_dash cs = false ->
         zmem c_caret cs = false ->
         glob ([c_lbr] ++ cs ++ [93] ++ p) (c :: s) = zmem c cs && glob p s.
Proof. exact (@glob_class_chars). Qed.
Print Assumptions C08_glob_class_chars.

Theorem C08_glob_class_chars_inverted :
  forall (cs p : list Z) (c : Z) (s : list Z),
         cs <> [] ->
         zmem c_rbr cs = false ->
         zmem c_dash cs = false ->
         zmem c_caret cs = false ->
         glob ([c_lbr; c_caret] ++ cs ++ [93] ++ p) (c :: s) = negb (zmem c cs) && glob p s.
Proof. exact (@glob_class_chars_inverted). Qed.
Print Assumptions C08_glob_class_chars_inverted.

Theorem C08_glob_class_empty_string :
  forall q : list Z, glob ([c_lbr] ++ q) [] = false.
Proof. exact (@glob_class_empty_string). Qed.
Print Assumptions C08_glob_class_empty_string.

Theorem C08_glob_class_range_gen :
  forall a b c : Z,
         a <> 93 ->
         a <> 45 ->
         a <> 94 ->
         b <> 93 ->
         b <> 45 ->
         b <> 94 -> 0 < a -> glob [91; a; 45; b; 93] [c] = (c =? a) || (a <=? c) && (c <=? b).
Proof. exact (@glob_class_range_gen). Qed.
Print Assumptions C08_glob_class_range_gen.

Theorem C08_glob_class_range :
  forall a b c : Z,
         a <> 93 ->
         a <> 45 ->
         a <> 94 ->
         b <> 93 ->
         b <> 45 ->
         b <> 94 -> 0 < a -> a <= b -> glob [91; a; 45; b; 93] [c] = (a <=? c) && (c <=? b).
Proof. exact (@glob_class_range). Qed.
Print Assumptions C08_glob_class_range.

Theorem C08_glob_class_unterminated :
  forall p s : str, zmem 93 p = false -> glob (c_lbr :: p) s = false.
Proof. exact (@glob_class_unterminated). Qed.
Print Assumptions C08_glob_class_unterminated.

Theorem C08_glob_simple_agree :
  forall p s : str, zmem c_lbr p = false -> glob p s = glob_simple p s.
Proof. exact (@glob_simple_agree). Qed.
Print Assumptions C08_glob_simple_agree.

Theorem C08_glob_class_specifier_example :
  glob [97; 98; 91; 99; 100; 93; 58; 42] [97; 98; 99; 58; 49] = true /\
         glob [97; 98; 91; 99; 100; 93; 58; 42] [97; 98; 100; 58; 49; 46; 48] = true /\
         glob [97; 98; 91; 99; 100; 93; 58; 42] [97; 98; 58; 49] = false /\
         glob [97; 98; 91; 99; 100; 93; 58; 42] [97; 98; 101; 58; 49] = false.
Proof. exact (@glob_class_specifier_example). Qed.
Print Assumptions C08_glob_class_specifier_example.

Theorem C08_G1_empty_body_counterexample :
  glob ([c_lbr] ++ [] ++ [93] ++ [97; 93]) [93] = true /\
         zmem 93 [] && glob [97; 93] [] = false /\
         glob ([c_lbr; c_caret] ++ [] ++ [93] ++ [97; 93]) [98] = true /\
         negb (zmem 98 []) && glob [97; 93] [] = false.
Proof. exact (@G1_empty_body_counterexample). Qed.
Print Assumptions C08_G1_empty_body_counterexample.

Theorem C08_G2_counterexample :
  glob [91; 99; 45; 97; 93] [99] = true /\ (99 <=? 99) && (99 <=? 97) = false.
Proof. exact (@G2_counterexample). Qed.
Print Assumptions C08_G2_counterexample.

