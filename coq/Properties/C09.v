(* Properties/C09.v — word-form search follows the documented procedure (model: Core._find_helper over the find_entries, find_senses, find_synsets queries).
   [candidates w form pos] = the (pos, forms) buckets proposed by the lemmatizer (or the form itself);
   [pass] = one query pass over all buckets (exact forms first; the normalized pass only when the first found nothing).
   Statements only: every theorem is closed by `exact` of a lemma proved under Proofs/, followed by
   Print Assumptions.  (Statement texts were printed by Coq from the proved lemmas by harness/mkprops.py and are
   fixed from then on.) *)
From Coq Require Import String.
From Coq Require Import ZArith List Bool.
Import ListNotations.
Require Import WnV.Base.Sx WnV.Model.Spec WnV.Model.Tables WnV.Model.Query WnV.Model.Core.
Require Import WnV.Proofs.CoreLemmas WnV.Proofs.QueryFacts WnV.Proofs.ScopeProofs WnV.Proofs.SearchProofs
        WnV.Proofs.NavProofs WnV.Proofs.RelGeneric WnV.Proofs.RelProofs WnV.Proofs.RelClosureProofs
        WnV.Proofs.ExpandProofs WnV.Proofs.FrameProofs WnV.Proofs.CoreNonvacuity.
Local Open Scope Z_scope.

(* ---- shape of the procedure: exact pass over every candidate bucket; only if it is empty and a normalizer is set, one normalized pass; results de-duplicated in first-occurrence order *)
Theorem C09_find_helper_form :
  forall (D C : Type) (w : Wordnet) (cls : Wordnet -> D -> C) (key_eqb : C -> C -> bool)
           (query : list str -> option str -> bool -> list D) (form : str)
           (pos : option str),
         _find_helper w cls key_eqb query (Some form) pos =
         (let first := pass w cls query (fun f : str => f) (candidates w form pos) in
          dedup key_eqb
            (if negb (nonempty first) && wn_normalizer w
             then pass w cls query (normalize w) (candidates w form pos)
             else first)).
Proof. exact (@find_helper_form). Qed.
Print Assumptions C09_find_helper_form.

Theorem C09_find_helper_nodup :
  forall (D C : Type) (w : Wordnet) (cls : Wordnet -> D -> C) (key_eqb : C -> C -> bool)
           (query : list str -> option str -> bool -> list D) (form : str)
           (pos : option str), nodup_by key_eqb (_find_helper w cls key_eqb query (Some form) pos).
Proof. exact (@find_helper_nodup). Qed.
Print Assumptions C09_find_helper_nodup.

Theorem C09_find_helper_first_pass :
  forall (D C : Type) (w : Wordnet) (cls : Wordnet -> D -> C) (key_eqb : C -> C -> bool)
           (query : list str -> option str -> bool -> list D) (form : str)
           (pos : option str),
         pass w cls query (fun f : str => f) (candidates w form pos) <> [] ->
         _find_helper w cls key_eqb query (Some form) pos =
         dedup key_eqb (pass w cls query (fun f : str => f) (candidates w form pos)).
Proof. exact (@find_helper_first_pass). Qed.
Print Assumptions C09_find_helper_first_pass.

Theorem C09_find_helper_second_pass :
  forall (D C : Type) (w : Wordnet) (cls : Wordnet -> D -> C) (key_eqb : C -> C -> bool)
           (query : list str -> option str -> bool -> list D) (form : str)
           (pos : option str),
         pass w cls query (fun f : str => f) (candidates w form pos) = [] ->
         _find_helper w cls key_eqb query (Some form) pos =
         (if wn_normalizer w
          then dedup key_eqb (pass w cls query (normalize w) (candidates w form pos))
          else []).
Proof. exact (@find_helper_second_pass). Qed.
Print Assumptions C09_find_helper_second_pass.

(* ---- the candidate buckets: without a lemmatizer the form under the given pos; with one, its proposals (filtered by pos), or the form itself when it proposes nothing *)
Theorem C09_candidates_no_lemmatizer :
  forall (w : Wordnet) (form : str) (pos : option str),
         wn_lemmatizer w = None -> candidates w form pos = [(pos, [form])].
Proof. exact (@candidates_no_lemmatizer). Qed.
Print Assumptions C09_candidates_no_lemmatizer.

Theorem C09_candidates_lemmatizer :
  forall (w : Wordnet) (table : list (str * list (option str * list str)))
           (form : str) (pos : option str) (p : option str * list str)
           (ps : list (option str * list str)),
         wn_lemmatizer w = Some table ->
         lemmatize table form pos = p :: ps -> candidates w form pos = p :: ps.
Proof. exact (@candidates_lemmatizer). Qed.
Print Assumptions C09_candidates_lemmatizer.

Theorem C09_candidates_lemmatizer_nothing :
  forall (w : Wordnet) (table : list (str * list (option str * list str)))
           (form : str) (pos : option str),
         wn_lemmatizer w = Some table ->
         lemmatize table form pos = [] -> candidates w form pos = [(pos, [form])].
Proof. exact (@candidates_lemmatizer_nothing). Qed.
Print Assumptions C09_candidates_lemmatizer_nothing.

(* ---- soundness: every result has a form row matching one of the candidate forms (original or normalized column), of the requested pos, inside the selected lexicons *)
Theorem C09_words_have_matching_form :
  forall (d : db) (w : Wordnet) (form : str) (pos : option str) (x : Word),
         In x (Wordnet_words d w (Some form) pos) ->
         exists (p : option str) (fs : list str),
           In (p, fs) (candidates w form pos) /\
           (truthy p = true -> Some (wd_pos x) = p) /\
           (fs = [] \/
            (exists f : form_row,
               In f (t_forms d) /\
               fm_entry_rowid f = wd__id x /\
               matched w
                 (pass w mk_Word (words_query d w) (fun f0 : str => f0) (candidates w form pos) = [])
                 fs f)).
Proof. exact (@words_have_matching_form). Qed.
Print Assumptions C09_words_have_matching_form.

Theorem C09_senses_have_matching_form :
  forall (d : db) (w : Wordnet) (form : str) (pos : option str) (x : Sense),
         In x (Wordnet_senses d w (Some form) pos) ->
         exists (p : option str) (fs : list str) (s : sense_row) (e : entry_row),
           In (p, fs) (candidates w form pos) /\
           In s (t_senses d) /\
           se_rowid s = sn__id x /\
           find_by en_rowid (se_entry_rowid s) (t_entries d) = Some e /\
           (truthy p = true -> Some (en_pos e) = p) /\
           (fs = [] \/
            (exists f : form_row,
               In f (t_forms d) /\
               fm_entry_rowid f = se_entry_rowid s /\
               matched w
                 (pass w mk_Sense (senses_query d w) (fun f0 : str => f0) (candidates w form pos) =
                  []) fs f)).
Proof. exact (@senses_have_matching_form). Qed.
Print Assumptions C09_senses_have_matching_form.

Theorem C09_synsets_have_matching_form :
  forall (d : db) (w : Wordnet) (form : str) (pos ili : option str) (x : Synset),
         In x (Wordnet_synsets d w (Some form) pos ili) ->
         exists (p : option str) (fs : list str) (ss : synset_row),
           In (p, fs) (candidates w form pos) /\
           In ss (t_synsets d) /\
           sy_rowid ss = ss__id x /\
           (truthy p = true -> sy_pos ss = p) /\
           (fs = [] \/
            (exists (f : form_row) (_s : sense_row),
               In f (t_forms d) /\
               In _s (t_senses d) /\
               se_entry_rowid _s = fm_entry_rowid f /\
               (wn_lexicon_ids w = [] \/ In (se_lexicon_rowid _s) (wn_lexicon_ids w)) /\
               find_by sy_rowid (se_synset_rowid _s) (t_synsets d) = Some ss /\
               matched w
                 (pass w mk_Synset (synsets_query d w ili) (fun f0 : str => f0)
                    (candidates w form pos) = []) fs f)).
Proof. exact (@synsets_have_matching_form). Qed.
Print Assumptions C09_synsets_have_matching_form.

(* ---- completeness of one query pass: an entry/sense/synset of the selection with a matching form is returned *)
Theorem C09_words_complete :
  forall (d : db) (w : Wordnet) (query : str) (pos : option str) (e : entry_row)
           (f : form_row),
         db_ok d = true ->
         wn_lemmatizer w = None ->
         In e (t_entries d) ->
         in_selection w (en_lexicon_rowid e) ->
         pos_allows pos (Some (en_pos e)) ->
         In f (t_forms d) ->
         fm_entry_rowid f = en_rowid e ->
         fm_form f = query ->
         wn_search_all_forms w = true \/ fm_rank f = Some 0 ->
         exists x : Word, In x (Wordnet_words d w (Some query) pos) /\ wd__id x = en_rowid e.
Proof. exact (@words_complete). Qed.
Print Assumptions C09_words_complete.

Theorem C09_senses_complete :
  forall (d : db) (w : Wordnet) (query : str) (pos : option str) (s : sense_row)
           (e : entry_row) (ss : synset_row) (f : form_row),
         db_ok d = true ->
         wn_lemmatizer w = None ->
         In s (t_senses d) ->
         in_selection w (se_lexicon_rowid s) ->
         find_by en_rowid (se_entry_rowid s) (t_entries d) = Some e ->
         find_by sy_rowid (se_synset_rowid s) (t_synsets d) = Some ss ->
         pos_allows pos (Some (en_pos e)) ->
         In f (t_forms d) ->
         fm_entry_rowid f = se_entry_rowid s ->
         fm_form f = query ->
         wn_search_all_forms w = true \/ fm_rank f = Some 0 ->
         exists x : Sense, In x (Wordnet_senses d w (Some query) pos) /\ sn__id x = se_rowid s.
Proof. exact (@senses_complete). Qed.
Print Assumptions C09_senses_complete.

Theorem C09_synsets_complete :
  forall (d : db) (w : Wordnet) (query : str) (pos : option str) (ss : synset_row)
           (_s : sense_row) (f : form_row),
         db_ok d = true ->
         wn_lemmatizer w = None ->
         In ss (t_synsets d) ->
         in_selection w (sy_lexicon_rowid ss) ->
         pos_allows pos (sy_pos ss) ->
         In _s (t_senses d) ->
         in_selection w (se_lexicon_rowid _s) ->
         find_by sy_rowid (se_synset_rowid _s) (t_synsets d) = Some ss ->
         In f (t_forms d) ->
         fm_entry_rowid f = se_entry_rowid _s ->
         fm_form f = query ->
         wn_search_all_forms w = true \/ fm_rank f = Some 0 ->
         exists x : Synset,
           In x (Wordnet_synsets d w (Some query) pos None) /\ ss__id x = sy_rowid ss.
Proof. exact (@synsets_complete). Qed.
Print Assumptions C09_synsets_complete.

(* ---- the underlying queries, characterised row by row *)
Theorem C09_find_entries_sound :
  forall (d : db) (id : option str) (forms : list str) (pos : option str)
           (ids : list Z) (norm saf : bool) (w : q_word),
         In w (find_entries d id forms pos ids norm saf) ->
         (exists e : entry_row,
            In e (t_entries d) /\
            word_of_entry e w /\ entry_cond d id forms pos ids norm saf e = true) /\
         qw_forms w <> [] /\
         (forall qf : q_form,
          In qf (qw_forms w) ->
          exists f : form_row,
            In f (t_forms d) /\ fm_entry_rowid f = qw_rowid w /\ qf = form_columns f).
Proof. exact (@find_entries_sound). Qed.
Print Assumptions C09_find_entries_sound.

Theorem C09_find_entries_complete :
  forall (d : db) (id : option str) (forms : list str) (pos : option str)
           (ids : list Z) (norm saf : bool) (e : entry_row) (f : form_row),
         In e (t_entries d) ->
         entry_cond d id forms pos ids norm saf e = true ->
         In f (t_forms d) ->
         fm_entry_rowid f = en_rowid e ->
         exists w : q_word,
           In w (find_entries d id forms pos ids norm saf) /\
           word_of_entry e w /\ In (form_columns f) (qw_forms w).
Proof. exact (@find_entries_complete). Qed.
Print Assumptions C09_find_entries_complete.

Theorem C09_find_senses_iff :
  forall (d : db) (id : option str) (forms : list str) (pos : option str)
           (ids : list Z) (norm saf : bool) (q : q_sense),
         In q (find_senses d id forms pos ids norm saf) <->
         (exists (s : sense_row) (e : entry_row) (ss : synset_row),
            In s (t_senses d) /\
            sense_columns d s = Some (q, e, ss) /\ sense_cond d id forms pos ids norm saf s e = true).
Proof. exact (@find_senses_iff). Qed.
Print Assumptions C09_find_senses_iff.

Theorem C09_find_synsets_iff :
  forall (d : db) (id : option str) (forms : list str) (pos ili : option str)
           (ids : list Z) (norm saf : bool) (q : q_synset),
         In q (find_synsets d id forms pos ili ids norm saf) <->
         (exists ss : synset_row,
            In ss (t_synsets d) /\
            q = synset_columns d ss /\
            synset_conditions d id pos ili ids ss = true /\
            (forms <> [] ->
             exists (f : form_row) (_s : sense_row),
               In f (matching_forms d forms norm saf) /\
               In _s (t_senses d) /\
               se_entry_rowid _s = fm_entry_rowid f /\
               (if nonempty ids then z_in (se_lexicon_rowid _s) ids else true) = true /\
               find_by sy_rowid (se_synset_rowid _s) (t_synsets d) = Some ss)).
Proof. exact (@find_synsets_iff). Qed.
Print Assumptions C09_find_synsets_iff.

(* ---- non-vacuity *)
Theorem C09_db_ok_sample_1 :
  db_ok sample_db_1 = true.
Proof. exact (@db_ok_sample_1). Qed.
Print Assumptions C09_db_ok_sample_1.

Theorem C09_db_ok_fuzz :
  db_ok sample_db_fuzz = true.
Proof. exact (@db_ok_fuzz). Qed.
Print Assumptions C09_db_ok_fuzz.

Require Import WnV.Proofs.FrameProofs WnV.Proofs.SynsetFormFrame WnV.Proofs.F14Witness.
(* ---- known finding F14 as a machine-checked witness (Proofs/F14Witness.v): f14_db0 holds a base lexicon (1), f14_db the same plus an extension (2) that adds the form "runned" to base entry 1; the two agree on every row of lexicon 1, yet a search for "runned" restricted to lexicon 1 finds the base entry, its sense and its synset on f14_db and nothing on f14_db0 (the leaked entry even lists the foreign form); lemma-only search does not leak; the hypothesis of the frame theorems that F14 violates is exactly agree_sense_forms — the other hypotheses hold *)
Theorem C09_f14_db_ok :
  db_ok f14_db = true /\ db_ok f14_db0 = true.
Proof. exact (@f14_db_ok). Qed.
Print Assumptions C09_f14_db_ok.

Theorem C09_f14_same_rows :
  f14_same_lexicon1_rows f14_db0 f14_db.
Proof. exact (@f14_same_rows). Qed.
Print Assumptions C09_f14_same_rows.

Theorem C09_f14_find_entries_leak :
  find_entries f14_db None [S_ "runned"] None [1] false true =
         [{|
            qw_id := S_ "e1";
            qw_pos := S_ "n";
            qw_forms :=
              [{| qf_form := S_ "run"; qf_id := None; qf_script := None; qf_rowid := 1 |};
               {| qf_form := S_ "runned"; qf_id := None; qf_script := None; qf_rowid := 2 |}];
            qw_lexid := 1;
            qw_rowid := 1
          |}] /\
         find_entries f14_db None [S_ "runned"] None [1] false true <> [] /\
         find_entries f14_db0 None [S_ "runned"] None [1] false true = [] /\
         f14_same_lexicon1_rows f14_db0 f14_db.
Proof. exact (@f14_find_entries_leak). Qed.
Print Assumptions C09_f14_find_entries_leak.

Theorem C09_f14_find_senses_leak :
  find_senses f14_db None [S_ "runned"] None [1] false true =
         [{|
            qs_id := S_ "s1";
            qs_entry_id := S_ "e1";
            qs_synset_id := S_ "ss1";
            qs_lexid := 1;
            qs_rowid := 1
          |}] /\
         find_senses f14_db None [S_ "runned"] None [1] false true <> [] /\
         find_senses f14_db0 None [S_ "runned"] None [1] false true = [] /\
         f14_same_lexicon1_rows f14_db0 f14_db.
Proof. exact (@f14_find_senses_leak). Qed.
Print Assumptions C09_f14_find_senses_leak.

Theorem C09_f14_find_synsets_leak :
  find_synsets f14_db None [S_ "runned"] None None [1] false true =
         [{|
            qy_id := S_ "ss1"; qy_pos := Some (S_ "n"); qy_ili := None; qy_lexid := 1; qy_rowid := 1
          |}] /\
         find_synsets f14_db None [S_ "runned"] None None [1] false true <> [] /\
         find_synsets f14_db0 None [S_ "runned"] None None [1] false true = [] /\
         f14_same_lexicon1_rows f14_db0 f14_db.
Proof. exact (@f14_find_synsets_leak). Qed.
Print Assumptions C09_f14_find_synsets_leak.

Theorem C09_f14_lemma_only_no_leak :
  find_entries f14_db None [S_ "runned"] None [1] false false = [] /\
         find_senses f14_db None [S_ "runned"] None [1] false false = [] /\
         find_synsets f14_db None [S_ "runned"] None None [1] false false = [].
Proof. exact (@f14_lemma_only_no_leak). Qed.
Print Assumptions C09_f14_lemma_only_no_leak.

Theorem C09_f14_frame_hypothesis_fails :
  ~ agree_sense_forms f14_db0 f14_db [1].
Proof. exact (@f14_frame_hypothesis_fails). Qed.
Print Assumptions C09_f14_frame_hypothesis_fails.

Theorem C09_f14_other_frame_hypotheses_hold :
  [1] <> [] /\ agree_senses f14_db0 f14_db [1] /\ agree_synsets f14_db0 f14_db [1].
Proof. exact (@f14_other_frame_hypotheses_hold). Qed.
Print Assumptions C09_f14_other_frame_hypotheses_hold.
