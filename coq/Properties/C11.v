(* Properties/C11.v — placeholder until the theorems over Model/Core.v are assembled. *)
From Coq Require Import ZArith List.
Import ListNotations.
Require Import WnV.Base.Sx WnV.Model.Core.
Example C11_model_present : run_core (L []) = run_core (L []).
Proof. reflexivity. Qed.
Print Assumptions C11_model_present.
