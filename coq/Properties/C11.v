(* Properties/C11.v — relation queries return exactly the declared relations; closures and relation paths terminate
   (model: Core.Sense_* / Synset_* relation functions over Query.get_*_relations; Proofs/AgendaProofs.v relates
   the agenda loops of the Python code to the recursive definitions).
   Statements only: every theorem is closed by `exact` of a lemma proved under Proofs/, followed by
   Print Assumptions.  (Statement texts were printed by Coq from the proved lemmas by harness/mkprops.py and are
   fixed from then on.) *)
From Coq Require Import String.
From Coq Require Import ZArith List Bool.
Import ListNotations.
Require Import WnV.Base.Sx WnV.Model.Spec WnV.Model.Tables WnV.Model.Query WnV.Model.Core.
Require Import WnV.Proofs.CoreLemmas WnV.Proofs.QueryFacts WnV.Proofs.ScopeProofs WnV.Proofs.SearchProofs
        WnV.Proofs.NavProofs WnV.Proofs.RelGeneric WnV.Proofs.RelProofs WnV.Proofs.RelClosureProofs
        WnV.Proofs.ExpandProofs WnV.Proofs.FrameProofs WnV.Proofs.CoreNonvacuity.
Require WnV.Model.Taxonomy WnV.Proofs.TaxSpec WnV.Proofs.TaxPaths WnV.Proofs.AgendaProofs.
Local Open Scope Z_scope.

(* ---- R1: a (relation, target) pair is reported exactly when a relation row of the requested type, declared by a lexicon in scope, links the source to the target (in scope) *)
Theorem C11_Sense_iter_sense_relations_iff :
  forall d : db,
         db_ok d = true ->
         forall (s : Sense) (args : list str) (pairs : list (Relation * Sense))
           (r : Relation) (t : Sense),
         Sense_iter_sense_relations d s args = Ok pairs ->
         In (r, t) pairs <-> sense_relation_row d s args r t.
Proof. exact (@Sense_iter_sense_relations_iff). Qed.
Print Assumptions C11_Sense_iter_sense_relations_iff.

Theorem C11_Sense_iter_sense_relations_Ok :
  forall (d : db) (s : Sense) (args : list str),
         scope d (sn_wordnet s) (sn_lexid s) <> [] ->
         exists pairs : list (Relation * Sense), Sense_iter_sense_relations d s args = Ok pairs.
Proof. exact (@Sense_iter_sense_relations_Ok). Qed.
Print Assumptions C11_Sense_iter_sense_relations_Ok.

Theorem C11_Synset_iter_local_relations_iff :
  forall d : db,
         db_ok d = true ->
         forall (y : Synset) (args : list str) (pairs : list (Relation * Synset))
           (r : Relation) (t : Synset),
         Synset_iter_local_relations d y args = Ok pairs ->
         In (r, t) pairs <-> synset_relation_row d y args r t.
Proof. exact (@Synset_iter_local_relations_iff). Qed.
Print Assumptions C11_Synset_iter_local_relations_iff.

Theorem C11_Synset_iter_local_relations_Ok :
  forall (d : db) (y : Synset) (args : list str),
         scope d (ss_wordnet y) (ss_lexid y) <> [] ->
         exists pairs : list (Relation * Synset), Synset_iter_local_relations d y args = Ok pairs.
Proof. exact (@Synset_iter_local_relations_Ok). Qed.
Print Assumptions C11_Synset_iter_local_relations_Ok.

Theorem C11_get_sense_relations_iff :
  forall (d : db) (src : Z) (types : list str) (ids : list Z) (rows : list q_sense_relation)
           (r : q_sense_relation),
         get_sense_relations d src types ids = Ok rows ->
         In r rows <->
         (exists
            (srel : relation_row) (t : relation_type_row) (lex : lexicon_row)
          (s : sense_row) (q : q_sense) (e : entry_row) (ss : synset_row),
            In srel (t_sense_relations d) /\
            rl_source_rowid srel = src /\
            In (rl_lexicon_rowid srel) ids /\
            find_by rt_rowid (rl_type_rowid srel) (rt d types) = Some t /\
            find_by lex_rowid (rl_lexicon_rowid srel) (t_lexicons d) = Some lex /\
            find_by se_rowid (rl_target_rowid srel) (t_senses d) = Some s /\
            In (se_lexicon_rowid s) ids /\
            sense_columns d s = Some (q, e, ss) /\
            r =
            {|
              qsr_name := rt_type t;
              qsr_lexicon := lexicon_specifier lex;
              qsr_metadata := rl_metadata srel;
              qsr_sense := q
            |}).
Proof. exact (@get_sense_relations_iff). Qed.
Print Assumptions C11_get_sense_relations_iff.

Theorem C11_synset_target_query_iff :
  forall (d : db) (table : list relation_row) (srcs : list Z) (types : list str)
           (ids : list Z) (rows : list q_synset_relation) (r : q_synset_relation),
         synset_target_query d table srcs types ids = Ok rows ->
         In r rows <->
         (exists
            (srel : relation_row) (t : relation_type_row) (lex : lexicon_row)
          (tgt : synset_row),
            In srel table /\
            In (rl_source_rowid srel) srcs /\
            In (rl_lexicon_rowid srel) ids /\
            find_by rt_rowid (rl_type_rowid srel) (rt d types) = Some t /\
            find_by lex_rowid (rl_lexicon_rowid srel) (t_lexicons d) = Some lex /\
            find_by sy_rowid (rl_target_rowid srel) (t_synsets d) = Some tgt /\
            In (sy_lexicon_rowid tgt) ids /\
            r =
            {|
              qyr_name := rt_type t;
              qyr_lexicon := lexicon_specifier lex;
              qyr_metadata := rl_metadata srel;
              qyr_src_rowid := rl_source_rowid srel;
              qyr_synset := synset_columns d tgt
            |}).
Proof. exact (@synset_target_query_iff). Qed.
Print Assumptions C11_synset_target_query_iff.

(* ---- get_related / relations / relation_map are projections of the same pairs *)
Theorem C11_Sense_get_related_def :
  forall (d : db) (s : Sense) (args : list str),
         Sense_get_related d s args =
         (do pairs <- Sense_iter_sense_relations d s args; Ok (dedup Sense_key_eqb (map snd pairs))).
Proof. exact (@Sense_get_related_def). Qed.
Print Assumptions C11_Sense_get_related_def.

Theorem C11_Sense_get_related_iff :
  forall d : db,
         db_ok d = true ->
         forall (s : Sense) (args : list str) (ts : list Sense),
         Sense_get_related d s args = Ok ts ->
         nodup_by Sense_key_eqb ts /\
         (forall t : Sense, In t ts -> exists r : Relation, sense_relation_row d s args r t) /\
         (forall (r : Relation) (t : Sense),
          sense_relation_row d s args r t -> exists t' : Sense, In t' ts /\ sn__id t' = sn__id t).
Proof. exact (@Sense_get_related_iff). Qed.
Print Assumptions C11_Sense_get_related_iff.

Theorem C11_Sense_relation_map_iff :
  forall d : db,
         db_ok d = true ->
         forall (s : Sense) (m : list (Relation * Sense)),
         Sense_relation_map d s = Ok m ->
         keys_distinct Relation_eqb m /\
         (forall (r : Relation) (t : Sense),
          In (r, t) m ->
          (exists t0 : Sense, sense_relation_row d s [] r t0) /\
          (exists r0 : Relation, sense_relation_row d s [] r0 t)) /\
         (forall (r : Relation) (t : Sense),
          sense_relation_row d s [] r t ->
          exists (r' : Relation) (t' : Sense), In (r', t') m /\ Relation_eqb r' r = true).
Proof. exact (@Sense_relation_map_iff). Qed.
Print Assumptions C11_Sense_relation_map_iff.

Theorem C11_Sense_relations_iff :
  forall d : db,
         db_ok d = true ->
         forall (s : Sense) (args : list str) (m : list (str * list Sense)),
         Sense_relations d s args = Ok m ->
         (forall (n : str) (ts : list Sense) (t : Sense),
          In (n, ts) m ->
          In t ts -> exists r : Relation, sense_relation_row d s args r t /\ rel_name r = n) /\
         (forall (r : Relation) (t : Sense),
          sense_relation_row d s args r t ->
          exists (ts : list Sense) (t' : Sense),
            In (rel_name r, ts) m /\ In t' ts /\ sn__id t' = sn__id t).
Proof. exact (@Sense_relations_iff). Qed.
Print Assumptions C11_Sense_relations_iff.

Theorem C11_Synset_get_related_def :
  forall (d : db) (y : Synset) (args : list str),
         Synset_get_related d y args =
         (do pairs <- Synset_iter_relations d y args; Ok (dedup Synset_key_eqb (map snd pairs))).
Proof. exact (@Synset_get_related_def). Qed.
Print Assumptions C11_Synset_get_related_def.

Theorem C11_Synset_relation_map_def :
  forall (d : db) (y : Synset),
         Synset_relation_map d y =
         (do pairs <- Synset_iter_relations d y []; Ok (dict_of Relation_eqb pairs)).
Proof. exact (@Synset_relation_map_def). Qed.
Print Assumptions C11_Synset_relation_map_def.

Theorem C11_Synset_relations_def :
  forall (d : db) (y : Synset) (args : list str),
         Synset_relations d y args =
         (do pairs <- Synset_iter_relations d y args; Ok (relmap_of Synset_key_eqb pairs)).
Proof. exact (@Synset_relations_def). Qed.
Print Assumptions C11_Synset_relations_def.

(* ---- Relation objects: equality is (name, source, target, lexicon, dc:type); the dc:type (subtype) is read from the metadata *)
Theorem C11_Relation_eqb_iff :
  forall a b : Relation,
         Relation_eqb a b = true <->
         rel_name a = rel_name b /\
         rel_source_id a = rel_source_id b /\
         rel_target_id a = rel_target_id b /\
         rel_lexicon a = rel_lexicon b /\ Relation_subtype a = Relation_subtype b.
Proof. exact (@Relation_eqb_iff). Qed.
Print Assumptions C11_Relation_eqb_iff.

Theorem C11_Relation_subtype_distinguishes :
  forall a b : Relation, Relation_subtype a <> Relation_subtype b -> Relation_eqb a b = false.
Proof. exact (@Relation_subtype_distinguishes). Qed.
Print Assumptions C11_Relation_subtype_distinguishes.

Theorem C11_Relation_subtype_def :
  forall r : Relation, Relation_subtype r = metadata_get (rel_metadata r) s_type.
Proof. exact (@Relation_subtype_def). Qed.
Print Assumptions C11_Relation_subtype_def.

(* ---- R2: closure terminates with the fuel the model uses, lists no identifier twice, lists only reachable entities and is closed under get_related; it is exactly the reachable set when identifiers are unique among them *)
Theorem C11_closure_ok :
  forall (T : Type) (succ : T -> list T) (get_related : T -> res (list T))
           (id_of : T -> str) (good : T -> Prop),
         (forall x : T, good x -> get_related x = Ok (succ x)) ->
         (forall x y : T, good x -> In y (succ x) -> good y) ->
         forall U : list str,
         (forall x : T, good x -> In (id_of x) U) ->
         forall (fuel : nat) (self : T),
         (Datatypes.length U <= fuel)%nat ->
         good self ->
         exists result : list T,
           closure get_related id_of fuel self = Ok result /\
           NoDup (map id_of result) /\
           (forall r : T, In r result -> reach succ (succ self) r) /\
           (forall y : T, In y (succ self) -> In (id_of y) (map id_of result)) /\
           (forall r y : T, In r result -> In y (succ r) -> In (id_of y) (map id_of result)).
Proof. exact (@closure_ok). Qed.
Print Assumptions C11_closure_ok.

Theorem C11_closure_exact :
  forall (T : Type) (succ : T -> list T) (get_related : T -> res (list T))
           (id_of : T -> str) (good : T -> Prop),
         (forall x : T, good x -> get_related x = Ok (succ x)) ->
         (forall x y : T, good x -> In y (succ x) -> good y) ->
         forall U : list str,
         (forall x : T, good x -> In (id_of x) U) ->
         forall (fuel : nat) (self : T) (result : list T),
         (forall a b : T,
          reach succ (succ self) a -> reach succ (succ self) b -> id_of a = id_of b -> a = b) ->
         closure get_related id_of fuel self = Ok result ->
         (Datatypes.length U <= fuel)%nat ->
         good self -> NoDup result /\ (forall x : T, In x result <-> reach succ (succ self) x).
Proof. exact (@closure_exact). Qed.
Print Assumptions C11_closure_exact.

Theorem C11_Sense_closure_ok :
  forall d : db,
         db_ok d = true ->
         forall w : Wordnet,
         wn_default_mode w = true \/ wn_lexicon_ids w <> [] ->
         forall (args : list str) (s : Sense),
         good_sense d w s ->
         exists result : list Sense,
           Sense_closure d (sense_fuel d) s args = Ok result /\
           NoDup (map sn_id result) /\
           (forall r : Sense, In r result -> reach (succ_sense d args) (succ_sense d args s) r) /\
           (forall y : Sense, In y (succ_sense d args s) -> In (sn_id y) (map sn_id result)) /\
           (forall r y : Sense,
            In r result -> In y (succ_sense d args r) -> In (sn_id y) (map sn_id result)).
Proof. exact (@Sense_closure_ok). Qed.
Print Assumptions C11_Sense_closure_ok.

Theorem C11_Sense_closure_exact :
  forall d : db,
         db_ok d = true ->
         forall w : Wordnet,
         wn_default_mode w = true \/ wn_lexicon_ids w <> [] ->
         forall (args : list str) (s : Sense) (result : list Sense),
         good_sense d w s ->
         (forall a b : Sense,
          reach (succ_sense d args) (succ_sense d args s) a ->
          reach (succ_sense d args) (succ_sense d args s) b -> sn_id a = sn_id b -> a = b) ->
         Sense_closure d (sense_fuel d) s args = Ok result ->
         NoDup result /\
         (forall x : Sense, In x result <-> reach (succ_sense d args) (succ_sense d args s) x).
Proof. exact (@Sense_closure_exact). Qed.
Print Assumptions C11_Sense_closure_exact.

Theorem C11_Synset_closure_ok :
  forall d : db,
         db_ok d = true ->
         forall w : Wordnet,
         wn_default_mode w = true \/ wn_lexicon_ids w <> [] ->
         forall (args : list str) (y : Synset),
         good_synset d w y ->
         exists result : list Synset,
           Synset_closure d (synset_fuel d) y args = Ok result /\
           NoDup (map ss_id result) /\
           (forall r : Synset, In r result -> reach (succ_synset d args) (succ_synset d args y) r) /\
           (forall t : Synset, In t (succ_synset d args y) -> In (ss_id t) (map ss_id result)) /\
           (forall r t : Synset,
            In r result -> In t (succ_synset d args r) -> In (ss_id t) (map ss_id result)).
Proof. exact (@Synset_closure_ok). Qed.
Print Assumptions C11_Synset_closure_ok.

Theorem C11_Synset_closure_exact :
  forall d : db,
         db_ok d = true ->
         forall w : Wordnet,
         wn_default_mode w = true \/ wn_lexicon_ids w <> [] ->
         forall (args : list str) (y : Synset) (result : list Synset),
         good_synset d w y ->
         (forall a b : Synset,
          reach (succ_synset d args) (succ_synset d args y) a ->
          reach (succ_synset d args) (succ_synset d args y) b -> ss_id a = ss_id b -> a = b) ->
         Synset_closure d (synset_fuel d) y args = Ok result ->
         NoDup result /\
         (forall x : Synset, In x result <-> reach (succ_synset d args) (succ_synset d args y) x).
Proof. exact (@Synset_closure_exact). Qed.
Print Assumptions C11_Synset_closure_exact.

(* ---- R3: relation_paths terminates and every path is a simple chain of get_related steps that cannot be extended *)
Theorem C11_paths_from_sound :
  forall (T : Type) (succ : T -> list T) (get_related : T -> res (list T))
           (key_eqb : T -> T -> bool) (good : T -> Prop),
         (forall x : T, good x -> get_related x = Ok (succ x)) ->
         (forall x y : T, good x -> In y (succ x) -> good y) ->
         forall (fuel : nat) (path : list T) (lst : T) (visited : list T)
           (ps : list (list T)) (p : list T),
         good lst ->
         paths_from get_related key_eqb fuel path lst visited = Ok ps ->
         In p ps ->
         exists ext : list T,
           p = path ++ ext /\
           chain succ lst ext /\
           simple_ext key_eqb visited ext /\
           (forall y : T,
            In y (succ (last_of lst ext)) -> existsb (key_eqb y) (visited ++ ext) = true).
Proof. exact (@paths_from_sound). Qed.
Print Assumptions C11_paths_from_sound.

Theorem C11_relation_paths_sound :
  forall (T : Type) (succ : T -> list T) (get_related : T -> res (list T)),
         (T -> str) ->
         forall (rowid_of : T -> Z) (key_eqb : T -> T -> bool) (good : T -> Prop),
         (forall x : T, good x -> get_related x = Ok (succ x)) ->
         (forall x y : T, good x -> In y (succ x) -> good y) ->
         forall (fuel : nat) (self : T) (ps : list (list T)) (p : list T),
         good self ->
         relation_paths get_related rowid_of key_eqb fuel self = Ok ps ->
         In p ps ->
         exists (target : T) (ext : list T),
           p = target :: ext /\
           In target (succ self) /\
           rowid_of target <> rowid_of self /\
           chain succ target ext /\
           simple_ext key_eqb [self; target] ext /\
           (forall y : T,
            In y (succ (last_of target ext)) -> existsb (key_eqb y) ([self; target] ++ ext) = true).
Proof. exact (@relation_paths_sound). Qed.
Print Assumptions C11_relation_paths_sound.

Theorem C11_relation_paths_simple :
  forall (T : Type) (succ : T -> list T) (get_related : T -> res (list T)),
         (T -> str) ->
         forall (rowid_of : T -> Z) (key_eqb : T -> T -> bool) (good : T -> Prop),
         (forall x : T, good x -> get_related x = Ok (succ x)) ->
         (forall x y : T, good x -> In y (succ x) -> good y) ->
         forall (fuel : nat) (self : T) (ps : list (list T)) (p : list T),
         good self ->
         (forall a b : T, key_eqb a b = true -> rowid_of a = rowid_of b) ->
         relation_paths get_related rowid_of key_eqb fuel self = Ok ps ->
         In p ps -> nodup_by key_eqb p /\ (forall t : T, In t p -> key_eqb t self = false).
Proof. exact (@relation_paths_simple). Qed.
Print Assumptions C11_relation_paths_simple.

Theorem C11_relation_paths_total :
  forall (T : Type) (succ : T -> list T) (get_related : T -> res (list T)),
         (T -> str) ->
         forall (rowid_of : T -> Z) (key_eqb : T -> T -> bool) (good : T -> Prop),
         (forall x : T, good x -> get_related x = Ok (succ x)) ->
         (forall x y : T, good x -> In y (succ x) -> good y) ->
         forall UT : list T,
         (forall a b : T, key_eqb a b = true -> key_eqb b a = true) ->
         (forall a b c : T, key_eqb a b = true -> key_eqb b c = true -> key_eqb a c = true) ->
         (forall x : T, good x -> exists u : T, In u UT /\ key_eqb u x = true) ->
         forall (fuel : nat) (self : T),
         (Datatypes.length UT < fuel)%nat ->
         good self ->
         exists ps : list (list T), relation_paths get_related rowid_of key_eqb fuel self = Ok ps.
Proof. exact (@relation_paths_total). Qed.
Print Assumptions C11_relation_paths_total.

Theorem C11_Sense_relation_paths_ok :
  forall d : db,
         db_ok d = true ->
         forall w : Wordnet,
         wn_default_mode w = true \/ wn_lexicon_ids w <> [] ->
         forall (args : list str) (s : Sense),
         good_sense d w s ->
         exists ps : list (list Sense),
           Sense_relation_paths d (sense_fuel d) s args = Ok ps /\
           (forall p : list Sense,
            In p ps ->
            nodup_by Sense_key_eqb p /\
            (forall t : Sense, In t p -> sn__id t <> sn__id s) /\
            (exists (target : Sense) (ext : list Sense),
               p = target :: ext /\
               In target (succ_sense d args s) /\ chain (succ_sense d args) target ext)).
Proof. exact (@Sense_relation_paths_ok). Qed.
Print Assumptions C11_Sense_relation_paths_ok.

Theorem C11_Synset_relation_paths_sound :
  forall d : db,
         db_ok d = true ->
         forall w : Wordnet,
         wn_default_mode w = true \/ wn_lexicon_ids w <> [] ->
         forall (args : list str) (fuel : nat) (y : Synset) (ps : list (list Synset))
           (p : list Synset),
         good_synset d w y ->
         Synset_relation_paths d fuel y args = Ok ps ->
         In p ps ->
         nodup_by Synset_key_eqb p /\
         (forall t : Synset, In t p -> Synset_key_eqb t y = false) /\
         (exists (target : Synset) (ext : list Synset),
            p = target :: ext /\
            In target (succ_synset d args y) /\
            ss__id target <> ss__id y /\ chain (succ_synset d args) target ext).
Proof. exact (@Synset_relation_paths_sound). Qed.
Print Assumptions C11_Synset_relation_paths_sound.

Theorem C11_Synset_relation_paths_total :
  forall d : db,
         db_ok d = true ->
         forall w : Wordnet,
         wn_default_mode w = true \/ wn_lexicon_ids w <> [] ->
         forall (args : list str) (fuel : nat) (y : Synset),
         good_synset d w y ->
         (Datatypes.length (t_synsets d) +
          Datatypes.length (t_ilis d) * Datatypes.length (t_synsets d) < fuel)%nat ->
         exists ps : list (list Synset), Synset_relation_paths d fuel y args = Ok ps.
Proof. exact (@Synset_relation_paths_total). Qed.
Print Assumptions C11_Synset_relation_paths_total.

(* ---- the code runs agenda loops (a stack for relation_paths, a queue for closure): the loops compute what the recursive definitions compute, in the same order, and terminate on every finite graph (over an abstract get_related function [hyp]) *)
Theorem C11_loop_refines_recursion :
  forall (hyp : Taxonomy.node -> list Taxonomy.node) (f1 f2 : nat)
           (x : Taxonomy.node) (ps1 ps2 : list (list Taxonomy.node)),
         AgendaProofs.relation_paths_loop hyp f1 x = Some ps1 ->
         Taxonomy.relation_paths hyp f2 x = Some ps2 -> ps1 = ps2.
Proof. exact (@WnV.Proofs.AgendaProofs.loop_refines_recursion). Qed.
Print Assumptions C11_loop_refines_recursion.

Theorem C11_loop_py_refines_recursion :
  forall (hyp : Taxonomy.node -> list Taxonomy.node) (f1 f2 : nat)
           (x : Taxonomy.node) (ps1 ps2 : list (list Taxonomy.node)),
         AgendaProofs.relation_paths_loop_py hyp f1 x = Some ps1 ->
         Taxonomy.relation_paths hyp f2 x = Some ps2 -> ps1 = ps2.
Proof. exact (@WnV.Proofs.AgendaProofs.loop_py_refines_recursion). Qed.
Print Assumptions C11_loop_py_refines_recursion.

Theorem C11_loop_terminates :
  forall (hyp : Taxonomy.node -> list Taxonomy.node) (V : list Taxonomy.node)
           (x : Taxonomy.node),
         TaxSpec.closed hyp V ->
         In x V -> exists fuel : nat, AgendaProofs.relation_paths_loop hyp fuel x <> None.
Proof. exact (@WnV.Proofs.AgendaProofs.loop_terminates). Qed.
Print Assumptions C11_loop_terminates.

Theorem C11_loop_spec :
  forall (hyp : Taxonomy.node -> list Taxonomy.node) (fuel : nat)
           (x : Taxonomy.node) (ps : list (list Taxonomy.node)),
         AgendaProofs.relation_paths_loop hyp fuel x = Some ps ->
         forall p : list Taxonomy.node, In p ps <-> p <> [] /\ TaxSpec.maximal_simple hyp x p.
Proof. exact (@WnV.Proofs.AgendaProofs.loop_spec). Qed.
Print Assumptions C11_loop_spec.

Theorem C11_closure_loop_spec :
  forall (hyp : Taxonomy.node -> list Taxonomy.node) (fuel : nat)
           (x : Taxonomy.node) (l : list Taxonomy.node),
         AgendaProofs.closure_loop hyp fuel (hyp x) [] [] = Some l ->
         NoDup l /\
         (forall y : Taxonomy.node,
          In y l <->
          (exists p : list Taxonomy.node, p <> [] /\ TaxSpec.chain hyp x p /\ last p x = y)).
Proof. exact (@WnV.Proofs.AgendaProofs.closure_loop_spec). Qed.
Print Assumptions C11_closure_loop_spec.

Theorem C11_closure_loop_terminates_bound :
  forall (hyp : Taxonomy.node -> list Taxonomy.node) (V : list Taxonomy.node)
           (x : Taxonomy.node) (fuel : nat),
         TaxSpec.closed hyp V ->
         NoDup V ->
         (Datatypes.length (hyp x) + Datatypes.length (concat (map hyp V)) <= fuel)%nat ->
         AgendaProofs.closure_loop hyp fuel (hyp x) [] [] <> None.
Proof. exact (@WnV.Proofs.AgendaProofs.closure_loop_terminates_bound). Qed.
Print Assumptions C11_closure_loop_terminates_bound.

(* ---- non-vacuity: db_ok on real dumps; the fuel bound is met with equality-free slack on the database that refuted the previous bound *)
Theorem C11_db_ok_sample_1 :
  db_ok sample_db_1 = true.
Proof. exact (@db_ok_sample_1). Qed.
Print Assumptions C11_db_ok_sample_1.

Theorem C11_db_ok_fuzz :
  db_ok sample_db_fuzz = true.
Proof. exact (@db_ok_fuzz). Qed.
Print Assumptions C11_db_ok_fuzz.

Theorem C11_old_fuel_bound_refuted :
  fpaths (S (S (Datatypes.length (t_synsets fdb) + Datatypes.length (t_ilis fdb)))) =
         OutOfFuel.
Proof. exact (@old_fuel_bound_refuted). Qed.
Print Assumptions C11_old_fuel_bound_refuted.

Theorem C11_model_fuel_suffices :
  match fpaths (synset_fuel fdb) with
         | Ok ps =>
             (Datatypes.length ps, fold_right Nat.max 0%nat (map (Datatypes.length (A:=Synset)) ps))
         | _ => (0%nat, 0%nat)
         end = (6%nat, 19%nat).
Proof. exact (@model_fuel_suffices). Qed.
Print Assumptions C11_model_fuel_suffices.

