(* Properties/C13.v — taxonomy functions agree with graph-theoretic definitions on
   any hypernym graph.  Statements only; proofs in Proofs/TaxPaths.v, TaxReach.v,
   TaxAssembly.v.  [hyp x] is what synset.hypernyms() returns; vocabulary
   (chain, maximal_simple, reach, is_dist, closed, acyclic) in Proofs/TaxSpec.v. *)
From Coq Require Import ZArith List Bool Sorted.
Import ListNotations.
Require Import WnV.Base.Sx WnV.Model.Taxonomy WnV.Proofs.TaxSpec WnV.Proofs.TaxPaths
        WnV.Proofs.TaxReach WnV.Proofs.TaxAssembly.
Require Import WnV.Proofs.AgendaProofs WnV.Proofs.SimRoot.

(* (1) hypernym_paths(x) is the set of all maximal simple hypernym chains from x,
   for every graph (cycles, self-loops), each listed once *)
Theorem C13_hypernym_paths_exact : forall hyp fuel x ps,
    relation_paths hyp fuel x = Some ps ->
    forall p, In p ps <-> (p <> [] /\ maximal_simple hyp x p).
Proof. exact relation_paths_spec. Qed.
Print Assumptions C13_hypernym_paths_exact.

Theorem C13_hypernym_paths_nodup : forall hyp fuel x ps,
    (forall y, NoDup (hyp y)) -> relation_paths hyp fuel x = Some ps -> NoDup ps.
Proof. exact relation_paths_NoDup. Qed.
Print Assumptions C13_hypernym_paths_nodup.

(* (2) everything terminates with fuel |V|+2 on every finite graph, cycles included *)
Theorem C13_paths_terminate : forall hyp V x sr self,
    closed hyp V -> In x V ->
    hypernym_paths_gen hyp (S (S (length V))) x sr self <> None.
Proof. exact hypernym_paths_gen_terminates. Qed.
Print Assumptions C13_paths_terminate.

Theorem C13_pair_functions_terminate : forall hyp V a b sr,
    closed hyp V -> In a V -> In b V ->
    common_hypernyms hyp (S (S (length V))) a b sr <> None
    /\ shortest_path_len hyp (S (S (length V))) a b sr <> None
    /\ shortest_path hyp (S (S (length V))) a b sr <> None
    /\ lowest_common_hypernyms hyp (S (S (length V))) a b sr <> None.
Proof. exact taxonomy_functions_terminate. Qed.
Print Assumptions C13_pair_functions_terminate.

(* (3) min_depth / max_depth are the shortest / longest of those chains, 0 for a root *)
Theorem C13_min_depth : forall hyp fuel x ps m,
    hypernym_paths hyp fuel x false = Some ps -> min_depth hyp fuel x false = Some m ->
    (ps = [] -> m = 0)
    /\ (ps <> [] -> (exists p, In p ps /\ length p = m) /\ (forall p, In p ps -> m <= length p)).
Proof. exact min_depth_spec. Qed.
Print Assumptions C13_min_depth.

Theorem C13_max_depth : forall hyp fuel x ps m,
    hypernym_paths hyp fuel x false = Some ps -> max_depth hyp fuel x false = Some m ->
    (ps = [] -> m = 0)
    /\ (ps <> [] -> (exists p, In p ps /\ length p = m) /\ (forall p, In p ps -> length p <= m)).
Proof. exact max_depth_spec. Qed.
Print Assumptions C13_max_depth.

(* (4) common_hypernyms(a, b) = intersection of the ancestor sets, each including the synset *)
Theorem C13_common_hypernyms : forall hyp V fuel a b cs,
    graph_ok hyp V -> In a V -> In b V ->
    common_hypernyms hyp fuel a b false = Some cs ->
    NoDup cs /\ (forall c, In c cs <-> (reach hyp a c /\ reach hyp b c)).
Proof. exact common_hypernyms_spec. Qed.
Print Assumptions C13_common_hypernyms.

(* (5) shortest_path: length = min over common hypernyms c of dist(a,c) + dist(b,c);
   wn.Error exactly when nothing is shared; same length in both directions *)
Theorem C13_shortest_path_length : forall hyp V fuel a b r,
    graph_ok hyp V -> In a V -> In b V ->
    shortest_path_len hyp fuel a b false = Some r ->
    match r with
    | None => forall c, ~ (reach hyp a c /\ reach hyp b c)
    | Some n => (exists c da db, is_dist hyp a c da /\ is_dist hyp b c db /\ n = da + db)
                /\ (forall c da db, is_dist hyp a c da -> is_dist hyp b c db -> n <= da + db)
    end.
Proof. exact shortest_path_len_spec. Qed.
Print Assumptions C13_shortest_path_length.

Theorem C13_shortest_path_symmetric : forall hyp V fuel a b r r',
    graph_ok hyp V -> In a V -> In b V ->
    shortest_path_len hyp fuel a b false = Some r ->
    shortest_path_len hyp fuel b a false = Some r' -> r = r'.
Proof. exact shortest_path_len_sym. Qed.
Print Assumptions C13_shortest_path_symmetric.

(* (6) the returned path is genuine: consecutive synsets linked by hypernymy in either
   direction, ending at b, empty iff a is b, of exactly that minimal length *)
Theorem C13_shortest_path_genuine : forall hyp V fuel a b p,
    graph_ok hyp V -> In a V -> In b V ->
    shortest_path hyp fuel a b false = Some (Some p) ->
    upath hyp a p /\ last p a = b /\ (p = [] <-> a = b)
    /\ shortest_path_len hyp fuel a b false = Some (Some (length p)).
Proof. exact shortest_path_genuine. Qed.
Print Assumptions C13_shortest_path_genuine.

(* (7) with simulate_root every pair is connected and the root is a common hypernym *)
Theorem C13_simulated_root : forall hyp V fuel a b r,
    graph_ok hyp V -> In a V -> In b V ->
    shortest_path_len hyp fuel a b true = Some r -> r <> None.
Proof. exact simulated_root_connects. Qed.
Print Assumptions C13_simulated_root.

Theorem C13_common_hypernyms_root : forall hyp V fuel a b cs,
    graph_ok hyp V -> In a V -> In b V ->
    common_hypernyms hyp fuel a b true = Some cs ->
    forall c, In c cs <-> (c = root \/ (reach hyp a c /\ reach hyp b c)).
Proof. exact common_hypernyms_root_spec. Qed.
Print Assumptions C13_common_hypernyms_root.

(* (8) lowest_common_hypernyms = the common hypernyms of greatest depth — proved for
   acyclic graphs (_partial: on a cyclic graph "depth" is measured along the enumerated
   chains and has no canonical graph-theoretic meaning; see DESIGN.md) *)
Theorem C13_lowest_common_hypernyms_partial : forall hyp V fuel a b ls,
    graph_ok hyp V -> In a V -> In b V -> acyclic hyp -> a <> b ->
    lowest_common_hypernyms hyp fuel a b false = Some ls ->
    forall c, In c ls <->
      (reach hyp a c /\ reach hyp b c /\
       forall c' d d', reach hyp a c' -> reach hyp b c' ->
                       is_max_depth hyp c d -> is_max_depth hyp c' d' -> d' <= d).
Proof. exact lowest_common_hypernyms_acyclic. Qed.
Print Assumptions C13_lowest_common_hypernyms_partial.

(* (9) results are sorted / independent of argument order *)
Theorem C13_common_hypernyms_sorted : forall hyp fuel a b sr cs,
    common_hypernyms hyp fuel a b sr = Some cs -> Sorted Z.le cs.
Proof. exact common_hypernyms_sorted. Qed.
Print Assumptions C13_common_hypernyms_sorted.

Theorem C13_lowest_common_hypernyms_symmetric : forall hyp V fuel a b la lb,
    graph_ok hyp V -> In a V -> In b V ->
    lowest_common_hypernyms hyp fuel a b false = Some la ->
    lowest_common_hypernyms hyp fuel b a false = Some lb -> la = lb.
Proof. exact lowest_common_hypernyms_sym. Qed.
Print Assumptions C13_lowest_common_hypernyms_symmetric.

(* (10) taxonomy_depth = the longest chain over the synsets of the part of speech — proved
   for acyclic graphs (_partial); on cyclic graphs the statement is refuted below (finding F12) *)
Theorem C13_taxonomy_depth_partial : forall hyp V fuel S d,
    graph_ok hyp V -> incl S V -> acyclic hyp ->
    taxonomy_depth hyp fuel S = Some d ->
    (forall x p, In x S -> maximal_simple hyp x p -> length p <= d)
    /\ (d = 0 \/ exists x p, In x S /\ maximal_simple hyp x p /\ length p = d).
Proof. exact taxonomy_depth_acyclic. Qed.
Print Assumptions C13_taxonomy_depth_partial.

(* s <-> h, s -> z -> z2, x -> h: the longest chain (x, h, s, z, z2) has 4 steps, the model of
   today's code answers 3 when s comes first (known finding F12) *)
Example C13_taxonomy_depth_refuted :
  let hyp := hyp_of [(1, [2; 3]); (2, [1]); (3, [4]); (5, [2])]%Z in
  taxonomy_depth hyp 10 [1; 2; 3; 4; 5]%Z = Some 3
  /\ hypernym_paths hyp 10 5%Z false = Some [[2; 1; 3; 4]]%Z.
Proof. vm_compute. split; reflexivity. Qed.
Print Assumptions C13_taxonomy_depth_refuted.

(* non-vacuity: a diamond with two roots *)
Example C13_nonvacuous :
  let hyp := hyp_of [(1, [2; 3]); (2, [4]); (3, [4; 5])]%Z in
  hypernym_paths hyp 7 1%Z false = Some [[3; 4]; [3; 5]; [2; 4]]%Z
  /\ shortest_path hyp 7 2%Z 3%Z false = Some (Some [4; 3]%Z)
  /\ lowest_common_hypernyms hyp 7 2%Z 3%Z false = Some [4]%Z.
Proof. vm_compute. repeat split; reflexivity. Qed.
Print Assumptions C13_nonvacuous.

(* ---- the code computes hypernym paths with an agenda loop used as a stack (wn/_core.py relation_paths), not by recursion: the loop, transliterated literally (agenda_run_py pops the last element) yields exactly the paths of the recursive model, in the same order, and terminates on every finite graph; hence the loop itself satisfies the specification *)
Theorem C13_relation_paths_loop_py_eq :
  forall (hyp : node -> list node) (fuel : nat) (x : node),
         relation_paths_loop_py hyp fuel x = relation_paths_loop hyp fuel x.
Proof. exact (@relation_paths_loop_py_eq). Qed.
Print Assumptions C13_relation_paths_loop_py_eq.

Theorem C13_loop_refines_recursion :
  forall (hyp : node -> list node) (f1 f2 : nat) (x : node) (ps1 ps2 : list (list node)),
         relation_paths_loop hyp f1 x = Some ps1 -> relation_paths hyp f2 x = Some ps2 -> ps1 = ps2.
Proof. exact (@loop_refines_recursion). Qed.
Print Assumptions C13_loop_refines_recursion.

Theorem C13_loop_py_refines_recursion :
  forall (hyp : node -> list node) (f1 f2 : nat) (x : node) (ps1 ps2 : list (list node)),
         relation_paths_loop_py hyp f1 x = Some ps1 ->
         relation_paths hyp f2 x = Some ps2 -> ps1 = ps2.
Proof. exact (@loop_py_refines_recursion). Qed.
Print Assumptions C13_loop_py_refines_recursion.

Theorem C13_loop_terminates :
  forall (hyp : node -> list node) (V : list node) (x : node),
         closed hyp V -> In x V -> exists fuel : nat, relation_paths_loop hyp fuel x <> None.
Proof. exact (@loop_terminates). Qed.
Print Assumptions C13_loop_terminates.

Theorem C13_loop_spec :
  forall (hyp : node -> list node) (fuel : nat) (x : node) (ps : list (list node)),
         relation_paths_loop hyp fuel x = Some ps ->
         forall p : list node, In p ps <-> p <> [] /\ maximal_simple hyp x p.
Proof. exact (@loop_spec). Qed.
Print Assumptions C13_loop_spec.

(* ---- closure (a queue) lists exactly the nodes reachable in one or more steps, each once, and terminates *)
Theorem C13_closure_loop_spec :
  forall (hyp : node -> list node) (fuel : nat) (x : node) (l : list node),
         closure_loop hyp fuel (hyp x) [] [] = Some l ->
         NoDup l /\
         (forall y : node,
          In y l <-> (exists p : list node, p <> [] /\ chain hyp x p /\ last p x = y)).
Proof. exact (@closure_loop_spec). Qed.
Print Assumptions C13_closure_loop_spec.

Theorem C13_closure_loop_terminates_bound :
  forall (hyp : node -> list node) (V : list node) (x : node) (fuel : nat),
         closed hyp V ->
         NoDup V ->
         length (hyp x) + length (concat (map hyp V)) <= fuel ->
         closure_loop hyp fuel (hyp x) [] [] <> None.
Proof. exact (@closure_loop_terminates_bound). Qed.
Print Assumptions C13_closure_loop_terminates_bound.

(* ---- roots / leaves are exactly the synsets without hypernyms / hyponyms, in the order of the synset list, each as often as listed *)
Theorem C13_roots_spec :
  forall (hyp : node -> list node) (syn : list node) (s : node),
         In s (roots hyp syn) <-> In s syn /\ hyp s = [].
Proof. exact (@roots_spec). Qed.
Print Assumptions C13_roots_spec.

Theorem C13_leaves_spec :
  forall (hypo : node -> list node) (syn : list node) (s : node),
         In s (leaves hypo syn) <-> In s syn /\ hypo s = [].
Proof. exact (@leaves_spec). Qed.
Print Assumptions C13_leaves_spec.

Theorem C13_roots_sublist :
  forall (hyp : node -> list node) (syn : list node), sublist (roots hyp syn) syn.
Proof. exact (@roots_sublist). Qed.
Print Assumptions C13_roots_sublist.

Theorem C13_leaves_sublist :
  forall (hypo : node -> list node) (syn : list node), sublist (leaves hypo syn) syn.
Proof. exact (@leaves_sublist). Qed.
Print Assumptions C13_leaves_sublist.

Theorem C13_roots_count :
  forall (hyp : node -> list node) (syn : list node) (s : Z),
         count_occ Z.eq_dec (roots hyp syn) s =
         match hyp s with
         | [] => count_occ Z.eq_dec syn s
         | _ :: _ => 0
         end.
Proof. exact (@roots_count). Qed.
Print Assumptions C13_roots_count.

Theorem C13_leaves_count :
  forall (hypo : node -> list node) (syn : list node) (s : Z),
         count_occ Z.eq_dec (leaves hypo syn) s =
         match hypo s with
         | [] => count_occ Z.eq_dec syn s
         | _ :: _ => 0
         end.
Proof. exact (@leaves_count). Qed.
Print Assumptions C13_leaves_count.

(* ---- simulate_root on every graph: the simulated root is appended to every hypernym path; depths grow by one *)
Theorem C13_gen_simroot_all_graphs :
  forall (hyp : node -> list node) (f : nat) (x : node) (incl : bool),
         x <> root ->
         hypernym_paths_gen hyp f x true incl =
         option_map add_root (hypernym_paths_gen hyp f x false incl).
Proof. exact (@gen_simroot_all_graphs). Qed.
Print Assumptions C13_gen_simroot_all_graphs.

Theorem C13_gen_simroot_at_root :
  forall (hyp : node -> list node) (f : nat) (sr incl : bool),
         hypernym_paths_gen hyp f root sr incl = Some (if incl then [[root]] else []).
Proof. exact (@gen_simroot_at_root). Qed.
Print Assumptions C13_gen_simroot_at_root.

Theorem C13_min_depth_simroot :
  forall (hyp : node -> list node) (f : nat) (x : node),
         x <> root -> min_depth hyp f x true = option_map S (min_depth hyp f x false).
Proof. exact (@min_depth_simroot). Qed.
Print Assumptions C13_min_depth_simroot.

Theorem C13_max_depth_simroot :
  forall (hyp : node -> list node) (f : nat) (x : node),
         x <> root -> max_depth hyp f x true = option_map S (max_depth hyp f x false).
Proof. exact (@max_depth_simroot). Qed.
Print Assumptions C13_max_depth_simroot.

(* ---- simulate_root on acyclic graphs = computing, without simulate_root, in the graph with one added node above all roots ([hyp_top]): same paths in the same order, hence the same depths, common hypernyms, shortest paths and lowest common hypernyms; the extended graph is closed and acyclic *)
Theorem C13_hyp_top_closed :
  forall (hyp : node -> list node) (V : list node),
         closed hyp V -> closed (hyp_top hyp) (root :: V).
Proof. exact (@hyp_top_closed). Qed.
Print Assumptions C13_hyp_top_closed.

Theorem C13_hyp_top_acyclic :
  forall hyp : node -> list node, acyclic hyp -> acyclic (hyp_top hyp).
Proof. exact (@hyp_top_acyclic). Qed.
Print Assumptions C13_hyp_top_acyclic.

Theorem C13_hypernym_paths_gen_top :
  forall (hyp : node -> list node) (V : list node),
         closed hyp V ->
         ~ In root V ->
         acyclic hyp ->
         forall (f1 f2 : nat) (x : node) (incl : bool) (ps1 ps2 : list (list node)),
         In x V ->
         hypernym_paths_gen hyp f1 x true incl = Some ps1 ->
         hypernym_paths_gen (hyp_top hyp) f2 x false incl = Some ps2 -> ps1 = ps2.
Proof. exact (@hypernym_paths_gen_top). Qed.
Print Assumptions C13_hypernym_paths_gen_top.

Theorem C13_hypernym_paths_gen_top_fuel_S :
  forall (hyp : node -> list node) (V : list node),
         closed hyp V ->
         ~ In root V ->
         acyclic hyp ->
         forall (f : nat) (x : node) (incl : bool) (ps : list (list node)),
         In x V ->
         hypernym_paths_gen hyp f x true incl = Some ps ->
         hypernym_paths_gen (hyp_top hyp) (S f) x false incl = Some ps.
Proof. exact (@hypernym_paths_gen_top_fuel_S). Qed.
Print Assumptions C13_hypernym_paths_gen_top_fuel_S.

Theorem C13_min_depth_top :
  forall (hyp : node -> list node) (V : list node),
         closed hyp V ->
         ~ In root V ->
         acyclic hyp ->
         forall (f1 f2 : nat) (x : node) (m1 m2 : nat),
         In x V ->
         min_depth hyp f1 x true = Some m1 -> min_depth (hyp_top hyp) f2 x false = Some m2 -> m1 = m2.
Proof. exact (@min_depth_top). Qed.
Print Assumptions C13_min_depth_top.

Theorem C13_max_depth_top :
  forall (hyp : node -> list node) (V : list node),
         closed hyp V ->
         ~ In root V ->
         acyclic hyp ->
         forall (f1 f2 : nat) (x : node) (m1 m2 : nat),
         In x V ->
         max_depth hyp f1 x true = Some m1 -> max_depth (hyp_top hyp) f2 x false = Some m2 -> m1 = m2.
Proof. exact (@max_depth_top). Qed.
Print Assumptions C13_max_depth_top.

Theorem C13_common_hypernyms_top :
  forall (hyp : node -> list node) (V : list node),
         closed hyp V ->
         ~ In root V ->
         acyclic hyp ->
         forall (f1 f2 : nat) (a b : node) (cs1 cs2 : list node),
         In a V ->
         In b V ->
         common_hypernyms hyp f1 a b true = Some cs1 ->
         common_hypernyms (hyp_top hyp) f2 a b false = Some cs2 -> cs1 = cs2.
Proof. exact (@common_hypernyms_top). Qed.
Print Assumptions C13_common_hypernyms_top.

Theorem C13_shortest_path_len_top :
  forall (hyp : node -> list node) (V : list node),
         closed hyp V ->
         ~ In root V ->
         acyclic hyp ->
         forall (f1 f2 : nat) (a b : node) (r1 r2 : option nat),
         In a V ->
         In b V ->
         shortest_path_len hyp f1 a b true = Some r1 ->
         shortest_path_len (hyp_top hyp) f2 a b false = Some r2 -> r1 = r2.
Proof. exact (@shortest_path_len_top). Qed.
Print Assumptions C13_shortest_path_len_top.

Theorem C13_shortest_path_top :
  forall (hyp : node -> list node) (V : list node),
         closed hyp V ->
         ~ In root V ->
         acyclic hyp ->
         forall (f1 f2 : nat) (a b : node) (r1 r2 : option (list node)),
         In a V ->
         In b V ->
         shortest_path hyp f1 a b true = Some r1 ->
         shortest_path (hyp_top hyp) f2 a b false = Some r2 -> r1 = r2.
Proof. exact (@shortest_path_top). Qed.
Print Assumptions C13_shortest_path_top.

Theorem C13_lowest_common_hypernyms_top :
  forall (hyp : node -> list node) (V : list node),
         closed hyp V ->
         ~ In root V ->
         acyclic hyp ->
         forall (f1 f2 : nat) (a b : node) (l1 l2 : list node),
         In a V ->
         In b V ->
         lowest_common_hypernyms hyp f1 a b true = Some l1 ->
         lowest_common_hypernyms (hyp_top hyp) f2 a b false = Some l2 -> l1 = l2.
Proof. exact (@lowest_common_hypernyms_top). Qed.
Print Assumptions C13_lowest_common_hypernyms_top.

Theorem C13_simroot_canonical :
  forall (hyp : node -> list node) (V : list node),
         closed hyp V ->
         ~ In root V ->
         acyclic hyp ->
         let F1 := S (S (length V)) in
         let F2 := S (S (S (length V))) in
         (forall (x : node) (incl : bool),
          In x V ->
          hypernym_paths_gen hyp F1 x true incl = hypernym_paths_gen (hyp_top hyp) F2 x false incl /\
          hypernym_paths_gen hyp F1 x true incl <> None) /\
         (forall x : node,
          In x V ->
          min_depth hyp F1 x true = min_depth (hyp_top hyp) F2 x false /\
          max_depth hyp F1 x true = max_depth (hyp_top hyp) F2 x false) /\
         (forall a b : node,
          In a V ->
          In b V ->
          common_hypernyms hyp F1 a b true = common_hypernyms (hyp_top hyp) F2 a b false /\
          shortest_hyp_paths hyp F1 a b true = shortest_hyp_paths (hyp_top hyp) F2 a b false /\
          shortest_path_len hyp F1 a b true = shortest_path_len (hyp_top hyp) F2 a b false /\
          shortest_path hyp F1 a b true = shortest_path (hyp_top hyp) F2 a b false /\
          lowest_common_hypernyms hyp F1 a b true =
          lowest_common_hypernyms (hyp_top hyp) F2 a b false).
Proof. exact (@simroot_canonical). Qed.
Print Assumptions C13_simroot_canonical.

(* ---- "an error when nothing is shared unless simulate_root joins all roots": with simulate_root shortest_path is never an error and its length is the minimum of dist(a,c)+dist(b,c) over the common hypernyms c of the extended graph (which always include the simulated root) *)
Theorem C13_shortest_path_len_simroot_spec :
  forall (hyp : node -> list node) (V : list node),
         closed hyp V ->
         ~ In root V ->
         acyclic hyp ->
         forall (f : nat) (a b : node) (r : option nat),
         In a V ->
         In b V ->
         shortest_path_len hyp f a b true = Some r ->
         exists n : nat,
           r = Some n /\
           (exists (c : node) (da db : nat),
              is_dist (hyp_top hyp) a c da /\ is_dist (hyp_top hyp) b c db /\ n = da + db) /\
           (forall (c : node) (da db : nat),
            is_dist (hyp_top hyp) a c da -> is_dist (hyp_top hyp) b c db -> n <= da + db).
Proof. exact (@shortest_path_len_simroot_spec). Qed.
Print Assumptions C13_shortest_path_len_simroot_spec.

Theorem C13_shortest_path_len_simroot_bound :
  forall (hyp : node -> list node) (V : list node),
         closed hyp V ->
         ~ In root V ->
         acyclic hyp ->
         forall (f : nat) (a b : node) (n da db : nat),
         In a V ->
         In b V ->
         shortest_path_len hyp f a b true = Some (Some n) ->
         is_dist (hyp_top hyp) a root da -> is_dist (hyp_top hyp) b root db -> n <= da + db.
Proof. exact (@shortest_path_len_simroot_bound). Qed.
Print Assumptions C13_shortest_path_len_simroot_bound.

Theorem C13_reach_top_root :
  forall (hyp : node -> list node) (V : list node),
         closed hyp V -> acyclic hyp -> forall x : node, In x V -> reach (hyp_top hyp) x root.
Proof. exact (@reach_top_root). Qed.
Print Assumptions C13_reach_top_root.

Theorem C13_reach_top_iff :
  forall (hyp : node -> list node) (V : list node),
         closed hyp V ->
         ~ In root V ->
         acyclic hyp ->
         forall x c : node, In x V -> reach (hyp_top hyp) x c <-> c = root \/ reach hyp x c.
Proof. exact (@reach_top_iff). Qed.
Print Assumptions C13_reach_top_iff.

Theorem C13_is_dist_top_iff :
  forall (hyp : node -> list node) (V : list node),
         closed hyp V ->
         ~ In root V ->
         forall (x c : node) (n : nat),
         x <> root -> c <> root -> is_dist (hyp_top hyp) x c n <-> is_dist hyp x c n.
Proof. exact (@is_dist_top_iff). Qed.
Print Assumptions C13_is_dist_top_iff.

Theorem C13_is_dist_top_root_iff :
  forall (hyp : node -> list node) (V : list node),
         closed hyp V ->
         ~ In root V ->
         forall (x : node) (n : nat),
         x <> root ->
         is_dist (hyp_top hyp) x root n <->
         (exists k : nat,
            n = S k /\
            (exists q : list node, chain hyp x q /\ hyp (last q x) = [] /\ length q = k) /\
            (forall q : list node, chain hyp x q -> hyp (last q x) = [] -> k <= length q)).
Proof. exact (@is_dist_top_root_iff). Qed.
Print Assumptions C13_is_dist_top_root_iff.

(* ---- on cyclic graphs the equivalence with the extended graph fails (a path that stops because everything was visited also gets the root appended): refuted by a witness, so the acyclicity hypothesis above is needed *)
Theorem C13_gen_top_cyclic_refuted :
  hypernym_paths_gen cyc2 4 1%Z true false = Some [[2%Z; 0%Z]] /\
         hypernym_paths_gen (hyp_top cyc2) 4 1%Z false false = Some [[2%Z]] /\
         hypernym_paths_gen cyc2 4 1%Z true true = Some [[1%Z; 2%Z; 0%Z]] /\
         hypernym_paths_gen (hyp_top cyc2) 4 1%Z false true = Some [[1%Z; 2%Z]] /\
         min_depth cyc2 4 1%Z true = Some 2 /\
         min_depth (hyp_top cyc2) 4 1%Z false = Some 1 /\
         common_hypernyms cyc2 4 1%Z 2%Z true = Some [0%Z; 1%Z; 2%Z] /\
         common_hypernyms (hyp_top cyc2) 4 1%Z 2%Z false = Some [1%Z; 2%Z].
Proof. exact (@gen_top_cyclic_refuted). Qed.
Print Assumptions C13_gen_top_cyclic_refuted.

Theorem C13_gen_top_needs_acyclic :
  ~
         (forall (hyp : node -> list node) (V : list node) (f1 f2 : nat)
            (x : node) (incl : bool) (ps1 ps2 : list (list node)),
          closed hyp V ->
          ~ In root V ->
          In x V ->
          hypernym_paths_gen hyp f1 x true incl = Some ps1 ->
          hypernym_paths_gen (hyp_top hyp) f2 x false incl = Some ps2 -> ps1 = ps2).
Proof. exact (@gen_top_needs_acyclic). Qed.
Print Assumptions C13_gen_top_needs_acyclic.

Theorem C13_simroot_dag_sanity :
  hypernym_paths_gen dag4 6 1%Z true true = Some [[1%Z; 3%Z; 0%Z]; [1%Z; 2%Z; 4%Z; 0%Z]] /\
         hypernym_paths_gen (hyp_top dag4) 7 1%Z false true =
         Some [[1%Z; 3%Z; 0%Z]; [1%Z; 2%Z; 4%Z; 0%Z]] /\
         shortest_path dag4 6 3 4 false = Some None /\
         shortest_path dag4 6 3 4 true = Some (Some [0%Z; 4%Z]) /\
         shortest_path (hyp_top dag4) 7 3 4 false = Some (Some [0%Z; 4%Z]) /\
         min_depth dag4 6 1%Z false = Some 1 /\
         min_depth dag4 6 1%Z true = Some 2 /\ min_depth (hyp_top dag4) 7 1%Z false = Some 2.
Proof. exact (@simroot_dag_sanity). Qed.
Print Assumptions C13_simroot_dag_sanity.

