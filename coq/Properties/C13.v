(* Properties/C13.v — placeholder until the proofs are assembled. *)
From Coq Require Import ZArith List.
Import ListNotations.
Require Import WnV.Base.Sx WnV.Model.Taxonomy.
Example C13_model_runs :
  hypernym_paths (hyp_of [(1, [2; 3]); (2, [4]); (3, [4])])%Z 6 1%Z false
  = Some [[3; 4]; [2; 4]]%Z.
Proof. vm_compute. reflexivity. Qed.
Print Assumptions C13_model_runs.
