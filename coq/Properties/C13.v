(* Properties/C13.v — taxonomy functions agree with graph-theoretic definitions on
   any hypernym graph.  Statements only; proofs in Proofs/TaxPaths.v, TaxReach.v,
   TaxAssembly.v.  [hyp x] is what synset.hypernyms() returns; vocabulary
   (chain, maximal_simple, reach, is_dist, closed, acyclic) in Proofs/TaxSpec.v. *)
From Coq Require Import ZArith List Bool Sorted.
Import ListNotations.
Require Import WnV.Base.Sx WnV.Model.Taxonomy WnV.Proofs.TaxSpec WnV.Proofs.TaxPaths
        WnV.Proofs.TaxReach WnV.Proofs.TaxAssembly.
Require Import WnV.Proofs.AgendaProofs.

(* (1) hypernym_paths(x) is the set of all maximal simple hypernym chains from x,
   for every graph (cycles, self-loops), each listed once *)
Theorem C13_hypernym_paths_exact : forall hyp fuel x ps,
    relation_paths hyp fuel x = Some ps ->
    forall p, In p ps <-> (p <> [] /\ maximal_simple hyp x p).
Proof. exact relation_paths_spec. Qed.
Print Assumptions C13_hypernym_paths_exact.

Theorem C13_hypernym_paths_nodup : forall hyp fuel x ps,
    (forall y, NoDup (hyp y)) -> relation_paths hyp fuel x = Some ps -> NoDup ps.
Proof. exact relation_paths_NoDup. Qed.
Print Assumptions C13_hypernym_paths_nodup.

(* (2) everything terminates with fuel |V|+2 on every finite graph, cycles included *)
Theorem C13_paths_terminate : forall hyp V x sr self,
    closed hyp V -> In x V ->
    hypernym_paths_gen hyp (S (S (length V))) x sr self <> None.
Proof. exact hypernym_paths_gen_terminates. Qed.
Print Assumptions C13_paths_terminate.

Theorem C13_pair_functions_terminate : forall hyp V a b sr,
    closed hyp V -> In a V -> In b V ->
    common_hypernyms hyp (S (S (length V))) a b sr <> None
    /\ shortest_path_len hyp (S (S (length V))) a b sr <> None
    /\ shortest_path hyp (S (S (length V))) a b sr <> None
    /\ lowest_common_hypernyms hyp (S (S (length V))) a b sr <> None.
Proof. exact taxonomy_functions_terminate. Qed.
Print Assumptions C13_pair_functions_terminate.

(* (3) min_depth / max_depth are the shortest / longest of those chains, 0 for a root *)
Theorem C13_min_depth : forall hyp fuel x ps m,
    hypernym_paths hyp fuel x false = Some ps -> min_depth hyp fuel x false = Some m ->
    (ps = [] -> m = 0)
    /\ (ps <> [] -> (exists p, In p ps /\ length p = m) /\ (forall p, In p ps -> m <= length p)).
Proof. exact min_depth_spec. Qed.
Print Assumptions C13_min_depth.

Theorem C13_max_depth : forall hyp fuel x ps m,
    hypernym_paths hyp fuel x false = Some ps -> max_depth hyp fuel x false = Some m ->
    (ps = [] -> m = 0)
    /\ (ps <> [] -> (exists p, In p ps /\ length p = m) /\ (forall p, In p ps -> length p <= m)).
Proof. exact max_depth_spec. Qed.
Print Assumptions C13_max_depth.

(* (4) common_hypernyms(a, b) = intersection of the ancestor sets, each including the synset *)
Theorem C13_common_hypernyms : forall hyp V fuel a b cs,
    graph_ok hyp V -> In a V -> In b V ->
    common_hypernyms hyp fuel a b false = Some cs ->
    NoDup cs /\ (forall c, In c cs <-> (reach hyp a c /\ reach hyp b c)).
Proof. exact common_hypernyms_spec. Qed.
Print Assumptions C13_common_hypernyms.

(* (5) shortest_path: length = min over common hypernyms c of dist(a,c) + dist(b,c);
   wn.Error exactly when nothing is shared; same length in both directions *)
Theorem C13_shortest_path_length : forall hyp V fuel a b r,
    graph_ok hyp V -> In a V -> In b V ->
    shortest_path_len hyp fuel a b false = Some r ->
    match r with
    | None => forall c, ~ (reach hyp a c /\ reach hyp b c)
    | Some n => (exists c da db, is_dist hyp a c da /\ is_dist hyp b c db /\ n = da + db)
                /\ (forall c da db, is_dist hyp a c da -> is_dist hyp b c db -> n <= da + db)
    end.
Proof. exact shortest_path_len_spec. Qed.
Print Assumptions C13_shortest_path_length.

Theorem C13_shortest_path_symmetric : forall hyp V fuel a b r r',
    graph_ok hyp V -> In a V -> In b V ->
    shortest_path_len hyp fuel a b false = Some r ->
    shortest_path_len hyp fuel b a false = Some r' -> r = r'.
Proof. exact shortest_path_len_sym. Qed.
Print Assumptions C13_shortest_path_symmetric.

(* (6) the returned path is genuine: consecutive synsets linked by hypernymy in either
   direction, ending at b, empty iff a is b, of exactly that minimal length *)
Theorem C13_shortest_path_genuine : forall hyp V fuel a b p,
    graph_ok hyp V -> In a V -> In b V ->
    shortest_path hyp fuel a b false = Some (Some p) ->
    upath hyp a p /\ last p a = b /\ (p = [] <-> a = b)
    /\ shortest_path_len hyp fuel a b false = Some (Some (length p)).
Proof. exact shortest_path_genuine. Qed.
Print Assumptions C13_shortest_path_genuine.

(* (7) with simulate_root every pair is connected and the root is a common hypernym *)
Theorem C13_simulated_root : forall hyp V fuel a b r,
    graph_ok hyp V -> In a V -> In b V ->
    shortest_path_len hyp fuel a b true = Some r -> r <> None.
Proof. exact simulated_root_connects. Qed.
Print Assumptions C13_simulated_root.

Theorem C13_common_hypernyms_root : forall hyp V fuel a b cs,
    graph_ok hyp V -> In a V -> In b V ->
    common_hypernyms hyp fuel a b true = Some cs ->
    forall c, In c cs <-> (c = root \/ (reach hyp a c /\ reach hyp b c)).
Proof. exact common_hypernyms_root_spec. Qed.
Print Assumptions C13_common_hypernyms_root.

(* (8) lowest_common_hypernyms = the common hypernyms of greatest depth — proved for
   acyclic graphs (_partial: on a cyclic graph "depth" is measured along the enumerated
   chains and has no canonical graph-theoretic meaning; see DESIGN.md) *)
Theorem C13_lowest_common_hypernyms_partial : forall hyp V fuel a b ls,
    graph_ok hyp V -> In a V -> In b V -> acyclic hyp -> a <> b ->
    lowest_common_hypernyms hyp fuel a b false = Some ls ->
    forall c, In c ls <->
      (reach hyp a c /\ reach hyp b c /\
       forall c' d d', reach hyp a c' -> reach hyp b c' ->
                       is_max_depth hyp c d -> is_max_depth hyp c' d' -> d' <= d).
Proof. exact lowest_common_hypernyms_acyclic. Qed.
Print Assumptions C13_lowest_common_hypernyms_partial.

(* (9) results are sorted / independent of argument order *)
Theorem C13_common_hypernyms_sorted : forall hyp fuel a b sr cs,
    common_hypernyms hyp fuel a b sr = Some cs -> Sorted Z.le cs.
Proof. exact common_hypernyms_sorted. Qed.
Print Assumptions C13_common_hypernyms_sorted.

Theorem C13_lowest_common_hypernyms_symmetric : forall hyp V fuel a b la lb,
    graph_ok hyp V -> In a V -> In b V ->
    lowest_common_hypernyms hyp fuel a b false = Some la ->
    lowest_common_hypernyms hyp fuel b a false = Some lb -> la = lb.
Proof. exact lowest_common_hypernyms_sym. Qed.
Print Assumptions C13_lowest_common_hypernyms_symmetric.

(* (10) taxonomy_depth = the longest chain over the synsets of the part of speech — proved
   for acyclic graphs (_partial); on cyclic graphs the statement is refuted below (finding F12) *)
Theorem C13_taxonomy_depth_partial : forall hyp V fuel S d,
    graph_ok hyp V -> incl S V -> acyclic hyp ->
    taxonomy_depth hyp fuel S = Some d ->
    (forall x p, In x S -> maximal_simple hyp x p -> length p <= d)
    /\ (d = 0 \/ exists x p, In x S /\ maximal_simple hyp x p /\ length p = d).
Proof. exact taxonomy_depth_acyclic. Qed.
Print Assumptions C13_taxonomy_depth_partial.

(* s <-> h, s -> z -> z2, x -> h: the longest chain (x, h, s, z, z2) has 4 steps, the model of
   today's code answers 3 when s comes first (known finding F12) *)
Example C13_taxonomy_depth_refuted :
  let hyp := hyp_of [(1, [2; 3]); (2, [1]); (3, [4]); (5, [2])]%Z in
  taxonomy_depth hyp 10 [1; 2; 3; 4; 5]%Z = Some 3
  /\ hypernym_paths hyp 10 5%Z false = Some [[2; 1; 3; 4]]%Z.
Proof. vm_compute. split; reflexivity. Qed.
Print Assumptions C13_taxonomy_depth_refuted.

(* non-vacuity: a diamond with two roots *)
Example C13_nonvacuous :
  let hyp := hyp_of [(1, [2; 3]); (2, [4]); (3, [4; 5])]%Z in
  hypernym_paths hyp 7 1%Z false = Some [[3; 4]; [3; 5]; [2; 4]]%Z
  /\ shortest_path hyp 7 2%Z 3%Z false = Some (Some [4; 3]%Z)
  /\ lowest_common_hypernyms hyp 7 2%Z 3%Z false = Some [4]%Z.
Proof. vm_compute. repeat split; reflexivity. Qed.
Print Assumptions C13_nonvacuous.

(* ---- the code computes hypernym paths with an agenda loop used as a stack (wn/_core.py relation_paths), not by recursion: the loop, transliterated literally (agenda_run_py pops the last element) yields exactly the paths of the recursive model, in the same order, and terminates on every finite graph; hence the loop itself satisfies the specification *)
Theorem C13_relation_paths_loop_py_eq :
  forall (hyp : node -> list node) (fuel : nat) (x : node),
         relation_paths_loop_py hyp fuel x = relation_paths_loop hyp fuel x.
Proof. exact (@relation_paths_loop_py_eq). Qed.
Print Assumptions C13_relation_paths_loop_py_eq.

Theorem C13_loop_refines_recursion :
  forall (hyp : node -> list node) (f1 f2 : nat) (x : node) (ps1 ps2 : list (list node)),
         relation_paths_loop hyp f1 x = Some ps1 -> relation_paths hyp f2 x = Some ps2 -> ps1 = ps2.
Proof. exact (@loop_refines_recursion). Qed.
Print Assumptions C13_loop_refines_recursion.

Theorem C13_loop_py_refines_recursion :
  forall (hyp : node -> list node) (f1 f2 : nat) (x : node) (ps1 ps2 : list (list node)),
         relation_paths_loop_py hyp f1 x = Some ps1 ->
         relation_paths hyp f2 x = Some ps2 -> ps1 = ps2.
Proof. exact (@loop_py_refines_recursion). Qed.
Print Assumptions C13_loop_py_refines_recursion.

Theorem C13_loop_terminates :
  forall (hyp : node -> list node) (V : list node) (x : node),
         closed hyp V -> In x V -> exists fuel : nat, relation_paths_loop hyp fuel x <> None.
Proof. exact (@loop_terminates). Qed.
Print Assumptions C13_loop_terminates.

Theorem C13_loop_spec :
  forall (hyp : node -> list node) (fuel : nat) (x : node) (ps : list (list node)),
         relation_paths_loop hyp fuel x = Some ps ->
         forall p : list node, In p ps <-> p <> [] /\ maximal_simple hyp x p.
Proof. exact (@loop_spec). Qed.
Print Assumptions C13_loop_spec.

(* ---- closure (a queue) lists exactly the nodes reachable in one or more steps, each once, and terminates *)
Theorem C13_closure_loop_spec :
  forall (hyp : node -> list node) (fuel : nat) (x : node) (l : list node),
         closure_loop hyp fuel (hyp x) [] [] = Some l ->
         NoDup l /\
         (forall y : node,
          In y l <-> (exists p : list node, p <> [] /\ chain hyp x p /\ last p x = y)).
Proof. exact (@closure_loop_spec). Qed.
Print Assumptions C13_closure_loop_spec.

Theorem C13_closure_loop_terminates_bound :
  forall (hyp : node -> list node) (V : list node) (x : node) (fuel : nat),
         closed hyp V ->
         NoDup V ->
         length (hyp x) + length (concat (map hyp V)) <= fuel ->
         closure_loop hyp fuel (hyp x) [] [] <> None.
Proof. exact (@closure_loop_terminates_bound). Qed.
Print Assumptions C13_closure_loop_terminates_bound.

