(* Properties/C16.v — results are a function of database content and arguments only.
   Determinism is free in Gallina; what is proved is that the places where the code used to
   iterate over hash-ordered sets are order-free or explicitly sorted in the model (which the
   correspondence checks of C13/C14 tie to the code).  Hash randomisation itself and repeated
   calls in one process are runtime facts: decided by the harness (partial). *)
From Coq Require Import ZArith List Bool Sorted.
Import ListNotations.
Require Import WnV.Base.Sx WnV.Model.Taxonomy WnV.Proofs.TaxSpec WnV.Proofs.TaxAssembly.

(* common_hypernyms comes out sorted by rowid, whatever order the sets were built in *)
Theorem C16_common_hypernyms_sorted : forall hyp fuel a b sr cs,
    common_hypernyms hyp fuel a b sr = Some cs -> Sorted Z.le cs.
Proof. exact common_hypernyms_sorted. Qed.
Print Assumptions C16_common_hypernyms_sorted.

(* lowest_common_hypernyms (and hence wup's choice of the first one) does not depend on argument order *)
Theorem C16_lowest_common_hypernyms_order_free : forall hyp V fuel a b la lb,
    graph_ok hyp V -> In a V -> In b V ->
    lowest_common_hypernyms hyp fuel a b false = Some la ->
    lowest_common_hypernyms hyp fuel b a false = Some lb -> la = lb.
Proof. exact lowest_common_hypernyms_sym. Qed.
Print Assumptions C16_lowest_common_hypernyms_order_free.

From Coq Require Import Lia Permutation Sorted.
Require Import WnV.Proofs.TaxPaths WnV.Proofs.TaxReach WnV.Proofs.PermInv.

(* ---- the taxonomy functions depend on the hypernym relation as a SET, not on the order in which it happens to be listed ([hyp_eqv hyp hyp'] = same hypernyms for every node, any order): the hypernym paths are the same set (a permutation when nothing is listed twice), and min_depth, max_depth, common_hypernyms, lowest_common_hypernyms (as lists), the shortest-path length, taxonomy_depth and roots are EQUAL, at any fuel *)
Theorem C16_hypernym_paths_seteq :
  forall (hyp hyp' : node -> list node) (f f' : nat) (x : node) (sr : bool)
           (ps ps' : list (list node)),
         hyp_eqv hyp hyp' ->
         hypernym_paths hyp f x sr = Some ps ->
         hypernym_paths hyp' f' x sr = Some ps' -> forall p : list node, In p ps <-> In p ps'.
Proof. exact (@hypernym_paths_seteq). Qed.
Print Assumptions C16_hypernym_paths_seteq.

Theorem C16_hypernym_paths_perm :
  forall (hyp hyp' : node -> list node) (f f' : nat) (x : node) (sr : bool)
           (ps ps' : list (list node)),
         hyp_eqv hyp hyp' ->
         (forall y : node, NoDup (hyp y)) ->
         (forall y : node, NoDup (hyp' y)) ->
         hypernym_paths hyp f x sr = Some ps ->
         hypernym_paths hyp' f' x sr = Some ps' -> Permutation ps ps'.
Proof. exact (@hypernym_paths_perm). Qed.
Print Assumptions C16_hypernym_paths_perm.

Theorem C16_hypernym_paths_defined_eqv :
  forall (hyp hyp' : node -> list node) (f : nat) (x : node) (sr : bool),
         hyp_eqv hyp hyp' -> hypernym_paths hyp f x sr = None <-> hypernym_paths hyp' f x sr = None.
Proof. exact (@hypernym_paths_defined_eqv). Qed.
Print Assumptions C16_hypernym_paths_defined_eqv.

Theorem C16_min_depth_eqv_fuel :
  forall (hyp hyp' : node -> list node) (f : nat) (x : node) (sr : bool),
         hyp_eqv hyp hyp' -> min_depth hyp f x sr = min_depth hyp' f x sr.
Proof. exact (@min_depth_eqv_fuel). Qed.
Print Assumptions C16_min_depth_eqv_fuel.

Theorem C16_max_depth_eqv_fuel :
  forall (hyp hyp' : node -> list node) (f : nat) (x : node) (sr : bool),
         hyp_eqv hyp hyp' -> max_depth hyp f x sr = max_depth hyp' f x sr.
Proof. exact (@max_depth_eqv_fuel). Qed.
Print Assumptions C16_max_depth_eqv_fuel.

Theorem C16_common_hypernyms_eqv_fuel :
  forall (hyp hyp' : node -> list node) (f : nat) (a b : node) (sr : bool),
         hyp_eqv hyp hyp' -> common_hypernyms hyp f a b sr = common_hypernyms hyp' f a b sr.
Proof. exact (@common_hypernyms_eqv_fuel). Qed.
Print Assumptions C16_common_hypernyms_eqv_fuel.

Theorem C16_lowest_common_hypernyms_eqv_fuel :
  forall (hyp hyp' : node -> list node) (f : nat) (a b : Z) (sr : bool),
         hyp_eqv hyp hyp' ->
         lowest_common_hypernyms hyp f a b sr = lowest_common_hypernyms hyp' f a b sr.
Proof. exact (@lowest_common_hypernyms_eqv_fuel). Qed.
Print Assumptions C16_lowest_common_hypernyms_eqv_fuel.

Theorem C16_shortest_path_len_eqv_fuel :
  forall (hyp hyp' : node -> list node) (f : nat) (a b : Z) (sr : bool),
         hyp_eqv hyp hyp' -> shortest_path_len hyp f a b sr = shortest_path_len hyp' f a b sr.
Proof. exact (@shortest_path_len_eqv_fuel). Qed.
Print Assumptions C16_shortest_path_len_eqv_fuel.

Theorem C16_taxonomy_depth_eqv_fuel :
  forall (hyp hyp' : node -> list node) (f : nat) (syn : list node),
         hyp_eqv hyp hyp' -> taxonomy_depth hyp f syn = taxonomy_depth hyp' f syn.
Proof. exact (@taxonomy_depth_eqv_fuel). Qed.
Print Assumptions C16_taxonomy_depth_eqv_fuel.

Theorem C16_roots_eqv :
  forall (hyp hyp' : node -> list node) (syn : list node),
         hyp_eqv hyp hyp' -> roots hyp syn = roots hyp' syn.
Proof. exact (@roots_eqv). Qed.
Print Assumptions C16_roots_eqv.

Theorem C16_taxonomy_order_independent :
  forall (hyp hyp' : node -> list node) (V : list node) (a b : node)
           (sr : bool) (syn : list node),
         hyp_eqv hyp hyp' ->
         closed hyp V ->
         In a V ->
         In b V ->
         let F := S (S (length V)) in
         (exists ps ps' : list (list node),
            hypernym_paths hyp F a sr = Some ps /\
            hypernym_paths hyp' F a sr = Some ps' /\
            (forall p : list node, In p ps <-> In p ps') /\
            ((forall y : node, NoDup (hyp y)) ->
             (forall y : node, NoDup (hyp' y)) -> Permutation ps ps')) /\
         min_depth hyp F a sr = min_depth hyp' F a sr /\
         min_depth hyp F a sr <> None /\
         max_depth hyp F a sr = max_depth hyp' F a sr /\
         max_depth hyp F a sr <> None /\
         common_hypernyms hyp F a b sr = common_hypernyms hyp' F a b sr /\
         common_hypernyms hyp F a b sr <> None /\
         shortest_path_len hyp F a b sr = shortest_path_len hyp' F a b sr /\
         shortest_path_len hyp F a b sr <> None /\
         lowest_common_hypernyms hyp F a b sr = lowest_common_hypernyms hyp' F a b sr /\
         lowest_common_hypernyms hyp F a b sr <> None /\
         orel (orel (fun p p' : list node => length p = length p')) (shortest_path hyp F a b sr)
           (shortest_path hyp' F a b sr) /\
         shortest_path hyp F a b sr <> None /\
         taxonomy_depth hyp F syn = taxonomy_depth hyp' F syn /\ roots hyp syn = roots hyp' syn.
Proof. exact (@taxonomy_order_independent). Qed.
Print Assumptions C16_taxonomy_order_independent.

(* ---- the node list of shortest_path is the one place where listing order shows (witness): only the choice among equally short chains to the SAME turning point can differ; its length, turning point and depth are invariant, and it is invariant under single inheritance.  (The listing order is database content — relation rows in rowid order — not hash order, so this does not contradict the property; the run-time check compares the actual lists across hash seeds.) *)
Theorem C16_shortest_path_not_invariant :
  let hyp := hyp_of [(10%Z, [1%Z; 2%Z]); (1%Z, [3%Z]); (2%Z, [3%Z])] in
         let hyp' := hyp_of [(10%Z, [2%Z; 1%Z]); (1%Z, [3%Z]); (2%Z, [3%Z])] in
         hyp_eqv hyp hyp' /\
         (forall y : node, NoDup (hyp y)) /\
         (forall y : node, NoDup (hyp' y)) /\
         closed hyp [10%Z; 1%Z; 2%Z; 3%Z] /\
         shortest_path hyp 6 10 3 false = Some (Some [2%Z; 3%Z]) /\
         shortest_path hyp' 6 10 3 false = Some (Some [1%Z; 3%Z]) /\
         shortest_path hyp 6 3 10 false = Some (Some [2%Z; 10%Z]) /\
         shortest_path hyp' 6 3 10 false = Some (Some [1%Z; 10%Z]).
Proof. exact (@shortest_path_not_invariant). Qed.
Print Assumptions C16_shortest_path_not_invariant.

Theorem C16_shortest_path_length_eqv_fuel :
  forall (hyp hyp' : node -> list node) (f : nat) (a b : Z) (sr : bool),
         hyp_eqv hyp hyp' ->
         orel (orel (fun p p' : list node => length p = length p')) (shortest_path hyp f a b sr)
           (shortest_path hyp' f a b sr).
Proof. exact (@shortest_path_length_eqv_fuel). Qed.
Print Assumptions C16_shortest_path_length_eqv_fuel.

Theorem C16_shortest_path_choice_eqv :
  forall (hyp hyp' : node -> list node) (f f' : nat) (a b : Z) (sr : bool)
           (pm pm' : list (node * nat * list node)) (e e' : node * nat * list node),
         hyp_eqv hyp hyp' ->
         shortest_hyp_paths hyp f a b sr = Some pm ->
         shortest_hyp_paths hyp' f' a b sr = Some pm' ->
         sp_choice pm = Some e ->
         sp_choice pm' = Some e' ->
         shortest_path hyp f a b sr = Some (Some (tl (snd e))) /\
         shortest_path hyp' f' a b sr = Some (Some (tl (snd e'))) /\
         fst (fst e) = fst (fst e') /\ snd (fst e) = snd (fst e') /\ length (snd e) = length (snd e').
Proof. exact (@shortest_path_choice_eqv). Qed.
Print Assumptions C16_shortest_path_choice_eqv.

Theorem C16_shortest_path_turning_point :
  forall (hyp hyp' : node -> list node) (V : list node) (f f' : nat)
           (a b : node) (p p' : list node),
         hyp_eqv hyp hyp' ->
         graph_ok hyp V ->
         In a V ->
         In b V ->
         shortest_path hyp f a b false = Some (Some p) ->
         shortest_path hyp' f' a b false = Some (Some p') ->
         exists (c : node) (ua ub ua' ub' : list node),
           p = ua ++ tl (rev (b :: ub)) /\
           p' = ua' ++ tl (rev (b :: ub')) /\
           chain hyp a ua /\
           last ua a = c /\
           chain hyp a ua' /\
           last ua' a = c /\
           chain hyp b ub /\
           last ub b = c /\
           chain hyp b ub' /\
           last ub' b = c /\
           is_dist hyp a c (length ua) /\
           length ua' = length ua /\ is_dist hyp b c (length ub) /\ length ub' = length ub.
Proof. exact (@shortest_path_turning_point). Qed.
Print Assumptions C16_shortest_path_turning_point.

Theorem C16_shortest_path_eqv_single_inheritance :
  forall (hyp hyp' : node -> list node) (f : nat) (a b : Z) (sr : bool),
         hyp_eqv hyp hyp' ->
         (forall x : node, length (hyp x) <= 1) ->
         (forall x : node, length (hyp' x) <= 1) ->
         shortest_path hyp f a b sr = shortest_path hyp' f a b sr.
Proof. exact (@shortest_path_eqv_single_inheritance). Qed.
Print Assumptions C16_shortest_path_eqv_single_inheritance.

Theorem C16_hypernym_paths_perm_needs_NoDup :
  let hyp := hyp_of [(1%Z, [2%Z; 2%Z])] in
         let hyp' := hyp_of [(1%Z, [2%Z])] in
         hyp_eqv hyp hyp' /\
         hypernym_paths hyp 5 1%Z false = Some [[2%Z]; [2%Z]] /\
         hypernym_paths hyp' 5 1%Z false = Some [[2%Z]].
Proof. exact (@hypernym_paths_perm_needs_NoDup). Qed.
Print Assumptions C16_hypernym_paths_perm_needs_NoDup.

Theorem C16_taxonomy_depth_synset_order_cyclic :
  let hyp := hyp_of [(1%Z, [2%Z; 3%Z]); (2%Z, [1%Z]); (3%Z, [4%Z]); (5%Z, [2%Z])] in
         taxonomy_depth hyp 10 [1%Z; 2%Z; 3%Z; 4%Z; 5%Z] = Some 3 /\
         taxonomy_depth hyp 10 [5%Z; 1%Z; 2%Z; 3%Z; 4%Z] = Some 4.
Proof. exact (@taxonomy_depth_synset_order_cyclic). Qed.
Print Assumptions C16_taxonomy_depth_synset_order_cyclic.

