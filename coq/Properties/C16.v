(* Properties/C16.v — results are a function of database content and arguments only.
   Determinism is free in Gallina; what is proved is that the places where the code used to
   iterate over hash-ordered sets are order-free or explicitly sorted in the model (which the
   correspondence checks of C13/C14 tie to the code).  Hash randomisation itself and repeated
   calls in one process are runtime facts: decided by the harness (partial). *)
From Coq Require Import ZArith List Bool Sorted.
Import ListNotations.
Require Import WnV.Base.Sx WnV.Model.Taxonomy WnV.Proofs.TaxSpec WnV.Proofs.TaxAssembly.

(* common_hypernyms comes out sorted by rowid, whatever order the sets were built in *)
Theorem C16_common_hypernyms_sorted : forall hyp fuel a b sr cs,
    common_hypernyms hyp fuel a b sr = Some cs -> Sorted Z.le cs.
Proof. exact common_hypernyms_sorted. Qed.
Print Assumptions C16_common_hypernyms_sorted.

(* lowest_common_hypernyms (and hence wup's choice of the first one) does not depend on argument order *)
Theorem C16_lowest_common_hypernyms_order_free : forall hyp V fuel a b la lb,
    graph_ok hyp V -> In a V -> In b V ->
    lowest_common_hypernyms hyp fuel a b false = Some la ->
    lowest_common_hypernyms hyp fuel b a false = Some lb -> la = lb.
Proof. exact lowest_common_hypernyms_sym. Qed.
Print Assumptions C16_lowest_common_hypernyms_order_free.
