(* Properties/C07.v — placeholder until Model/Project.v is assembled. *)
From Coq Require Import List.
Import ListNotations.
Example C07_placeholder : length (@nil nat) = 0.
Proof. reflexivity. Qed.
Print Assumptions C07_placeholder.
