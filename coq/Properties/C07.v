(* Properties/C07.v — the way a resource is supplied does not change what gets stored.
   Statements only; proofs in Proofs/Project.v.  The model (Model/Project.v) covers the dispatch
   logic of iterpackages over an abstract file tree with ideal codecs; decompression, tar
   extraction, temporary files, listing order and "the input is not modified" are runtime
   behaviour decided by the harness (partial). [header_ok] is lmf._read_header's verdict. *)
From Coq Require Import String.
From Coq Require Import ZArith List Bool.
Import ListNotations.
Require Import WnV.Base.Sx WnV.Model.Project WnV.Proofs.Project.
Local Open Scope Z_scope.

(* every route of the property yields exactly the one resource: plain file, .gz, .xz, package directory
   with extra files, tar / tar.gz / tar.xz of the file or of the package, tar of the gzipped file *)
Theorem C07_all_routes_same : forall header_ok f b extras nm r,
    is_lmf header_ok b = true -> Forall (fun e => other header_ok (snd e)) extras ->
    In r (routes b extras nm) -> iterpackages header_ok (S (S f)) r = Ok [Pkg WORDNET b].
Proof. exact all_routes_same. Qed.
Print Assumptions C07_all_routes_same.

Theorem C07_package_directory : forall header_ok f pre post name b,
    is_lmf header_ok b = true ->
    Forall (fun e => other header_ok (snd e)) pre -> Forall (fun e => other header_ok (snd e)) post ->
    iterpackages header_ok (S f) (Dir (pre ++ (name, File (Raw b)) :: post)) = Ok [Pkg WORDNET b].
Proof. exact route_package_dir. Qed.
Print Assumptions C07_package_directory.

Theorem C07_archive_is_its_member : forall header_ok f name m,
    iterpackages header_ok (S f) (File (Tar [(name, m)])) = iterpackages header_ok f m
    /\ iterpackages header_ok (S f) (File (Gz (Tar [(name, m)]))) = iterpackages header_ok f m
    /\ iterpackages header_ok (S f) (File (Xz (Tar [(name, m)]))) = iterpackages header_ok f m.
Proof. exact route_tar. Qed.
Print Assumptions C07_archive_is_its_member.

Theorem C07_collection : forall header_ok f es,
    is_package_directory header_ok (Dir es) = false ->
    is_collection_directory header_ok (Dir es) = true ->
    iterpackages header_ok (S f) (Dir es)
    = seq_res (map (package header_ok) (filter (is_package_directory header_ok) (map snd es))).
Proof. exact route_collection. Qed.
Print Assumptions C07_collection.

Theorem C07_not_a_resource : forall header_ok f b,
    is_lmf header_ok b = false -> is_ili b = false -> iterpackages header_ok (S f) (File (Raw b)) = WnError.
Proof. exact not_a_resource. Qed.
Print Assumptions C07_not_a_resource.

Example C07_nonvacuous :
  let b := [60; 63; 120; 109; 108; 32; 1] in
  let ok := fun x => str_eqb x b in
  iterpackages ok 5 (File (Gz (Tar [([112], Dir [([114], File (Raw [1; 2])); ([120], File (Raw b))])])))
  = Ok [Pkg WORDNET b].
Proof. vm_compute. reflexivity. Qed.
Print Assumptions C07_nonvacuous.

(* ---- the remaining clauses of C07 over the model of add_lexical_resource (Model/Add.v; the same lemmas as Properties/C05.v):
   adding lexicons that are all installed already changes nothing; an extension whose base is not installed is skipped as a
   whole (the database is returned as it was); what is skipped depends only on (id, version, extends).  With C07_all_routes_same
   (every route yields the one resource, which add then processes) this gives "the same content whatever the route".
   "Neither the input file nor an in-memory resource is modified" has no Gallina counterpart (values are immutable): it is
   decided on the real code by file hashes and deep copies (harness/impl/run_C07.py). *)
Require Import WnV.Base.Sx WnV.Gen.Schema WnV.Gen.Constants WnV.Model.Spec WnV.Model.Val.
Require Import WnV.Model.Rel WnV.Model.Add WnV.Proofs.AddProofs.
Local Open Scope string_scope.

Theorem C07_add_lexical_resource_skips :
  forall (d : db) (r : val) (nt : normtable) (lexs : list val),
         vreq r "lexicons" = Ok (VList lexs) ->
         (forall lex : val, In lex lexs -> installed d lex \/ base_missing d lex) ->
         add_lexical_resource d r nt = Ok d.
Proof. exact (@add_lexical_resource_skips). Qed.
Print Assumptions C07_add_lexical_resource_skips.

Theorem C07_readd_is_noop :
  forall (d : db) (r : val) (nt : normtable) (lexs : list val),
         vreq r "lexicons" = Ok (VList lexs) ->
         (forall lex : val, In lex lexs -> installed d lex) -> add_lexical_resource d r nt = Ok d.
Proof. exact (@readd_is_noop). Qed.
Print Assumptions C07_readd_is_noop.

Theorem C07_extensions_without_base_skipped :
  forall (d : db) (r : val) (nt : normtable) (lexs : list val),
         vreq r "lexicons" = Ok (VList lexs) ->
         (forall lex : val, In lex lexs -> base_missing d lex) -> add_lexical_resource d r nt = Ok d.
Proof. exact (@extensions_without_base_skipped). Qed.
Print Assumptions C07_extensions_without_base_skipped.

Theorem C07_precheck_depends_on_spec_only :
  forall (d : db) (infos infos' : list val),
         Forall2 same_spec infos infos' -> _precheck infos d = _precheck infos' d.
Proof. exact (@precheck_depends_on_spec_only). Qed.
Print Assumptions C07_precheck_depends_on_spec_only.

