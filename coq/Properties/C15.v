(* Properties/C15.v — placeholder until the proofs are assembled. *)
From Coq Require Import ZArith QArith List.
Import ListNotations.
Require Import WnV.Base.Sx WnV.Model.Taxonomy WnV.Model.Ic.
Example C15_model_runs :
  ancestors (hyp_of [(1, [2; 3]); (2, [4]); (3, [4])])%Z 10 1%Z = Some [2; 4; 3; 1]%Z.
Proof. vm_compute. reflexivity. Qed.
Print Assumptions C15_model_runs.
