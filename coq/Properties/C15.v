(* Properties/C15.v — information-content weights are conserved, counted once
   and monotone.  Statements only; proofs in Proofs/IcProofs.v.  [hyp] is the
   hypernym graph, [cls] the part-of-speech class with satellite adjectives
   folded into adjectives (negative = not an IC part of speech), a corpus word
   is its count and wordnet.synsets(word). *)
From Coq Require Import ZArith QArith List Bool Permutation.
Import ListNotations.
Require Import WnV.Base.Sx WnV.Model.Taxonomy WnV.Model.Ic WnV.Proofs.TaxSpec WnV.Proofs.IcProofs WnV.Proofs.IcConserve WnV.Proofs.IcRoot WnV.Proofs.IcLoad.

(* (1) the loop credits exactly the word synset and its hypernym ancestors, each once *)
Theorem C15_ancestors_exact : forall hyp fuel x l,
    ancestors hyp fuel x = Some l ->
    NoDup l /\ (forall t, In t l <-> reach hyp x t).
Proof. exact ancestors_spec. Qed.
Print Assumptions C15_ancestors_exact.

(* (2) and terminates on every finite graph (cycles, self-loops) *)
Theorem C15_terminates : forall hyp V x,
    closed hyp V -> NoDup V -> In x V ->
    ancestors hyp (S (S (length (concat (map hyp V))))) x <> None.
Proof. exact ancestors_terminates. Qed.
Print Assumptions C15_terminates.

(* (3) every synset weight = smoothing + for each corpus word and each of its synsets s of
   an IC part of speech the word's weight iff the synset is s or a hypernym ancestor of s
   — once per word synset however many paths converge; unknown words add nothing *)
Theorem C15_counted_once : forall hyp cls fuel distribute corpus ev smoothing t,
    compute_events hyp cls fuel distribute corpus = Ok ev ->
    entry smoothing ev (Syn t) ==
    smoothing + sumQ (flat_map (fun w => map (fun s => if Z.leb 0 (cls s)
                                                       then credit hyp fuel t s (weight distribute w)
                                                       else 0)
                                             (cw_synsets w)) corpus).
Proof. exact compute_synset_entry. Qed.
Print Assumptions C15_counted_once.

Theorem C15_credit_is_reachability : forall hyp fuel t s wt anc,
    ancestors hyp fuel s = Some anc ->
    (reach hyp s t /\ credit hyp fuel t s wt = wt) \/ (~ reach hyp s t /\ credit hyp fuel t s wt = 0).
Proof. exact credit_spec. Qed.
Print Assumptions C15_credit_is_reachability.

(* (4) conservation: the total of a part of speech = smoothing + the weights of all corpus
   word synsets of that part of speech *)
Theorem C15_totals : forall hyp cls fuel distribute corpus ev smoothing k,
    compute_events hyp cls fuel distribute corpus = Ok ev -> (0 <= k)%Z ->
    entry smoothing ev (Total k) ==
    smoothing + sumQ (flat_map (fun w => map (fun s => if Z.eqb (cls s) k
                                                       then weight distribute w else 0)
                                             (cw_synsets w)) corpus).
Proof. exact compute_total_entry. Qed.
Print Assumptions C15_totals.

(* (4b) conservation in closed form: every corpus word known, all its synsets of IC class k,
   weights distributed: the class total is the smoothing value plus the sum of the corpus
   counts (the shares of a word add up to its count); undistributed, every synset of a word
   adds the whole count *)
Theorem C15_share_sum : forall w,
    cw_synsets w <> [] ->
    sumQ (map (fun _ => weight true w) (cw_synsets w)) == inject_Z (cw_count w).
Proof. exact weight_distributes. Qed.
Print Assumptions C15_share_sum.

Theorem C15_total_conserved : forall hyp cls fuel corpus ev smoothing k,
    compute_events hyp cls fuel true corpus = Ok ev -> (0 <= k)%Z ->
    (forall w, In w corpus -> cw_synsets w <> []) ->
    (forall w s, In w corpus -> In s (cw_synsets w) -> cls s = k) ->
    entry smoothing ev (Total k) == smoothing + sumQ (map (fun w => inject_Z (cw_count w)) corpus).
Proof. exact total_conserved. Qed.
Print Assumptions C15_total_conserved.

Theorem C15_total_undistributed : forall hyp cls fuel corpus ev smoothing k,
    compute_events hyp cls fuel false corpus = Ok ev -> (0 <= k)%Z ->
    (forall w s, In w corpus -> In s (cw_synsets w) -> cls s = k) ->
    entry smoothing ev (Total k)
    == smoothing + sumQ (map (fun w => inject_Z (Z.of_nat (length (cw_synsets w)))
                                       * inject_Z (cw_count w)) corpus).
Proof. exact total_undistributed. Qed.
Print Assumptions C15_total_undistributed.

(* (4c) unknown words are ignored (the run over the corpus equals the run without them, outcome
   included), and the order in which the corpus words are listed does not matter *)
Theorem C15_unknown_words_ignored : forall hyp cls fuel d corpus,
    compute_events hyp cls fuel d corpus = compute_events hyp cls fuel d (filter known corpus).
Proof. exact unknown_words_ignored. Qed.
Print Assumptions C15_unknown_words_ignored.

Theorem C15_corpus_order_irrelevant_syn : forall hyp cls fuel d corpus corpus' ev ev' smoothing t,
    compute_events hyp cls fuel d corpus = Ok ev ->
    compute_events hyp cls fuel d corpus' = Ok ev' ->
    Permutation corpus corpus' ->
    entry smoothing ev (Syn t) == entry smoothing ev' (Syn t).
Proof. exact corpus_order_irrelevant_syn. Qed.
Print Assumptions C15_corpus_order_irrelevant_syn.

Theorem C15_corpus_order_irrelevant_total : forall hyp cls fuel d corpus corpus' ev ev' smoothing k,
    compute_events hyp cls fuel d corpus = Ok ev ->
    compute_events hyp cls fuel d corpus' = Ok ev' ->
    Permutation corpus corpus' -> (0 <= k)%Z ->
    entry smoothing ev (Total k) == entry smoothing ev' (Total k).
Proof. exact corpus_order_irrelevant_total. Qed.
Print Assumptions C15_corpus_order_irrelevant_total.

(* (5) weights never decrease going up the taxonomy *)
Theorem C15_monotone : forall hyp cls fuel distribute corpus ev smoothing t u,
    compute_events hyp cls fuel distribute corpus = Ok ev ->
    (forall w, In w corpus -> (0 <= cw_count w)%Z) ->
    In u (hyp t) ->
    entry smoothing ev (Syn t) <= entry smoothing ev (Syn u).
Proof. exact compute_monotone. Qed.
Print Assumptions C15_monotone.

(* (6) synset probability lies in (0,1] *)
Theorem C15_probability : forall hyp cls fuel distribute corpus ev smoothing t,
    compute_events hyp cls fuel distribute corpus = Ok ev ->
    (forall w, In w corpus -> (0 <= cw_count w)%Z) ->
    0 < smoothing -> (0 <= cls t)%Z ->
    0 < probability cls smoothing ev t /\ probability cls smoothing ev t <= 1.
Proof. exact probability_unit. Qed.
Print Assumptions C15_probability.

(* (7) information content (for any antitone -log with -log 1 = 0): non-negative and never
   larger for a hypernym than for its hyponym *)
Theorem C15_information_content :
  forall hyp cls (nlog : Q -> Q),
    (forall p q, 0 < p -> p <= q -> nlog q <= nlog p) -> nlog 1 == 0 ->
    (forall p q, p == q -> nlog p == nlog q) ->
    forall fuel distribute corpus ev smoothing t u,
      compute_events hyp cls fuel distribute corpus = Ok ev ->
      (forall w, In w corpus -> (0 <= cw_count w)%Z) ->
      0 < smoothing -> (0 <= cls t)%Z -> In u (hyp t) -> cls u = cls t ->
      0 <= nlog (probability cls smoothing ev t)
      /\ nlog (probability cls smoothing ev u) <= nlog (probability cls smoothing ev t).
Proof. exact information_content_props. Qed.
Print Assumptions C15_information_content.

(* (8) the root of a single-rooted class carries the whole class: when every corpus word synset
   of t's class reaches t, weight t = class total, probability exactly 1, information content 0
   (the diamond below is an instance: d weighs as much as the total) *)
Theorem C15_root_weight_is_total : forall hyp cls fuel distribute corpus ev smoothing t,
    compute_events hyp cls fuel distribute corpus = Ok ev ->
    (forall w, In w corpus -> (0 <= cw_count w)%Z) ->
    (0 <= cls t)%Z ->
    (forall w s, In w corpus -> In s (cw_synsets w) -> cls s = cls t -> reach hyp s t) ->
    entry smoothing ev (Syn t) == entry smoothing ev (Total (cls t)).
Proof. exact root_weight_is_total. Qed.
Print Assumptions C15_root_weight_is_total.

Theorem C15_root_probability_one : forall hyp cls fuel distribute corpus ev smoothing t,
    compute_events hyp cls fuel distribute corpus = Ok ev ->
    (forall w, In w corpus -> (0 <= cw_count w)%Z) ->
    0 < smoothing -> (0 <= cls t)%Z ->
    (forall w s, In w corpus -> In s (cw_synsets w) -> cls s = cls t -> reach hyp s t) ->
    probability cls smoothing ev t == 1.
Proof. exact root_probability_one. Qed.
Print Assumptions C15_root_probability_one.

Theorem C15_root_information_content_zero :
  forall hyp cls (nlog : Q -> Q),
    nlog 1 == 0 -> (forall p q, p == q -> nlog p == nlog q) ->
    forall fuel distribute corpus ev smoothing t,
      compute_events hyp cls fuel distribute corpus = Ok ev ->
      (forall w, In w corpus -> (0 <= cw_count w)%Z) ->
      0 < smoothing -> (0 <= cls t)%Z ->
      (forall w s, In w corpus -> In s (cw_synsets w) -> cls s = cls t -> reach hyp s t) ->
      nlog (probability cls smoothing ev t) == 0.
Proof. exact root_information_content_zero. Qed.
Print Assumptions C15_root_information_content_zero.

(* (9) ic.load (model: load_entry, tied to wn.ic.load by the correspondence run_load): a synset gets
   the weight of the last line naming it, 0 when none does; a class total is the sum of the
   weights of that class's ROOT lines and nothing else *)
Theorem C15_load_syn_last : forall cls lines t,
    load_entry cls lines (Syn t)
    = match find (line_names cls t) (rev lines) with
      | Some l => line_weight l
      | None => 0
      end.
Proof. exact load_syn_last. Qed.
Print Assumptions C15_load_syn_last.

Theorem C15_load_syn_unlisted : forall cls lines t,
    (forall l, In l lines -> line_names cls t l = false) ->
    load_entry cls lines (Syn t) = 0.
Proof. exact load_syn_unlisted. Qed.
Print Assumptions C15_load_syn_unlisted.

Theorem C15_load_syn_unique : forall cls pre l post t,
    line_names cls t l = true ->
    (forall l', In l' post -> line_names cls t l' = false) ->
    load_entry cls (pre ++ l :: post) (Syn t) = line_weight l.
Proof. exact load_syn_unique. Qed.
Print Assumptions C15_load_syn_unique.

Theorem C15_load_total_is_root_sum : forall cls lines c,
    load_entry cls lines (Total c) == sumQ (map line_weight (filter (line_root_of c) lines)).
Proof. exact load_total_is_root_sum. Qed.
Print Assumptions C15_load_total_is_root_sum.

Theorem C15_load_total_no_roots : forall cls lines c,
    (forall l, In l lines -> line_root_of c l = false) ->
    load_entry cls lines (Total c) == 0.
Proof. exact load_total_no_roots. Qed.
Print Assumptions C15_load_total_no_roots.

(* non-vacuity: the diamond a -> b, c -> d with corpus [a]: every synset ends at 1 + 1 *)
Example C15_diamond :
  let hyp := hyp_of [(1, [2; 3]); (2, [4]); (3, [4])]%Z in
  match compute_events hyp (fun _ => 0%Z) 10 true [ {| cw_count := 1; cw_synsets := [1%Z] |} ] with
  | Ok ev => Qeq_bool (entry 1 ev (Syn 4%Z)) 2 && Qeq_bool (entry 1 ev (Total 0%Z)) 2
  | _ => false
  end = true.
Proof. vm_compute. reflexivity. Qed.
Print Assumptions C15_diamond.
