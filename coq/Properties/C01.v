(* Properties/C01.v — the query API reports exactly the content of every added lexicon.
   The property is the composition of two modelled layers, each tied to the code by its own correspondence:
   (1) document -> rows (Model/Add.v, theorems below: Proofs/AddContent.v): adding a resource appends, for every lexicon that is
       not skipped, exactly one row per declared element, in document order, with the document's values, and changes nothing else;
   (2) rows -> API (Model/Core.v; Properties C04/C09/C10/C11): the API lists exactly the rows of the selected lexicons.
   Vocabulary (Proofs/AddContent.v): [App t d d' vss] = table t of d' is table t of d followed by rows with consecutive fresh
   rowids carrying the cell lists vss, in that order; the *_row functions give the stored cells of a document element
   (coerced to the column types); lookups (ENTRY_QUERY, SYNSET_QUERY, ili_lookup ...) are evaluated in the final database d'.
   Batching: wn._add inserts in batches of BATCH_SIZE; every statement is about the concatenation of the batches.
   Statements only: every theorem is closed by `exact` of a lemma proved under Proofs/, followed by
   Print Assumptions.  (Statement texts were printed by Coq from the proved lemmas by harness/mkprops.py and are
   fixed from then on.) *)
From Coq Require Import String.
From Coq Require Import ZArith List Bool.
Import ListNotations.
Require Import WnV.Base.Sx WnV.Gen.Schema WnV.Gen.Constants WnV.Model.Spec WnV.Model.Val.
Require Import WnV.Model.Rel WnV.Model.Add WnV.Proofs.AddProofs.
Require Import WnV.Proofs.AddContent WnV.Proofs.Batch.
Local Open Scope Z_scope.
Local Open Scope string_scope.

(* ---- batching loses, duplicates and reorders nothing (for the BATCH_SIZE the source has now) *)
Theorem C01_batches_concat :
  forall (T : Type) (xs : list T), concat (batch (Z.to_nat BATCH_SIZE) xs) = xs.
Proof. exact (@batches_concat). Qed.
Print Assumptions C01_batches_concat.

(* ---- D1: one new lexicons row per lexicon that is not skipped, in document order, with id, label, language, email, license, version, url, citation, logo, metadata *)
Theorem C01_add_lexicons_rows :
  forall (d : db) (r : val) (nt : normtable) (d' : db) (lexs : list val),
         add_lexical_resource d r nt = Ok d' ->
         vreq r "lexicons" = Ok (VList lexs) ->
         exists skipmap : skipmap_t,
           (lexs = [] \/ _precheck lexs d = Ok skipmap) /\
           App "lexicons" d d' (map lexicon_row (filter (not_skipped skipmap) lexs)).
Proof. exact (@add_lexicons_rows). Qed.
Print Assumptions C01_add_lexicons_rows.

Theorem C01_add_resource_lexicon :
  forall (d : db) (r : val) (nt : normtable) (d' : db) (pre : list val)
           (L : val) (post : list val),
         add_lexical_resource d r nt = Ok d' ->
         vreq r "lexicons" = Ok (VList (pre ++ L :: post)) ->
         exists skipmap : skipmap_t,
           _precheck (pre ++ L :: post) d = Ok skipmap /\
           (not_skipped skipmap L = true ->
            exists d1 d2 : db,
              db_ext d d1 /\
              add_one_lexicon nt L d1 = Ok d2 /\
              db_ext d2 d' /\
              foldM (lex_step nt skipmap) pre d = Ok d1 /\
              foldM (lex_step nt skipmap) post d2 = Ok d').
Proof. exact (@add_resource_lexicon). Qed.
Print Assumptions C01_add_resource_lexicon.

Theorem C01_add_single_lexicon :
  forall (d : db) (r : val) (nt : normtable) (d' : db) (L : val),
         add_lexical_resource d r nt = Ok d' ->
         vreq r "lexicons" = Ok (VList [L]) ->
         exists skipmap : skipmap_t,
           _precheck [L] d = Ok skipmap /\
           (not_skipped skipmap L = true -> add_one_lexicon nt L d = Ok d').
Proof. exact (@add_single_lexicon). Qed.
Print Assumptions C01_add_single_lexicon.

Theorem C01_one_lexicon_lexicons :
  forall (nt : normtable) (L : val) (d d' : db),
         add_one_lexicon nt L d = Ok d' -> App "lexicons" d d' [lexicon_row L].
Proof. exact (@one_lexicon_lexicons). Qed.
Print Assumptions C01_one_lexicon_lexicons.

(* ---- D2: exactly the local (non-external) entries, in document order, with id, pos and metadata, owned by the new lexicon *)
Theorem C01_one_lexicon_entries :
  forall (nt : normtable) (L : val) (d d' : db),
         add_one_lexicon nt L d = Ok d' ->
         App "entries" d d'
           (map (entry_row (next_rowid (get_table d "lexicons"))) (_local_entries (_entries L))).
Proof. exact (@one_lexicon_entries). Qed.
Print Assumptions C01_one_lexicon_entries.

Theorem C01_add_single_lexicon_entries :
  forall (d : db) (r : val) (nt : normtable) (d' : db) (L : val) (skipmap : skipmap_t),
         add_lexical_resource d r nt = Ok d' ->
         vreq r "lexicons" = Ok (VList [L]) ->
         _precheck [L] d = Ok skipmap ->
         not_skipped skipmap L = true ->
         new_rows "lexicons" d d' = number_from (next_rowid (get_table d "lexicons")) [lexicon_row L] /\
         new_rows "entries" d d' =
         number_from (next_rowid (get_table d "entries"))
           (map (entry_row (next_rowid (get_table d "lexicons"))) (_local_entries (_entries L))).
Proof. exact (@add_single_lexicon_entries). Qed.
Print Assumptions C01_add_single_lexicon_entries.

(* ---- D3: forms: the lemma with rank 0 then the further forms in document order with ranks 1.., with written form, id, script and the normalized form (NULL when equal); an extension adds only its non-external forms to external entries *)
Theorem C01_one_lexicon_forms :
  forall (nt : normtable) (L : val) (d d' : db),
         add_one_lexicon nt L d = Ok d' ->
         exists (lexid extid : Z) (lexidmap : lexidmap_t),
           lexid = next_rowid (get_table d "lexicons") /\
           _build_lexid_map L lexid extid = Ok lexidmap /\
           App "forms" d d' (flat_map (entry_form_rows d' nt lexid lexidmap) (_entries L)).
Proof. exact (@one_lexicon_forms). Qed.
Print Assumptions C01_one_lexicon_forms.

(* ---- D4: exactly the local synsets in document order (ILI resolved through the ilis table, pos, lexicalized, lexfile, metadata); proposed_ilis rows exactly for ili="in" with the ILIDefinition *)
Theorem C01_one_lexicon_synsets :
  forall (nt : normtable) (L : val) (d d' : db),
         add_one_lexicon nt L d = Ok d' ->
         let lexid := next_rowid (get_table d "lexicons") in
         App "synsets" d d' (map (synset_row d' lexid) (_local_synsets (_synsets L))) /\
         App "proposed_ilis" d d' (flat_map (proposed_rows d' lexid) (_local_synsets (_synsets L))).
Proof. exact (@one_lexicon_synsets). Qed.
Print Assumptions C01_one_lexicon_synsets.

(* ---- D5: exactly the local senses in document order, linked to their (possibly base-lexicon) entry and synset, entry rank = position among the senses of the entry, synset rank from the declared members *)
Theorem C01_one_lexicon_senses :
  forall (nt : normtable) (L : val) (d d' : db),
         add_one_lexicon nt L d = Ok d' ->
         exists (lexid extid : Z) (lexidmap : lexidmap_t),
           lexid = next_rowid (get_table d "lexicons") /\
           _build_lexid_map L lexid extid = Ok lexidmap /\
           App "senses" d d'
             (flat_map (entry_sense_rows d' lexid lexidmap (ssrank_of (_synsets L))) (_entries L)).
Proof. exact (@one_lexicon_senses). Qed.
Print Assumptions C01_one_lexicon_senses.

(* ---- D6: children and relations: counts, adjpositions, examples, definitions, relations (sense-sense, sense-synset, synset-synset), syntactic behaviours and their sense links correspond one-to-one, in document order, to the declarations (including what an extension attaches to External elements) *)
Theorem C01_one_lexicon_children :
  forall (nt : normtable) (L : val) (d d' : db),
         add_one_lexicon nt L d = Ok d' ->
         exists (lexid extid : Z) (lexidmap : lexidmap_t) (synbhrs : list synbhr),
           lexid = next_rowid (get_table d "lexicons") /\
           _build_lexid_map L lexid extid = Ok lexidmap /\
           _collect_frames L = Ok synbhrs /\
           App "counts" d d' (flat_map (entry_count_rows d' lexid lexidmap) (_entries L)) /\
           App "adjpositions" d d' (flat_map (adjposition_rows d' lexid lexidmap) (_entries L)) /\
           App "sense_examples" d d'
             (flat_map (sense_example_rows d' lexid lexidmap) (flat_map _senses (_entries L))) /\
           App "synset_examples" d d' (flat_map (synset_example_rows d' lexid lexidmap) (_synsets L)) /\
           App "definitions" d d' (flat_map (definition_rows d' lexid lexidmap) (_synsets L)) /\
           App "synset_relations" d d'
             (flat_map (synset_relation_rows d' lexid lexidmap) (_synsets L)) /\
           App "sense_relations" d d'
             (map (srel_row "sense_relations" SENSE_QUERY d' lexid)
                (filter (to_sense (sense_ids_of L)) (sr_items L lexid lexidmap))) /\
           App "sense_synset_relations" d d'
             (map (srel_row "sense_synset_relations" SYNSET_QUERY d' lexid)
                (filter (fun it : senserel => negb (to_sense (sense_ids_of L) it))
                   (sr_items L lexid lexidmap))) /\
           App "syntactic_behaviours" d d' (map (sb_row lexid) synbhrs) /\
           App "syntactic_behaviour_senses" d d'
             (flat_map (sbs_rows d' lexid lexidmap) (framemap_of synbhrs)).
Proof. exact (@one_lexicon_children). Qed.
Print Assumptions C01_one_lexicon_children.

Theorem C01_ins_insert_sense_relations :
  forall (L : val) (lexid : Z) (m : lexidmap_t) (d d' : db),
         _insert_sense_relations L lexid m d = Ok d' ->
         let items := sr_items L lexid m in
         let sids := sense_ids_of L in
         App "sense_relations" d d'
           (map (srel_row "sense_relations" SENSE_QUERY d lexid) (filter (to_sense sids) items)) /\
         App "sense_synset_relations" d d'
           (map (srel_row "sense_synset_relations" SYNSET_QUERY d lexid)
              (filter (fun it : senserel => negb (to_sense sids it)) items)) /\
         only_changes ["sense_relations"; "sense_synset_relations"] d d'.
Proof. exact (@ins_insert_sense_relations). Qed.
Print Assumptions C01_ins_insert_sense_relations.

Theorem C01_ins_insert_syntactic_behaviours :
  forall (sbs : list synbhr) (lexid : Z) (m : lexidmap_t) (d d' : db),
         _insert_syntactic_behaviours sbs lexid m d = Ok d' ->
         App "syntactic_behaviours" d d' (map (sb_row lexid) sbs) /\
         App "syntactic_behaviour_senses" d d' (flat_map (sbs_rows d' lexid m) (framemap_of sbs)) /\
         only_changes ["syntactic_behaviours"; "syntactic_behaviour_senses"] d d'.
Proof. exact (@ins_insert_syntactic_behaviours). Qed.
Print Assumptions C01_ins_insert_syntactic_behaviours.

(* ---- nothing else changes: rows of other lexicons stay in place (C05), references stay valid *)
Theorem C01_add_keeps_rows :
  forall (d : db) (r : val) (nt : normtable) (d' : db) (t : string),
         add_lexical_resource d r nt = Ok d' ->
         t <> "lexicon_dependencies" ->
         exists news : list row,
           get_table d' t = (get_table d t ++ news)%list /\
           (forall r1 : row,
            In r1 news -> forall r0 : row, In r0 (get_table d t) -> rowid_of r0 < rowid_of r1).
Proof. exact (@add_keeps_rows). Qed.
Print Assumptions C01_add_keeps_rows.

Theorem C01_add_lexical_resource_fk_ok :
  forall (d : db) (r : val) (nt : normtable) (d' : db),
         fk_ok d = true -> add_lexical_resource d r nt = Ok d' -> fk_ok d' = true.
Proof. exact (@add_lexical_resource_fk_ok). Qed.
Print Assumptions C01_add_lexical_resource_fk_ok.

(* ---- non-vacuity: the new rows of a concrete lexicon added to a concrete database *)
Theorem C01_ex_content :
  match add_one_lexicon [] (ex_lexicon "ba" []) ex_db with
         | Ok d' =>
             new_rows "lexicons" ex_db d' =
             [[CInt 1; CText (k "ba"); CText (k "Label"); CText (k "en");
               CText (k "a@b.c"); CText (k "CC"); CText (k "1"); CNull; CNull; CNull; CNull;
               CInt 0]] /\
             new_rows "entries" ex_db d' = [[CInt 1; CText (k "e1"); CInt 1; CText (k "n"); CNull]] /\
             new_rows "forms" ex_db d' =
             [[CInt 1; CNull; CInt 1; CInt 1; CText (k "cat"); CNull; CNull; CInt 0]] /\
             new_rows "synsets" ex_db d' =
             [[CInt 1; CText (k "ss1"); CInt 1; CInt 1; CText (k "n"); CInt 1; CNull; CNull]] /\
             new_rows "senses" ex_db d' =
             [[CInt 1; CText (k "s1"); CInt 1; CInt 1; CInt 0; CInt 1; CInt 127; CInt 1; CNull]] /\
             new_rows "definitions" ex_db d' =
             [[CInt 1; CInt 1; CInt 1; CText (k "a cat"); CNull; CInt 1; CNull]]
         | _ => False
         end.
Proof. exact (@ex_content). Qed.
Print Assumptions C01_ex_content.

