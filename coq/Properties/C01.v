(* Properties/C01.v — the query API reports exactly the content of every added lexicon.
   Statements only.  (The add-model theorems are added as Model/Add.v grows; today: batching.) *)
From Coq Require Import ZArith List.
Import ListNotations.
Require Import WnV.Base.Sx WnV.Gen.Constants WnV.Proofs.Batch.
Local Open Scope Z_scope.

(* wn._add._batch with the BATCH_SIZE the source has now loses, duplicates and reorders nothing *)
Theorem C01_batches_concat : forall T (xs : list T),
    concat (batch (Z.to_nat BATCH_SIZE) xs) = xs.
Proof. exact batches_concat. Qed.
Print Assumptions C01_batches_concat.
