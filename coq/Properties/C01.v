(* Properties/C01.v — the query API reports exactly the content of every added lexicon.
   The property is the composition of two modelled layers, each tied to the code by its own correspondence:
   (1) document -> rows (Model/Add.v, theorems below: Proofs/AddContent.v): adding a resource appends, for every lexicon that is
       not skipped, exactly one row per declared element, in document order, with the document's values, and changes nothing else;
   (2) rows -> API (Model/Core.v; Properties C04/C09/C10/C11): the API lists exactly the rows of the selected lexicons.
   Vocabulary (Proofs/AddContent.v): [App t d d' vss] = table t of d' is table t of d followed by rows with consecutive fresh
   rowids carrying the cell lists vss, in that order; the *_row functions give the stored cells of a document element
   (coerced to the column types); lookups (ENTRY_QUERY, SYNSET_QUERY, ili_lookup ...) are evaluated in the final database d'.
   Batching: wn._add inserts in batches of BATCH_SIZE; every statement is about the concatenation of the batches.
   Statements only: every theorem is closed by `exact` of a lemma proved under Proofs/, followed by
   Print Assumptions.  (Statement texts were printed by Coq from the proved lemmas by harness/mkprops.py and are
   fixed from then on.) *)
From Coq Require Import String.
From Coq Require Import ZArith List Bool.
Import ListNotations.
Require Import WnV.Base.Sx WnV.Gen.Schema WnV.Gen.Constants WnV.Model.Spec WnV.Model.Val.
Require Import WnV.Model.Rel WnV.Model.Add WnV.Proofs.AddProofs.
Require Import WnV.Proofs.AddContent WnV.Proofs.Batch.
Local Open Scope Z_scope.
Local Open Scope string_scope.

(* ---- batching loses, duplicates and reorders nothing (for the BATCH_SIZE the source has now) *)
Theorem C01_batches_concat :
  forall (T : Type) (xs : list T), concat (batch (Z.to_nat BATCH_SIZE) xs) = xs.
Proof. exact (@batches_concat). Qed.
Print Assumptions C01_batches_concat.

(* ---- D1: one new lexicons row per lexicon that is not skipped, in document order, with id, label, language, email, license, version, url, citation, logo, metadata *)
Theorem C01_add_lexicons_rows :
  forall (d : db) (r : val) (nt : normtable) (d' : db) (lexs : list val),
         add_lexical_resource d r nt = Ok d' ->
         vreq r "lexicons" = Ok (VList lexs) ->
         exists skipmap : skipmap_t,
           (lexs = [] \/ _precheck lexs d = Ok skipmap) /\
           App "lexicons" d d' (map lexicon_row (filter (not_skipped skipmap) lexs)).
Proof. exact (@add_lexicons_rows). Qed.
Print Assumptions C01_add_lexicons_rows.

Theorem C01_add_resource_lexicon :
  forall (d : db) (r : val) (nt : normtable) (d' : db) (pre : list val)
           (L : val) (post : list val),
         add_lexical_resource d r nt = Ok d' ->
         vreq r "lexicons" = Ok (VList (pre ++ L :: post)) ->
         exists skipmap : skipmap_t,
           _precheck (pre ++ L :: post) d = Ok skipmap /\
           (not_skipped skipmap L = true ->
            exists d1 d2 : db,
              db_ext d d1 /\
              add_one_lexicon nt L d1 = Ok d2 /\
              db_ext d2 d' /\
              foldM (lex_step nt skipmap) pre d = Ok d1 /\
              foldM (lex_step nt skipmap) post d2 = Ok d').
Proof. exact (@add_resource_lexicon). Qed.
Print Assumptions C01_add_resource_lexicon.

Theorem C01_add_single_lexicon :
  forall (d : db) (r : val) (nt : normtable) (d' : db) (L : val),
         add_lexical_resource d r nt = Ok d' ->
         vreq r "lexicons" = Ok (VList [L]) ->
         exists skipmap : skipmap_t,
           _precheck [L] d = Ok skipmap /\
           (not_skipped skipmap L = true -> add_one_lexicon nt L d = Ok d').
Proof. exact (@add_single_lexicon). Qed.
Print Assumptions C01_add_single_lexicon.

Theorem C01_one_lexicon_lexicons :
  forall (nt : normtable) (L : val) (d d' : db),
         add_one_lexicon nt L d = Ok d' -> App "lexicons" d d' [lexicon_row L].
Proof. exact (@one_lexicon_lexicons). Qed.
Print Assumptions C01_one_lexicon_lexicons.

(* ---- D2: exactly the local (non-external) entries, in document order, with id, pos and metadata, owned by the new lexicon *)
Theorem C01_one_lexicon_entries :
  forall (nt : normtable) (L : val) (d d' : db),
         add_one_lexicon nt L d = Ok d' ->
         App "entries" d d'
           (map (entry_row (next_rowid (get_table d "lexicons"))) (_local_entries (_entries L))).
Proof. exact (@one_lexicon_entries). Qed.
Print Assumptions C01_one_lexicon_entries.

Theorem C01_add_single_lexicon_entries :
  forall (d : db) (r : val) (nt : normtable) (d' : db) (L : val) (skipmap : skipmap_t),
         add_lexical_resource d r nt = Ok d' ->
         vreq r "lexicons" = Ok (VList [L]) ->
         _precheck [L] d = Ok skipmap ->
         not_skipped skipmap L = true ->
         new_rows "lexicons" d d' = number_from (next_rowid (get_table d "lexicons")) [lexicon_row L] /\
         new_rows "entries" d d' =
         number_from (next_rowid (get_table d "entries"))
           (map (entry_row (next_rowid (get_table d "lexicons"))) (_local_entries (_entries L))).
Proof. exact (@add_single_lexicon_entries). Qed.
Print Assumptions C01_add_single_lexicon_entries.

(* ---- D3: forms: the lemma with rank 0 then the further forms in document order with ranks 1.., with written form, id, script and the normalized form (NULL when equal); an extension adds only its non-external forms to external entries *)
Theorem C01_one_lexicon_forms :
  forall (nt : normtable) (L : val) (d d' : db),
         add_one_lexicon nt L d = Ok d' ->
         exists (lexid extid : Z) (lexidmap : lexidmap_t),
           lexid = next_rowid (get_table d "lexicons") /\
           _build_lexid_map L lexid extid = Ok lexidmap /\
           App "forms" d d' (flat_map (entry_form_rows d' nt lexid lexidmap) (_entries L)).
Proof. exact (@one_lexicon_forms). Qed.
Print Assumptions C01_one_lexicon_forms.

(* ---- D4: exactly the local synsets in document order (ILI resolved through the ilis table, pos, lexicalized, lexfile, metadata); proposed_ilis rows exactly for ili="in" with the ILIDefinition *)
Theorem C01_one_lexicon_synsets :
  forall (nt : normtable) (L : val) (d d' : db),
         add_one_lexicon nt L d = Ok d' ->
         let lexid := next_rowid (get_table d "lexicons") in
         App "synsets" d d' (map (synset_row d' lexid) (_local_synsets (_synsets L))) /\
         App "proposed_ilis" d d' (flat_map (proposed_rows d' lexid) (_local_synsets (_synsets L))).
Proof. exact (@one_lexicon_synsets). Qed.
Print Assumptions C01_one_lexicon_synsets.

(* ---- D5: exactly the local senses in document order, linked to their (possibly base-lexicon) entry and synset, entry rank = position among the senses of the entry, synset rank from the declared members *)
Theorem C01_one_lexicon_senses :
  forall (nt : normtable) (L : val) (d d' : db),
         add_one_lexicon nt L d = Ok d' ->
         exists (lexid extid : Z) (lexidmap : lexidmap_t),
           lexid = next_rowid (get_table d "lexicons") /\
           _build_lexid_map L lexid extid = Ok lexidmap /\
           App "senses" d d'
             (flat_map (entry_sense_rows d' lexid lexidmap (ssrank_of (_synsets L))) (_entries L)).
Proof. exact (@one_lexicon_senses). Qed.
Print Assumptions C01_one_lexicon_senses.

(* ---- D6: children and relations: counts, adjpositions, examples, definitions, relations (sense-sense, sense-synset, synset-synset), syntactic behaviours and their sense links correspond one-to-one, in document order, to the declarations (including what an extension attaches to External elements) *)
Theorem C01_one_lexicon_children :
  forall (nt : normtable) (L : val) (d d' : db),
         add_one_lexicon nt L d = Ok d' ->
         exists (lexid extid : Z) (lexidmap : lexidmap_t) (synbhrs : list synbhr),
           lexid = next_rowid (get_table d "lexicons") /\
           _build_lexid_map L lexid extid = Ok lexidmap /\
           _collect_frames L = Ok synbhrs /\
           App "counts" d d' (flat_map (entry_count_rows d' lexid lexidmap) (_entries L)) /\
           App "adjpositions" d d' (flat_map (adjposition_rows d' lexid lexidmap) (_entries L)) /\
           App "sense_examples" d d'
             (flat_map (sense_example_rows d' lexid lexidmap) (flat_map _senses (_entries L))) /\
           App "synset_examples" d d' (flat_map (synset_example_rows d' lexid lexidmap) (_synsets L)) /\
           App "definitions" d d' (flat_map (definition_rows d' lexid lexidmap) (_synsets L)) /\
           App "synset_relations" d d'
             (flat_map (synset_relation_rows d' lexid lexidmap) (_synsets L)) /\
           App "sense_relations" d d'
             (map (srel_row "sense_relations" SENSE_QUERY d' lexid)
                (filter (to_sense (sense_ids_of L)) (sr_items L lexid lexidmap))) /\
           App "sense_synset_relations" d d'
             (map (srel_row "sense_synset_relations" SYNSET_QUERY d' lexid)
                (filter (fun it : senserel => negb (to_sense (sense_ids_of L) it))
                   (sr_items L lexid lexidmap))) /\
           App "syntactic_behaviours" d d' (map (sb_row lexid) synbhrs) /\
           App "syntactic_behaviour_senses" d d'
             (flat_map (sbs_rows d' lexid lexidmap) (framemap_of synbhrs)).
Proof. exact (@one_lexicon_children). Qed.
Print Assumptions C01_one_lexicon_children.

Theorem C01_ins_insert_sense_relations :
  forall (L : val) (lexid : Z) (m : lexidmap_t) (d d' : db),
         _insert_sense_relations L lexid m d = Ok d' ->
         let items := sr_items L lexid m in
         let sids := sense_ids_of L in
         App "sense_relations" d d'
           (map (srel_row "sense_relations" SENSE_QUERY d lexid) (filter (to_sense sids) items)) /\
         App "sense_synset_relations" d d'
           (map (srel_row "sense_synset_relations" SYNSET_QUERY d lexid)
              (filter (fun it : senserel => negb (to_sense sids it)) items)) /\
         only_changes ["sense_relations"; "sense_synset_relations"] d d'.
Proof. exact (@ins_insert_sense_relations). Qed.
Print Assumptions C01_ins_insert_sense_relations.

Theorem C01_ins_insert_syntactic_behaviours :
  forall (sbs : list synbhr) (lexid : Z) (m : lexidmap_t) (d d' : db),
         _insert_syntactic_behaviours sbs lexid m d = Ok d' ->
         App "syntactic_behaviours" d d' (map (sb_row lexid) sbs) /\
         App "syntactic_behaviour_senses" d d' (flat_map (sbs_rows d' lexid m) (framemap_of sbs)) /\
         only_changes ["syntactic_behaviours"; "syntactic_behaviour_senses"] d d'.
Proof. exact (@ins_insert_syntactic_behaviours). Qed.
Print Assumptions C01_ins_insert_syntactic_behaviours.

(* ---- nothing else changes: rows of other lexicons stay in place (C05), references stay valid *)
Theorem C01_add_keeps_rows :
  forall (d : db) (r : val) (nt : normtable) (d' : db) (t : string),
         add_lexical_resource d r nt = Ok d' ->
         t <> "lexicon_dependencies" ->
         exists news : list row,
           get_table d' t = (get_table d t ++ news)%list /\
           (forall r1 : row,
            In r1 news -> forall r0 : row, In r0 (get_table d t) -> rowid_of r0 < rowid_of r1).
Proof. exact (@add_keeps_rows). Qed.
Print Assumptions C01_add_keeps_rows.

Theorem C01_add_lexical_resource_fk_ok :
  forall (d : db) (r : val) (nt : normtable) (d' : db),
         fk_ok d = true -> add_lexical_resource d r nt = Ok d' -> fk_ok d' = true.
Proof. exact (@add_lexical_resource_fk_ok). Qed.
Print Assumptions C01_add_lexical_resource_fk_ok.

(* ---- non-vacuity: the new rows of a concrete lexicon added to a concrete database *)
Theorem C01_ex_content :
  match add_one_lexicon [] (ex_lexicon "ba" []) ex_db with
         | Ok d' =>
             new_rows "lexicons" ex_db d' =
             [[CInt 1; CText (k "ba"); CText (k "Label"); CText (k "en");
               CText (k "a@b.c"); CText (k "CC"); CText (k "1"); CNull; CNull; CNull; CNull;
               CInt 0]] /\
             new_rows "entries" ex_db d' = [[CInt 1; CText (k "e1"); CInt 1; CText (k "n"); CNull]] /\
             new_rows "forms" ex_db d' =
             [[CInt 1; CNull; CInt 1; CInt 1; CText (k "cat"); CNull; CNull; CInt 0]] /\
             new_rows "synsets" ex_db d' =
             [[CInt 1; CText (k "ss1"); CInt 1; CInt 1; CText (k "n"); CInt 1; CNull; CNull]] /\
             new_rows "senses" ex_db d' =
             [[CInt 1; CText (k "s1"); CInt 1; CInt 1; CInt 0; CInt 1; CInt 127; CInt 1; CNull]] /\
             new_rows "definitions" ex_db d' =
             [[CInt 1; CInt 1; CInt 1; CText (k "a cat"); CNull; CInt 1; CNull]]
         | _ => False
         end.
Proof. exact (@ex_content). Qed.
Print Assumptions C01_ex_content.

(* ------------------------------------------------------------------------------------------------------------------ *)
Require Import WnV.Model.Spec WnV.Model.Tables WnV.Model.Query WnV.Model.Core.
Require Import WnV.Proofs.Compose WnV.Proofs.ComposeSamples.
Local Open Scope Z_scope.
Local Open Scope string_scope.

(* ==== the composition, inside Coq: document -> rows -> API.  [conv d] reads a database of the add model as a database of the query model (through the common wire format).  For a resource with one new, non-extension lexicon L added to ANY database d (fk_ok d suffices: fk_ok_wf_db) and a Wordnet w restricted to the new lexicon: synsets(), words() and senses() list exactly the local Synset / LexicalEntry / Sense elements of L, in document order, with the document's ids, parts of speech and forms (lemma first, then the further forms in document order with id and script), and every sense navigates to the word and synset the document says *)
Theorem C01_K2_synsets :
  forall (d : Rel.db) (r : val) (nt : A.normtable) (d' : Rel.db) (L : val) (w : Wordnet),
         A.add_lexical_resource d r nt = R.Ok d' ->
         A.vreq r "lexicons" = R.Ok (VList [L]) ->
         new_lexicon d L = true ->
         wf_db d = true ->
         let lexid := R.next_rowid (R.get_table d "lexicons") in
         wn_lexicon_ids w = [lexid] ->
         Forall2
           (fun (y : Synset) (ss : val) =>
            ss_id y = doc_text (A.vgetk ss "id") /\
            ss_pos y = doc_otext (A.vgetk ss "partOfSpeech") /\
            ss_lexid y = lexid /\ ss_wordnet y = w) (Wordnet_synsets (conv d') w None None None)
           (A._local_synsets (A._synsets L)).
Proof. exact (@K2_synsets). Qed.
Print Assumptions C01_K2_synsets.

Theorem C01_K2_synset_ids :
  forall (d : Rel.db) (r : val) (nt : A.normtable) (d' : Rel.db) (L : val) (w : Wordnet),
         A.add_lexical_resource d r nt = R.Ok d' ->
         A.vreq r "lexicons" = R.Ok (VList [L]) ->
         new_lexicon d L = true ->
         wf_db d = true ->
         wn_lexicon_ids w = [R.next_rowid (R.get_table d "lexicons")] ->
         map ss_id (Wordnet_synsets (conv d') w None None None) =
         map (fun ss : val => doc_text (A.vgetk ss "id")) (A._local_synsets (A._synsets L)) /\
         map ss_pos (Wordnet_synsets (conv d') w None None None) =
         map (fun ss : val => doc_otext (A.vgetk ss "partOfSpeech"))
           (A._local_synsets (A._synsets L)).
Proof. exact (@K2_synset_ids). Qed.
Print Assumptions C01_K2_synset_ids.

Theorem C01_K3_words :
  forall (d : Rel.db) (r : val) (nt : A.normtable) (d' : Rel.db) (L : val) (w : Wordnet),
         A.add_lexical_resource d r nt = R.Ok d' ->
         A.vreq r "lexicons" = R.Ok (VList [L]) ->
         new_lexicon d L = true ->
         wf_db d = true ->
         wf_lex L = true ->
         let lexid := R.next_rowid (R.get_table d "lexicons") in
         wn_lexicon_ids w = [lexid] ->
         Forall2
           (fun (x : Word) (e : val) =>
            wd_id x = sid e /\
            wd_pos x = doc_pos e /\
            wd_lexid x = lexid /\
            wd_wordnet x = w /\
            map (fun q : q_form => (qf_form q, qf_id q, qf_script q)) (wd_forms x) = doc_forms e)
           (Wordnet_words (conv d') w None None) (A._local_entries (A._entries L)).
Proof. exact (@K3_words). Qed.
Print Assumptions C01_K3_words.

Theorem C01_K3_word_ids :
  forall (d : Rel.db) (r : val) (nt : A.normtable) (d' : Rel.db) (L : val) (w : Wordnet),
         A.add_lexical_resource d r nt = R.Ok d' ->
         A.vreq r "lexicons" = R.Ok (VList [L]) ->
         new_lexicon d L = true ->
         wf_db d = true ->
         wf_lex L = true ->
         wn_lexicon_ids w = [R.next_rowid (R.get_table d "lexicons")] ->
         map
           (fun x : Word =>
            (wd_id x, wd_pos x,
             map (fun q : q_form => (qf_form q, qf_id q, qf_script q)) (wd_forms x)))
           (Wordnet_words (conv d') w None None) =
         map (fun e : val => (sid e, doc_pos e, doc_forms e)) (A._local_entries (A._entries L)).
Proof. exact (@K3_word_ids). Qed.
Print Assumptions C01_K3_word_ids.

Theorem C01_K4_senses :
  forall (d : Rel.db) (r : val) (nt : A.normtable) (d' : Rel.db) (L : val) (w : Wordnet),
         A.add_lexical_resource d r nt = R.Ok d' ->
         A.vreq r "lexicons" = R.Ok (VList [L]) ->
         new_lexicon d L = true ->
         wf_db d = true ->
         wf_lex L = true ->
         let lexid := R.next_rowid (R.get_table d "lexicons") in
         let T := conv d' in
         wn_lexicon_ids w = [lexid] ->
         wn_default_mode w = false ->
         Forall2
           (fun (sn : Sense) (es : val * val) =>
            sn_id sn = doc_text (A.vgetk (snd es) "id") /\
            sn_entry_id sn = sid (fst es) /\
            sn_synset_id sn = doc_text (A.vgetk (snd es) "synset") /\
            sn_lexid sn = lexid /\
            sn_wordnet sn = w /\
            (exists x : Word,
               Sense_word T sn = Ok x /\
               wd_id x = sid (fst es) /\
               wd_pos x = doc_pos (fst es) /\
               wd_lexid x = lexid /\
               wd_wordnet x = w /\
               (exists x' : Word,
                  In x' (Wordnet_words T w None None) /\
                  wd__id x' = wd__id x /\ wd_id x' = sid (fst es))) /\
            (exists y : Synset,
               Sense_synset T sn = Ok y /\
               ss_id y = doc_text (A.vgetk (snd es) "synset") /\
               ss_lexid y = lexid /\ ss_wordnet y = w /\ In y (Wordnet_synsets T w None None None)))
           (Wordnet_senses T w None None) (doc_senses L).
Proof. exact (@K4_senses). Qed.
Print Assumptions C01_K4_senses.

Theorem C01_K4_sense_ids :
  forall (d : Rel.db) (r : val) (nt : A.normtable) (d' : Rel.db) (L : val) (w : Wordnet),
         A.add_lexical_resource d r nt = R.Ok d' ->
         A.vreq r "lexicons" = R.Ok (VList [L]) ->
         new_lexicon d L = true ->
         wf_db d = true ->
         wf_lex L = true ->
         wn_lexicon_ids w = [R.next_rowid (R.get_table d "lexicons")] ->
         wn_default_mode w = false ->
         map (fun sn : Sense => (sn_id sn, sn_entry_id sn, sn_synset_id sn))
           (Wordnet_senses (conv d') w None None) =
         map
           (fun es : val * val =>
            (doc_text (A.vgetk (snd es) "id"), sid (fst es), doc_text (A.vgetk (snd es) "synset")))
           (doc_senses L).
Proof. exact (@K4_sense_ids). Qed.
Print Assumptions C01_K4_sense_ids.

Theorem C01_single_new_lexicon :
  forall (d : Rel.db) (r : val) (nt : A.normtable) (d' : Rel.db) (L : val),
         A.add_lexical_resource d r nt = R.Ok d' ->
         A.vreq r "lexicons" = R.Ok (VList [L]) ->
         new_lexicon d L = true -> A.add_one_lexicon nt L d = R.Ok d'.
Proof. exact (@single_new_lexicon). Qed.
Print Assumptions C01_single_new_lexicon.

Theorem C01_fk_ok_wf_db :
  forall d : Rel.db, AP.fk_ok d = true -> wf_db d = true.
Proof. exact (@fk_ok_wf_db). Qed.
Print Assumptions C01_fk_ok_wf_db.

(* ---- the bridge: the typed tables of conv d' are those of conv d followed by the typed rows of the document elements *)
Theorem C01_K1_synsets :
  forall (nt : A.normtable) (L : val) (d d' : Rel.db),
         A.add_one_lexicon nt L d = R.Ok d' ->
         let lexid := R.next_rowid (R.get_table d "lexicons") in
         t_synsets (conv d') =
         (t_synsets (conv d) ++
          map (fun kx : Z * val => typed_synset (R.CInt (fst kx) :: AC.synset_row d' lexid (snd kx)))
            (A.enumerate_from (R.next_rowid (R.get_table d "synsets"))
               (A._local_synsets (A._synsets L))))%list.
Proof. exact (@K1_synsets). Qed.
Print Assumptions C01_K1_synsets.

Theorem C01_K1_entries :
  forall (nt : A.normtable) (L : val) (d d' : Rel.db),
         A.add_one_lexicon nt L d = R.Ok d' ->
         let lexid := R.next_rowid (R.get_table d "lexicons") in
         t_entries (conv d') =
         (t_entries (conv d) ++
          map (fun kx : Z * val => typed_entry (R.CInt (fst kx) :: AC.entry_row lexid (snd kx)))
            (A.enumerate_from (R.next_rowid (R.get_table d "entries"))
               (A._local_entries (A._entries L))))%list.
Proof. exact (@K1_entries). Qed.
Print Assumptions C01_K1_entries.

Theorem C01_K1_forms :
  forall (nt : A.normtable) (L : val) (d d' : Rel.db),
         A.add_one_lexicon nt L d = R.Ok d' ->
         vtruthy (A.vgetk L "extends") = false ->
         wf_lex L = true ->
         t_forms (conv d') =
         (t_forms (conv d) ++
          concat
            (map snd
               (mk_items nt d d' (R.next_rowid (R.get_table d "forms"))
                  (A.enumerate_from (R.next_rowid (R.get_table d "entries"))
                     (A._local_entries (A._entries L))))))%list.
Proof. exact (@K1_forms). Qed.
Print Assumptions C01_K1_forms.

Theorem C01_K1_senses :
  forall (nt : A.normtable) (L : val) (d d' : Rel.db),
         A.add_one_lexicon nt L d = R.Ok d' ->
         vtruthy (A.vgetk L "extends") = false ->
         wf_lex L = true ->
         t_senses (conv d') =
         (t_senses (conv d) ++
          map (mkS L d d')
            (A.enumerate_from (R.next_rowid (R.get_table d "senses"))
               (sense_items_from (R.next_rowid (R.get_table d "entries"))
                  (A._local_entries (A._entries L)))))%list.
Proof. exact (@K1_senses). Qed.
Print Assumptions C01_K1_senses.

Theorem C01_table_rows_conv :
  forall (t : string) (d : R.db),
         table_rows (S_ t) (sx_list (R.sx_of_db d)) = map conv_row (R.get_table d t).
Proof. exact (@table_rows_conv). Qed.
Print Assumptions C01_table_rows_conv.

(* ---- each hypothesis is needed (witnesses: a dangling row in d; an entry with the empty id; an external entry carrying a local form) *)
Theorem C01_wf_db_needed :
  let L0 := cx_lex [] [cx_synset "y"] in
         A.add_lexical_resource cx_d (AP.ex_resource [L0]) [] = R.Ok (cx_add cx_d L0) /\
         new_lexicon cx_d L0 = true /\
         wf_lex L0 = true /\
         wf_db cx_d = false /\
         map ss_id (Wordnet_synsets (conv (cx_add cx_d L0)) cx_w None None None) =
         [S_ "ghost"; S_ "y"].
Proof. exact (@wf_db_needed). Qed.
Print Assumptions C01_wf_db_needed.

Theorem C01_nonempty_ids_needed :
  let L0 :=
           cx_lex
             [cx_entry "a" "cat" [("senses", VList [cx_sense "s1" "y"])];
              cx_entry "" "dog" [("senses", VList [cx_sense "s2" "y"])]] [
             cx_synset "y"] in
         let T := conv (cx_add [] L0) in
         A.add_lexical_resource [] (AP.ex_resource [L0]) [] = R.Ok (cx_add [] L0) /\
         new_lexicon [] L0 = true /\
         wf_db [] = true /\
         wf_lex L0 = false /\
         map
           (fun sn : Sense =>
            (sn_id sn, sn_entry_id sn, RES (Sense_word T sn) (fun x : Word => sx_of_str (wd_id x))))
           (Wordnet_senses T cx_w None None) =
         [(S_ "s1", S_ "a", sx_of_str (S_ "a")); (S_ "s2", [], sx_of_str (S_ "a"))].
Proof. exact (@nonempty_ids_needed). Qed.
Print Assumptions C01_nonempty_ids_needed.

Theorem C01_inert_external_needed :
  let L0 :=
           cx_lex
             [cx_entry "a" "cat" [];
              AP.vd
                [("id", A.vs "a"); ("external", VBool true);
                 ("forms", VList [AP.vd [("writtenForm", A.vs "zzz")]])]] [] in
         A.add_lexical_resource [] (AP.ex_resource [L0]) [] = R.Ok (cx_add [] L0) /\
         new_lexicon [] L0 = true /\
         wf_db [] = true /\
         wf_lex L0 = false /\
         map (fun x : Word => (wd_id x, map qf_form (wd_forms x)))
           (Wordnet_words (conv (cx_add [] L0)) cx_w None None) = [(S_ "a", [S_ "cat"; S_ "zzz"])] /\
         map
           (fun e : val => map (fun t : str * option str * option str => fst (fst t)) (doc_forms e))
           (A._local_entries (A._entries L0)) = [[S_ "cat"]].
Proof. exact (@inert_external_needed). Qed.
Print Assumptions C01_inert_external_needed.

(* ---- non-vacuity on real data: on two run_add cases recorded from the implementation the model's add equals the implementation's tables, the hypotheses hold on the real input, and the conclusions hold on the implementation's own resulting database (by evaluation and through the theorems); conv agrees with the query model's own decoder on a recorded dump *)
Theorem C01_case_11_0_model_agrees :
  sx_agree_default (A.run_add add_case_11_0.input_0) add_case_11_0.expected_0 = true /\
         A.add_lexical_resource (case_db add_case_11_0.input_0) (case_resource add_case_11_0.input_0)
           (case_nt add_case_11_0.input_0) = R.Ok (case_db' add_case_11_0.expected_0).
Proof. exact (@case_11_0_model_agrees). Qed.
Print Assumptions C01_case_11_0_model_agrees.

Theorem C01_case_11_0_hypotheses :
  let inp := add_case_11_0.input_0 in
         A.vreq (case_resource inp) "lexicons" = R.Ok (VList [case_lexicon inp]) /\
         new_lexicon (case_db inp) (case_lexicon inp) = true /\
         wf_db (case_db inp) = true /\
         wf_lex (case_lexicon inp) = true /\ AP.fk_ok (case_db inp) = true.
Proof. exact (@case_11_0_hypotheses). Qed.
Print Assumptions C01_case_11_0_hypotheses.

Theorem C01_case_11_0_K_by_theorems :
  K_statement (conv (case_db' add_case_11_0.expected_0)) (case_w add_case_11_0.input_0)
           (case_lexicon add_case_11_0.input_0).
Proof. exact (@case_11_0_K_by_theorems). Qed.
Print Assumptions C01_case_11_0_K_by_theorems.

Theorem C01_case_12_10_model_agrees :
  sx_agree_default (A.run_add add_case_12_10.input_10) add_case_12_10.expected_10 = true /\
         A.add_lexical_resource (case_db add_case_12_10.input_10)
           (case_resource add_case_12_10.input_10) (case_nt add_case_12_10.input_10) =
         R.Ok (case_db' add_case_12_10.expected_10).
Proof. exact (@case_12_10_model_agrees). Qed.
Print Assumptions C01_case_12_10_model_agrees.

Theorem C01_case_12_10_hypotheses :
  let inp := add_case_12_10.input_10 in
         A.vreq (case_resource inp) "lexicons" = R.Ok (VList [case_lexicon inp]) /\
         new_lexicon (case_db inp) (case_lexicon inp) = true /\
         wf_db (case_db inp) = true /\
         wf_lex (case_lexicon inp) = true /\ AP.fk_ok (case_db inp) = true.
Proof. exact (@case_12_10_hypotheses). Qed.
Print Assumptions C01_case_12_10_hypotheses.

Theorem C01_case_12_10_K_by_theorems :
  K_statement (conv (case_db' add_case_12_10.expected_10)) (case_w add_case_12_10.input_10)
           (case_lexicon add_case_12_10.input_10).
Proof. exact (@case_12_10_K_by_theorems). Qed.
Print Assumptions C01_case_12_10_K_by_theorems.

Theorem C01_conv_on_core_case_1_3 :
  let x := sx_nth 0 core_case_1_3.input_3 in
         conv (R.db_of_sx x) = db_of_sx x /\
         (Datatypes.length (t_entries (conv (R.db_of_sx x))),
          Datatypes.length (t_synsets (conv (R.db_of_sx x))),
          Datatypes.length (t_senses (conv (R.db_of_sx x)))) = (8%nat, 9%nat, 12%nat) /\
         QueryFacts.db_ok (conv (R.db_of_sx x)) = true.
Proof. exact (@conv_on_core_case_1_3). Qed.
Print Assumptions C01_conv_on_core_case_1_3.

Require Import WnV.Proofs.Compose2.

(* ==== composition, second part: what each word, sense and synset carries.  Word.senses() = the senses of the entry in document order; Synset.senses() = the declared members order, then the undeclared ones in document order; per sense: examples, counts, adjposition, lexicalized flag and subcategorization frames (as a list, in frame-link order) equal the document; per synset: lexicalized, examples, first definition, ILI (real, or proposed with its ILIDefinition) and lexfile equal the document (ILI/lexfile: when the shared row exists) *)
Theorem C01_K5a_word_senses :
  forall (d : R.db) (r : val) (nt : A.normtable) (d' : R.db) (L : val) (w : Wordnet),
         A.add_lexical_resource d r nt = R.Ok d' ->
         A.vreq r "lexicons" = R.Ok (VList [L]) ->
         new_lexicon d L = true ->
         wf_db d = true ->
         wf_lex L = true ->
         wn_lexicon_ids w = [R.next_rowid (R.get_table d "lexicons")] ->
         wn_default_mode w = false ->
         Forall2
           (fun (x : Word) (e : val) =>
            map sn_id (Word_senses (conv d') x) =
            map (fun s : val => doc_text (A.vgetk s "id")) (A._local_senses (A._senses e)) /\
            (forall sn : Sense,
             In sn (Word_senses (conv d') x) -> In sn (Wordnet_senses (conv d') w None None)))
           (Wordnet_words (conv d') w None None) (A._local_entries (A._entries L)).
Proof. exact (@K5a_word_senses). Qed.
Print Assumptions C01_K5a_word_senses.

Theorem C01_K5a_synset_members :
  forall (d : R.db) (r : val) (nt : A.normtable) (d' : R.db) (L : val) (w : Wordnet),
         A.add_lexical_resource d r nt = R.Ok d' ->
         A.vreq r "lexicons" = R.Ok (VList [L]) ->
         new_lexicon d L = true ->
         wf_db d = true ->
         wf_lex L = true ->
         wn_lexicon_ids w = [R.next_rowid (R.get_table d "lexicons")] ->
         wn_default_mode w = false ->
         Forall2
           (fun (y : Synset) (ss : val) =>
            map (fun sn : Sense => (sn_entry_id sn, sn_id sn)) (Synset_senses (conv d') y) =
            map (fun es : val * val => (sid (fst es), doc_text (A.vgetk (snd es) "id")))
              (doc_members L ss) /\
            (forall sn : Sense,
             In sn (Synset_senses (conv d') y) -> In sn (Wordnet_senses (conv d') w None None)))
           (Wordnet_synsets (conv d') w None None None) (A._local_synsets (A._synsets L)).
Proof. exact (@K5a_synset_members). Qed.
Print Assumptions C01_K5a_synset_members.

Theorem C01_K5b_senses :
  forall (d : R.db) (r : val) (nt : A.normtable) (d' : R.db) (L : val) (w : Wordnet),
         A.add_lexical_resource d r nt = R.Ok d' ->
         A.vreq r "lexicons" = R.Ok (VList [L]) ->
         new_lexicon d L = true ->
         wf_db d = true ->
         wf_lex L = true ->
         wn_lexicon_ids w = [R.next_rowid (R.get_table d "lexicons")] ->
         wn_default_mode w = false ->
         wf_db5 d = true ->
         wf_lex5 L = true ->
         Forall2 (fun (sn : Sense) (es : val * val) => sense_report (conv d') L sn (snd es))
           (Wordnet_senses (conv d') w None None) (doc_senses L).
Proof. exact (@K5b_senses). Qed.
Print Assumptions C01_K5b_senses.

Theorem C01_K5c_synsets :
  forall (d : R.db) (r : val) (nt : A.normtable) (d' : R.db) (L : val) (w : Wordnet),
         A.add_lexical_resource d r nt = R.Ok d' ->
         A.vreq r "lexicons" = R.Ok (VList [L]) ->
         new_lexicon d L = true ->
         wf_db d = true ->
         wf_lex L = true ->
         wn_lexicon_ids w = [R.next_rowid (R.get_table d "lexicons")] ->
         wn_default_mode w = false ->
         wf_db5 d = true ->
         wf_lex5 L = true ->
         rowids_okb "ilis" d = true ->
         rowids_okb "lexfiles" d = true ->
         Forall2 (synset_report (conv d') d') (Wordnet_synsets (conv d') w None None None)
           (A._local_synsets (A._synsets L)).
Proof. exact (@K5c_synsets). Qed.
Print Assumptions C01_K5c_synsets.

Theorem C01_Sense_frames_new :
  forall (nt : A.normtable) (L : val) (d d' : R.db),
         A.add_one_lexicon nt L d = R.Ok d' ->
         vtruthy (A.vgetk L "extends") = false ->
         wf_db d = true ->
         wf_lex_facts L ->
         wf_db5_facts d ->
         wf_lex5_facts L ->
         forall w : Wordnet,
         wn_lexicon_ids w = [R.next_rowid (R.get_table d "lexicons")] ->
         wn_default_mode w = false ->
         forall synbhrs : list A.synbhr,
         A._collect_frames L = R.Ok synbhrs ->
         forall kx : Z * (Z * val * (Z * val)),
         In kx
           (A.enumerate_from (R.next_rowid (R.get_table d "senses"))
              (sense_items_from (R.next_rowid (R.get_table d "entries"))
                 (A._local_entries (A._entries L)))) ->
         Sense_frames (conv d') (mk_Sense w (qOf d kx)) = doc_frames synbhrs (snd (snd (snd kx))).
Proof. exact (@Sense_frames_new). Qed.
Print Assumptions C01_Sense_frames_new.

Theorem C01_Synset_ili_proposed :
  forall (nt : A.normtable) (L : val) (d d' : R.db),
         A.add_one_lexicon nt L d = R.Ok d' ->
         wf_db d = true ->
         wf_lex_facts L ->
         wf_db5_facts d ->
         forall (w : Wordnet) (ky : Z * val),
         In ky
           (A.enumerate_from (R.next_rowid (R.get_table d "synsets"))
              (A._local_synsets (A._synsets L))) ->
         rowids_ok "ilis" d ->
         A.is_in (A.vgetk (snd ky) "ili") = true ->
         ss_ili (doc_Synset (conv d') w d' (R.next_rowid (R.get_table d "lexicons")) ky) = None /\
         (exists i : ILI,
            Synset_ili (conv d')
              (doc_Synset (conv d') w d' (R.next_rowid (R.get_table d "lexicons")) ky) =
            Some i /\
            ili_id i = None /\
            ili_status i = s_proposed /\ ili_definition i = doc_ili_definition (snd ky)).
Proof. exact (@Synset_ili_proposed). Qed.
Print Assumptions C01_Synset_ili_proposed.

Theorem C01_fk_ok_wf_db5 :
  forall d : Rel.db, AP.fk_ok d = true -> wf_db5 d = true.
Proof. exact (@fk_ok_wf_db5). Qed.
Print Assumptions C01_fk_ok_wf_db5.

Theorem C01_add_one_lexicon_rowids_ok :
  forall (nt : A.normtable) (L : val) (d d' : Rel.db),
         A.add_one_lexicon nt L d = R.Ok d' ->
         (rowids_ok "ilis" d -> rowids_ok "ilis" d') /\
         (rowids_ok "lexfiles" d -> rowids_ok "lexfiles" d').
Proof. exact (@add_one_lexicon_rowids_ok). Qed.
Print Assumptions C01_add_one_lexicon_rowids_ok.

(* ---- one step beyond a single lexicon: an EXTENSION adding a new sense to an entry of its installed base: the base word lists the new sense (linked to the base entry and synset, ranked by its position in the extension entry); the order among base and extension senses is by rank then rowid, NOT base-first (witness) — the property fixes the order within each lexicon only (interpretation point) *)
Theorem C01_K6_new_sense :
  forall (nt : A.normtable) (L : val) (d d' : Rel.db) (bid bver : str)
           (bx : Z) (e : val) (eid : str) (ke i : Z) (s : val) (yid : str)
           (ss : val) (ky : Z) (E : entry_row) (Yr : synset_row) (w : Wordnet)
           (x : Word),
         A.add_one_lexicon nt L d = R.Ok d' ->
         vtruthy (A.vgetk L "extends") = true ->
         A.vgetk (A.vgetk L "extends") "id" = VStr bid ->
         A.vgetk (A.vgetk L "extends") "version" = VStr bver ->
         A.LEXICON_QUERY d (R.CText bid) (R.CText bver) = R.CInt bx ->
         In e (A._entries L) ->
         A._is_external e = true ->
         A.vgetk e "id" = VStr eid ->
         A.ENTRY_QUERY d (R.CText eid) (R.CInt bx) = R.CInt ke ->
         find_by en_rowid ke (t_entries (conv d)) = Some E ->
         In (i, s) (A.enumerate_from 0 (A._local_senses (A._senses e))) ->
         A.vgetk s "synset" = VStr yid ->
         In ss (A._synsets L) ->
         A._is_external ss = true ->
         A.vgetk ss "id" = VStr yid ->
         A.SYNSET_QUERY d (R.CText yid) (R.CInt bx) = R.CInt ky ->
         find_by sy_rowid ky (t_synsets (conv d)) = Some Yr ->
         wn_default_mode w = false ->
         In (R.next_rowid (R.get_table d "lexicons")) (wn_lexicon_ids w) ->
         wd__id x = ke ->
         wd_wordnet x = w ->
         exists (sn : Sense) (sr : sense_row),
           In sn (Word_senses (conv d') x) /\
           In sr (t_senses (conv d')) /\
           sn_id sn = doc_text (A.vgetk s "id") /\
           sn__id sn = se_rowid sr /\
           sn_lexid sn = R.next_rowid (R.get_table d "lexicons") /\
           sn_entry_id sn = en_id E /\
           sn_synset_id sn = sy_id Yr /\
           se_entry_rowid sr = ke /\ se_synset_rowid sr = ky /\ se_entry_rank sr = Some i.
Proof. exact (@K6_new_sense). Qed.
Print Assumptions C01_K6_new_sense.

Theorem C01_ex6_new_sense_not_last :
  let T := conv ex6_d' in
         map (fun x : Word => map sn_id (Word_senses T x)) (Wordnet_words T ex6_w None None) =
         [[S_ "e1-s1"; S_ "e1-s9"; S_ "e1-s2"]] /\
         map
           (fun sr : sense_row =>
            (se_id sr, se_lexicon_rowid sr, se_entry_rowid sr, se_entry_rank sr))
           (t_senses T) =
         [(S_ "e1-s1", 1, 1, Some 0); (S_ "e1-s2", 1, 1, Some 1); (S_ "e1-s9", 2, 1, Some 0)].
Proof. exact (@ex6_new_sense_not_last). Qed.
Print Assumptions C01_ex6_new_sense_not_last.

Theorem C01_ex6_extension :
  let T := conv ex6_d' in
         map
           (fun x : Word =>
            (wd_id x, wd_lexid x,
             map (fun s : Sense => (sn_id s, sn_lexid s, Sense_examples T s)) (Word_senses T x)))
           (Wordnet_words T ex6_w None None) =
         [(S_ "e1", 1,
           [(S_ "e1-s1", 1, Ok [Some (S_ "base example"); Some (S_ "extension example")]);
            (S_ "e1-s9", 2, Ok []); (S_ "e1-s2", 1, Ok [])])] /\
         map
           (fun y : Synset =>
            (ss_id y, ss_lexid y, Synset_examples T y, map sn_id (Synset_senses T y)))
           (Wordnet_synsets T ex6_w None None None) =
         [(S_ "y1", 1, Ok [Some (S_ "base synset example"); Some (S_ "extension synset example")],
           [S_ "e1-s1"]); (S_ "y2", 1, Ok [], [S_ "e1-s2"; S_ "e1-s9"])].
Proof. exact (@ex6_extension). Qed.
Print Assumptions C01_ex6_extension.

(* ---- non-vacuity: hypotheses and conclusions on a worked example (frames of both kinds, members out of document order, lexfile, two definitions, an existing and a proposed ILI), by evaluation and through the theorems *)
Theorem C01_ex5_hypotheses :
  A.add_lexical_resource ex_d ex5_r [] = R.Ok ex5_d' /\
         A.vreq ex5_r "lexicons" = R.Ok (VList [ex5_L]) /\
         new_lexicon ex_d ex5_L = true /\
         wf_db ex_d = true /\
         wf_lex ex5_L = true /\
         wf_db5 ex_d = true /\
         wf_lex5 ex5_L = true /\
         rowids_okb "ilis" ex_d = true /\
         rowids_okb "lexfiles" ex_d = true /\
         Wordnet_init (conv ex5_d') (Some (S_ "zz:2")) None None false [] None true = Ok ex5_w /\
         wn_lexicon_ids ex5_w = [R.next_rowid (R.get_table ex_d "lexicons")] /\
         wn_default_mode ex5_w = false /\ AP.fk_ok ex_d = true.
Proof. exact (@ex5_hypotheses). Qed.
Print Assumptions C01_ex5_hypotheses.

Theorem C01_ex5_by_theorems :
  let T := conv ex5_d' in
         Forall2
           (fun (x : Word) (e : val) =>
            map sn_id (Word_senses T x) =
            map (fun s : val => doc_text (A.vgetk s "id")) (A._local_senses (A._senses e)))
           (Wordnet_words T ex5_w None None) (A._local_entries (A._entries ex5_L)) /\
         Forall2
           (fun (y : Synset) (ss : val) =>
            map (fun sn : Sense => (sn_entry_id sn, sn_id sn)) (Synset_senses T y) =
            map (fun es : val * val => (sid (fst es), doc_text (A.vgetk (snd es) "id")))
              (doc_members ex5_L ss)) (Wordnet_synsets T ex5_w None None None)
           (A._local_synsets (A._synsets ex5_L)) /\
         Forall2 (fun (sn : Sense) (es : val * val) => sense_report T ex5_L sn (snd es))
           (Wordnet_senses T ex5_w None None) (doc_senses ex5_L) /\
         Forall2 (synset_report T ex5_d') (Wordnet_synsets T ex5_w None None None)
           (A._local_synsets (A._synsets ex5_L)).
Proof. exact (@ex5_by_theorems). Qed.
Print Assumptions C01_ex5_by_theorems.

Theorem C01_ex6_by_theorem :
  exists (sn : Sense) (sr : sense_row),
           In sn (Word_senses (conv ex6_d') ex6_x) /\
           In sr (t_senses (conv ex6_d')) /\
           sn_id sn = S_ "e1-s9" /\
           sn__id sn = se_rowid sr /\
           sn_lexid sn = 2 /\
           sn_entry_id sn = S_ "e1" /\
           sn_synset_id sn = S_ "y2" /\
           se_entry_rowid sr = 1 /\ se_synset_rowid sr = 2 /\ se_entry_rank sr = Some 0.
Proof. exact (@ex6_by_theorem). Qed.
Print Assumptions C01_ex6_by_theorem.

Require Import WnV.Proofs.Compose3.

(* ==== composition, third part.  ILI and lexfile unconditionally (given the "presupposed" status row every initialised database has: needed, witness); Synset.words()/lemmas() in member order; relations through the API, one type at a time: get_related lists the targets of the document's relations of that type in document order, each once (exactly the document's list when it repeats no (type, target) pair); examples an extension attaches to a base sense/synset follow the base's own *)
Theorem C01_ili_present :
  forall (nt : A.normtable) (L : val) (d d' : Rel.db) (ss : val),
         A.add_one_lexicon nt L d = R.Ok d' ->
         has_presupposed d = true ->
         In ss (A._local_synsets (A._synsets L)) ->
         textual (AC.ilic_of ss) = true -> found (AC.ili_pred (AC.ilic_of ss)) d' "ilis".
Proof. exact (@ili_present). Qed.
Print Assumptions C01_ili_present.

Theorem C01_lexfile_present :
  forall (nt : A.normtable) (L : val) (d d' : Rel.db) (ss : val) (t : str),
         A.add_one_lexicon nt L d = R.Ok d' ->
         lexfiles_strings L = true ->
         In ss (A._local_synsets (A._synsets L)) ->
         A.vgetk ss "lexfile" = VStr t -> t <> [] -> found (name_pred t) d' "lexfiles".
Proof. exact (@lexfile_present). Qed.
Print Assumptions C01_lexfile_present.

Theorem C01_K5c_synsets_exact :
  forall (d : Rel.db) (r : val) (nt : A.normtable) (d' : Rel.db) (L : val) (w : Wordnet),
         A.add_lexical_resource d r nt = R.Ok d' ->
         A.vreq r "lexicons" = R.Ok (VList [L]) ->
         new_lexicon d L = true ->
         wf_db d = true ->
         wf_lex L = true ->
         wn_lexicon_ids w = [R.next_rowid (R.get_table d "lexicons")] ->
         wn_default_mode w = false ->
         wf_db5 d = true ->
         wf_lex5 L = true ->
         rowids_okb "ilis" d = true ->
         rowids_okb "lexfiles" d = true ->
         has_presupposed d = true ->
         lexfiles_strings L = true ->
         Forall2 (synset_report_exact (conv d')) (Wordnet_synsets (conv d') w None None None)
           (A._local_synsets (A._synsets L)).
Proof. exact (@K5c_synsets_exact). Qed.
Print Assumptions C01_K5c_synsets_exact.

Theorem C01_presupposed_status_needed :
  let d1 :=
           match A.add_lexical_resource AP.ex_db ex7_r [] with
           | Rel.Ok d0 => d0
           | _ => []
           end in
         A.add_lexical_resource AP.ex_db ex7_r [] = R.Ok d1 /\
         has_presupposed AP.ex_db = false /\
         map (fun y : Synset => (ss_id y, ss_ili y)) (Wordnet_synsets (conv d1) ex7_w None None None) =
         [(S_ "y1", None); (S_ "y2", Some (S_ "i1")); (S_ "y3", None)].
Proof. exact (@presupposed_status_needed). Qed.
Print Assumptions C01_presupposed_status_needed.

Theorem C01_Sense_word_exact :
  forall (nt : A.normtable) (L : val) (d d' : R.db),
         A.add_one_lexicon nt L d = R.Ok d' ->
         vtruthy (A.vgetk L "extends") = false ->
         wf_db d = true ->
         wf_lex_facts L ->
         forall w : Wordnet,
         wn_lexicon_ids w = [R.next_rowid (R.get_table d "lexicons")] ->
         wn_default_mode w = false ->
         forall (kx : Z * (Z * val * (Z * val))) (it : item),
         In kx
           (A.enumerate_from (R.next_rowid (R.get_table d "senses"))
              (sense_items_from (R.next_rowid (R.get_table d "entries"))
                 (A._local_entries (A._entries L)))) ->
         In it
           (mk_items nt d d' (R.next_rowid (R.get_table d "forms"))
              (A.enumerate_from (R.next_rowid (R.get_table d "entries"))
                 (A._local_entries (A._entries L)))) ->
         fst it = mkE d (fst (snd kx)) ->
         Sense_word (conv d') (mk_Sense w (qOf d kx)) = Ok (mk_Word w (word_of_item it)).
Proof. exact (@Sense_word_exact). Qed.
Print Assumptions C01_Sense_word_exact.

Theorem C01_P2_synset_words_lemmas :
  forall (d : Rel.db) (r : val) (nt : A.normtable) (d' : Rel.db) (L : val) (w : Wordnet),
         A.add_lexical_resource d r nt = R.Ok d' ->
         A.vreq r "lexicons" = R.Ok (VList [L]) ->
         new_lexicon d L = true ->
         wf_db d = true ->
         wf_lex L = true ->
         wn_lexicon_ids w = [R.next_rowid (R.get_table d "lexicons")] ->
         wn_default_mode w = false ->
         Forall2
           (fun (y : Synset) (ss : val) =>
            exists (ws : list Word) (fs : list Form),
              Synset_words (conv d') y = Ok ws /\
              Synset_lemmas (conv d') y = Ok fs /\
              Forall2
                (fun (x : Word) (es : val * val) =>
                 wd_id x = sid (fst es) /\ In x (Wordnet_words (conv d') w None None)) ws
                (doc_members L ss) /\
              map fo_form fs =
              map (fun es : val * val => written (A.vgetk (fst es) "lemma")) (doc_members L ss))
           (Wordnet_synsets (conv d') w None None None) (A._local_synsets (A._synsets L)).
Proof. exact (@P2_synset_words_lemmas). Qed.
Print Assumptions C01_P2_synset_words_lemmas.

Theorem C01_P3_synset_relations :
  forall (d : Rel.db) (r : val) (nt : A.normtable) (d' : Rel.db) (L : val)
           (w : Wordnet) (rel : str),
         A.add_lexical_resource d r nt = R.Ok d' ->
         A.vreq r "lexicons" = R.Ok (VList [L]) ->
         new_lexicon d L = true ->
         wf_db d = true ->
         wf_lex L = true ->
         wn_lexicon_ids w = [R.next_rowid (R.get_table d "lexicons")] ->
         wn_default_mode w = false ->
         wn_expanded_ids w = [] ->
         wf_db6 d = true ->
         wf_rel L = true ->
         reltypes_strings L = true ->
         rowids_okb "relation_types" d = true ->
         rel <> c_star_s ->
         Forall2
           (fun (y : Synset) (ss : val) =>
            exists ts : list Synset,
              Synset_get_related (conv d') y [rel] = Ok ts /\
              map ss_id ts = dedup str_eqb (doc_targets ss rel) /\
              (NoDup (doc_targets ss rel) -> map ss_id ts = doc_targets ss rel) /\
              (forall t : Synset, In t ts -> In t (Wordnet_synsets (conv d') w None None None)))
           (Wordnet_synsets (conv d') w None None None) (A._local_synsets (A._synsets L)).
Proof. exact (@P3_synset_relations). Qed.
Print Assumptions C01_P3_synset_relations.

Theorem C01_P3_sense_relations :
  forall (d : Rel.db) (r : val) (nt : A.normtable) (d' : Rel.db) (L : val)
           (w : Wordnet) (rel : str),
         A.add_lexical_resource d r nt = R.Ok d' ->
         A.vreq r "lexicons" = R.Ok (VList [L]) ->
         new_lexicon d L = true ->
         wf_db d = true ->
         wf_lex L = true ->
         wf_lex5 L = true ->
         wn_lexicon_ids w = [R.next_rowid (R.get_table d "lexicons")] ->
         wn_default_mode w = false ->
         wf_db7 d = true ->
         wf_srel L = true ->
         reltypes_strings L = true ->
         rowids_okb "relation_types" d = true ->
         rel <> c_star_s ->
         Forall2
           (fun (sn : Sense) (es : val * val) =>
            exists ts : list Sense,
              Sense_get_related (conv d') sn [rel] = Ok ts /\
              map sn_id ts = dedup str_eqb (doc_sense_targets L (snd es) rel) /\
              (NoDup (doc_sense_targets L (snd es) rel) ->
               map sn_id ts = doc_sense_targets L (snd es) rel) /\
              (forall t : Sense, In t ts -> In t (Wordnet_senses (conv d') w None None)))
           (Wordnet_senses (conv d') w None None) (doc_senses L).
Proof. exact (@P3_sense_relations). Qed.
Print Assumptions C01_P3_sense_relations.

Theorem C01_P3_sense_synset_relations :
  forall (d : Rel.db) (r : val) (nt : A.normtable) (d' : Rel.db) (L : val)
           (w : Wordnet) (rel : str),
         A.add_lexical_resource d r nt = R.Ok d' ->
         A.vreq r "lexicons" = R.Ok (VList [L]) ->
         new_lexicon d L = true ->
         wf_db d = true ->
         wf_lex L = true ->
         wf_lex5 L = true ->
         wn_lexicon_ids w = [R.next_rowid (R.get_table d "lexicons")] ->
         wn_default_mode w = false ->
         wf_db8 d = true ->
         wf_srel L = true ->
         wf_ssrel L = true ->
         reltypes_strings L = true ->
         rowids_okb "relation_types" d = true ->
         rel <> c_star_s ->
         Forall2
           (fun (sn : Sense) (es : val * val) =>
            exists ts : list Synset,
              Sense_get_related_synsets (conv d') sn [rel] = Ok ts /\
              map ss_id ts = dedup str_eqb (doc_synset_targets L (snd es) rel) /\
              (NoDup (doc_synset_targets L (snd es) rel) ->
               map ss_id ts = doc_synset_targets L (snd es) rel) /\
              (forall t : Synset, In t ts -> In t (Wordnet_synsets (conv d') w None None None)))
           (Wordnet_senses (conv d') w None None) (doc_senses L).
Proof. exact (@P3_sense_synset_relations). Qed.
Print Assumptions C01_P3_sense_synset_relations.

Theorem C01_P4_sense_examples :
  forall (nt : A.normtable) (L : val) (d d' : Rel.db) (bid bver : str)
           (bx : Z) (e s_ext : val) (sid0 : str) (k0 : Z) (w : Wordnet) (sn0 : Sense),
         A.add_one_lexicon nt L d = R.Ok d' ->
         vtruthy (A.vgetk L "extends") = true ->
         A.vgetk (A.vgetk L "extends") "id" = VStr bid ->
         A.vgetk (A.vgetk L "extends") "version" = VStr bver ->
         A.LEXICON_QUERY d (R.CText bid) (R.CText bver) = R.CInt bx ->
         rowids_ok "senses" d ->
         wf_all_senses L = true ->
         In e (A._entries L) ->
         In s_ext (A._senses e) ->
         A._is_external s_ext = true ->
         A.vgetk s_ext "id" = VStr sid0 ->
         A.SENSE_QUERY d (R.CText sid0) (R.CInt bx) = R.CInt k0 ->
         1 <= k0 ->
         wn_default_mode w = false ->
         In (R.next_rowid (R.get_table d "lexicons")) (wn_lexicon_ids w) ->
         sn__id sn0 = k0 ->
         sn_wordnet sn0 = w ->
         Sense_examples (conv d') sn0 =
         Ok
           (map ex_example
              (filter
                 (fun r : example_row =>
                  (ex_owner_rowid r =? k0)%Z && z_in (ex_lexicon_rowid r) (wn_lexicon_ids w))
                 (t_sense_examples (conv d))) ++
            map (fun ex : val => doc_otext (A.vgetk ex "text")) (A.vlistk s_ext "examples"))%list.
Proof. exact (@P4_sense_examples). Qed.
Print Assumptions C01_P4_sense_examples.

Theorem C01_P4_synset_examples :
  forall (nt : A.normtable) (L : val) (d d' : Rel.db) (bid bver : str)
           (bx : Z) (s_ext : val) (sid0 : str) (k0 : Z) (w : Wordnet) (y0 : Synset),
         A.add_one_lexicon nt L d = R.Ok d' ->
         vtruthy (A.vgetk L "extends") = true ->
         A.vgetk (A.vgetk L "extends") "id" = VStr bid ->
         A.vgetk (A.vgetk L "extends") "version" = VStr bver ->
         A.LEXICON_QUERY d (R.CText bid) (R.CText bver) = R.CInt bx ->
         rowids_ok "synsets" d ->
         wf_all_synsets L = true ->
         In s_ext (A._synsets L) ->
         A._is_external s_ext = true ->
         A.vgetk s_ext "id" = VStr sid0 ->
         A.SYNSET_QUERY d (R.CText sid0) (R.CInt bx) = R.CInt k0 ->
         1 <= k0 ->
         wn_default_mode w = false ->
         In (R.next_rowid (R.get_table d "lexicons")) (wn_lexicon_ids w) ->
         ss__id y0 = k0 ->
         ss_wordnet y0 = w ->
         Synset_examples (conv d') y0 =
         Ok
           (map ex_example
              (filter
                 (fun r : example_row =>
                  (ex_owner_rowid r =? k0)%Z && z_in (ex_lexicon_rowid r) (wn_lexicon_ids w))
                 (t_synset_examples (conv d))) ++
            map (fun ex : val => doc_otext (A.vgetk ex "text")) (A.vlistk s_ext "examples"))%list.
Proof. exact (@P4_synset_examples). Qed.
Print Assumptions C01_P4_synset_examples.

Theorem C01_ex7_hypotheses :
  A.add_lexical_resource ex7_db ex7_r [] = R.Ok ex7_d' /\
         A.vreq ex7_r "lexicons" = R.Ok (VList [ex7_L]) /\
         new_lexicon ex7_db ex7_L = true /\
         wf_db ex7_db = true /\
         wf_lex ex7_L = true /\
         wf_db5 ex7_db = true /\
         wf_lex5 ex7_L = true /\
         rowids_okb "ilis" ex7_db = true /\
         rowids_okb "lexfiles" ex7_db = true /\
         has_presupposed ex7_db = true /\
         lexfiles_strings ex7_L = true /\
         wf_db6 ex7_db = true /\
         wf_rel ex7_L = true /\
         reltypes_strings ex7_L = true /\
         rowids_okb "relation_types" ex7_db = true /\
         wn_lexicon_ids ex7_w = [R.next_rowid (R.get_table ex7_db "lexicons")] /\
         wn_default_mode ex7_w = false /\ wn_expanded_ids ex7_w = [].
Proof. exact (@ex7_hypotheses). Qed.
Print Assumptions C01_ex7_hypotheses.

Theorem C01_ex7_by_theorems :
  let T := conv ex7_d' in
         Forall2 (synset_report_exact T) (Wordnet_synsets T ex7_w None None None)
           (A._local_synsets (A._synsets ex7_L)) /\
         Forall2
           (fun (y : Synset) (ss : val) =>
            exists ts : list Synset,
              Synset_get_related T y [S_ "hypernym"] = Ok ts /\
              map ss_id ts = dedup str_eqb (doc_targets ss (S_ "hypernym")))
           (Wordnet_synsets T ex7_w None None None) (A._local_synsets (A._synsets ex7_L)) /\
         map
           (fun ss : val =>
            (doc_targets ss (S_ "hypernym"), dedup str_eqb (doc_targets ss (S_ "hypernym"))))
           (A._local_synsets (A._synsets ex7_L)) =
         [([S_ "y2"; S_ "y3"; S_ "y2"], [S_ "y2"; S_ "y3"]); ([], []); ([], [])].
Proof. exact (@ex7_by_theorems). Qed.
Print Assumptions C01_ex7_by_theorems.

Theorem C01_ex8_hypotheses :
  A.add_lexical_resource ex_d ex8_r [] = R.Ok ex8_d' /\
         A.vreq ex8_r "lexicons" = R.Ok (VList [ex8_L]) /\
         new_lexicon ex_d ex8_L = true /\
         wf_db ex_d = true /\
         wf_lex ex8_L = true /\
         wf_lex5 ex8_L = true /\
         wf_db7 ex_d = true /\
         wf_db8 ex_d = true /\
         wf_srel ex8_L = true /\
         wf_ssrel ex8_L = true /\
         reltypes_strings ex8_L = true /\
         rowids_okb "relation_types" ex_d = true /\
         wn_lexicon_ids ex8_w = [R.next_rowid (R.get_table ex_d "lexicons")] /\
         wn_default_mode ex8_w = false.
Proof. exact (@ex8_hypotheses). Qed.
Print Assumptions C01_ex8_hypotheses.

Theorem C01_ex8_by_theorems :
  let T := conv ex8_d' in
         Forall2
           (fun (sn : Sense) (es : val * val) =>
            exists ts : list Sense,
              Sense_get_related T sn [S_ "antonym"] = Ok ts /\
              map sn_id ts = dedup str_eqb (doc_sense_targets ex8_L (snd es) (S_ "antonym")))
           (Wordnet_senses T ex8_w None None) (doc_senses ex8_L) /\
         Forall2
           (fun (sn : Sense) (es : val * val) =>
            exists ts : list Synset,
              Sense_get_related_synsets T sn [S_ "domain_topic"] = Ok ts /\
              map ss_id ts = dedup str_eqb (doc_synset_targets ex8_L (snd es) (S_ "domain_topic")))
           (Wordnet_senses T ex8_w None None) (doc_senses ex8_L) /\
         map
           (fun es : val * val =>
            (doc_sense_targets ex8_L (snd es) (S_ "antonym"),
             doc_synset_targets ex8_L (snd es) (S_ "domain_topic"))) (doc_senses ex8_L) =
         [([S_ "w2-s1"; S_ "w1-s2"; S_ "w2-s1"], [S_ "y2"]); ([], []); ([S_ "w1-s1"], [])].
Proof. exact (@ex8_by_theorems). Qed.
Print Assumptions C01_ex8_by_theorems.

Theorem C01_ex6_examples_by_theorem :
  Sense_examples (conv ex6_d') ex6_sn0 =
         Ok [Some (S_ "base example"); Some (S_ "extension example")] /\
         Synset_examples (conv ex6_d') ex6_y0 =
         Ok [Some (S_ "base synset example"); Some (S_ "extension synset example")] /\
         sn_id ex6_sn0 = S_ "e1-s1" /\ ss_id ex6_y0 = S_ "y1".
Proof. exact (@ex6_examples_by_theorem). Qed.
Print Assumptions C01_ex6_examples_by_theorem.

