(* Properties/C05.v — database content depends only on which lexicons are installed (model: Add.add_lexical_resource / Add.remove over the
   relational layer Model/Rel.v; the schema, with every foreign key and its ON DELETE action, is regenerated from
   wn/schema.sql into Gen/Schema.v on every run).
   [fk_ok d]: every foreign-key cell of every table is NULL or the rowid of a row of the parent table (generic over the schema).
   [db_rowids_ok d]: rowids are unique per table.  [doomed d roots]: the ON DELETE CASCADE closure of the root rows.
   [row_le t r' r]: same row up to ON DELETE SET NULL columns.  [db_ext d d']: every table of d' is the rows of d, in place,
   followed by new rows with larger rowids (only lexicon_dependencies.provider_rowid may change in place).
   Statements only: every theorem is closed by `exact` of a lemma proved under Proofs/, followed by
   Print Assumptions.  (Statement texts were printed by Coq from the proved lemmas by harness/mkprops.py and are
   fixed from then on.) *)
From Coq Require Import String.
From Coq Require Import ZArith List Bool.
Import ListNotations.
Require Import WnV.Base.Sx WnV.Gen.Schema WnV.Gen.Constants WnV.Model.Spec WnV.Model.Val.
Require Import WnV.Model.Rel WnV.Model.Add WnV.Proofs.AddProofs.
Local Open Scope Z_scope.
Local Open Scope string_scope.

(* ---- removal: no dangling reference is ever left behind (any table, any schema-driven cascade) *)
Theorem C05_delete_row_fk_ok :
  forall (fuel : nat) (d : db) (t : string) (rid : Z) (d' : db),
         fk_ok d = true -> delete_row fuel d t rid = Ok d' -> fk_ok d' = true.
Proof. exact (@delete_row_fk_ok). Qed.
Print Assumptions C05_delete_row_fk_ok.

Theorem C05_delete_seq_fk_ok :
  forall (rids : list Z) (d d' : db),
         fk_ok d = true -> delete_seq d rids = Ok d' -> fk_ok d' = true.
Proof. exact (@delete_seq_fk_ok). Qed.
Print Assumptions C05_delete_seq_fk_ok.

(* ---- wn.remove: the selected lexicons and, for each, exactly its transitive extensions are removed; no row of any table still refers to a removed lexicon *)
Theorem C05_remove_one_spec :
  forall (d : db) (rowid : Z) (d' : db),
         remove_one d rowid = Ok d' ->
         exists exts : list Z,
           get_lexicon_extensions d rowid = Ok exts /\
           (forall x : Z, In x exts <-> ext_reach d rowid x) /\
           delete_seq d (rev exts ++ [rowid]) = Ok d' /\
           get_table d' "lexicons" =
           filter (fun r : row => negb (zmem_z (rowid_of r) (rowid :: exts)))
             (get_table d "lexicons").
Proof. exact (@remove_one_spec). Qed.
Print Assumptions C05_remove_one_spec.

Theorem C05_get_lexicon_extensions_spec :
  forall (d : db) (rowid : Z) (exts : list Z),
         get_lexicon_extensions d rowid = Ok exts -> forall x : Z, In x exts <-> ext_reach d rowid x.
Proof. exact (@get_lexicon_extensions_spec). Qed.
Print Assumptions C05_get_lexicon_extensions_spec.

Theorem C05_remove_owned_rows_gone :
  forall (d : db) (spec : str) (d' : db),
         fk_ok d = true ->
         remove d spec = Ok d' ->
         exists R : list Z,
           delete_seq d R = Ok d' /\
           (forall (s : str) (specs' : list str),
            split_ws spec = s :: specs' ->
            forall l : lexrow, In l (select_one (lexrows_of d) None s) -> In (lx_rowid l) R) /\
           get_table d' "lexicons" =
           filter (fun r : row => negb (zmem_z (rowid_of r) R)) (get_table d "lexicons") /\
           (forall child c a : string,
            In (child, c, a) (referencing "lexicons") ->
            forall r : row,
            In r (get_table d' child) -> forall n : Z, In n R -> col child c r <> CInt n) /\
           fk_ok d' = true.
Proof. exact (@remove_owned_rows_gone). Qed.
Print Assumptions C05_remove_owned_rows_gone.

Theorem C05_remove_single :
  forall (d : db) (spec s : str) (l : lexrow) (d' : db),
         split_ws spec = [s] ->
         select_one (lexrows_of d) None s = [l] ->
         remove d spec = Ok d' -> remove_one d (lx_rowid l) = Ok d'.
Proof. exact (@remove_single). Qed.
Print Assumptions C05_remove_single.

(* ---- frame: every row outside the cascade closure of the removed lexicons survives unchanged (up to SET NULL columns: dependency links of other lexicons are reset); everything inside is gone *)
Theorem C05_remove_frame :
  forall (d : db) (spec : str) (d' : db),
         fk_ok d = true ->
         db_rowids_ok d = true ->
         remove d spec = Ok d' ->
         exists R : list Z,
           delete_seq d R = Ok d' /\
           (forall (t : string) (cols : list (string * string * bool * bool))
              (fks : list (string * string * string * string)) (uqs : list (list string))
              (r : row),
            In (t, cols, fks, uqs) schema ->
            In r (get_table d t) ->
            ~ doomed d (roots_of R) t (rowid_of r) ->
            exists r' : row, In r' (get_table d' t) /\ row_le t r' r) /\
           (forall (t : string) (n : Z),
            doomed d (roots_of R) t n -> ~ In n (rowids (get_table d' t))) /\
           shrink d d'.
Proof. exact (@remove_frame). Qed.
Print Assumptions C05_remove_frame.

Theorem C05_delete_seq_frame :
  forall (rids : list Z) (d d' : db) (t : string) (r : row),
         delete_seq d rids = Ok d' ->
         NoDup (rowids (get_table d t)) ->
         In r (get_table d t) ->
         ~ doomed d (roots_of rids) t (rowid_of r) ->
         exists r' : row, In r' (get_table d' t) /\ row_le t r' r.
Proof. exact (@delete_seq_frame). Qed.
Print Assumptions C05_delete_seq_frame.

Theorem C05_delete_seq_doomed_gone :
  forall (rids : list Z) (d d' : db),
         fk_ok d = true ->
         db_rowids_ok d = true ->
         delete_seq d rids = Ok d' ->
         forall (t : string) (n : Z),
         doomed d (roots_of rids) t n -> ~ In n (rowids (get_table d' t)).
Proof. exact (@delete_seq_doomed_gone). Qed.
Print Assumptions C05_delete_seq_doomed_gone.

(* ---- a specifier matching nothing raises wn.Error; "*" on an empty database is a no-op *)
Theorem C05_remove_nothing_matches :
  forall (d : db) (spec : str),
         (forall s : str, In s (split_ws spec) -> select_one (lexrows_of d) None s = []) ->
         spec <> [c_star] -> remove d spec = WnError.
Proof. exact (@remove_nothing_matches). Qed.
Print Assumptions C05_remove_nothing_matches.

Theorem C05_remove_star_empty :
  forall d : db, get_table d "lexicons" = [] -> remove d [c_star] = Ok d.
Proof. exact (@remove_star_empty). Qed.
Print Assumptions C05_remove_star_empty.

(* ---- add: existing rows of every table stay where they are (other lexicons are untouched; only pending dependency links may be resolved); references stay valid *)
Theorem C05_add_lexical_resource_monotone :
  forall (d : db) (r : val) (nt : normtable) (d' : db),
         add_lexical_resource d r nt = Ok d' -> db_ext d d'.
Proof. exact (@add_lexical_resource_monotone). Qed.
Print Assumptions C05_add_lexical_resource_monotone.

Theorem C05_add_keeps_rows :
  forall (d : db) (r : val) (nt : normtable) (d' : db) (t : string),
         add_lexical_resource d r nt = Ok d' ->
         t <> "lexicon_dependencies" ->
         exists news : list row,
           get_table d' t = (get_table d t ++ news)%list /\
           (forall r1 : row,
            In r1 news -> forall r0 : row, In r0 (get_table d t) -> rowid_of r0 < rowid_of r1).
Proof. exact (@add_keeps_rows). Qed.
Print Assumptions C05_add_keeps_rows.

Theorem C05_add_keeps_dependencies :
  forall (d : db) (r : val) (nt : normtable) (d' : db),
         add_lexical_resource d r nt = Ok d' ->
         exists olds news : list row,
           get_table d' "lexicon_dependencies" = (olds ++ news)%list /\
           Forall2 (fun r0 r1 : row => r1 = r0 \/ (exists c : cell, r1 = set_nth prov_idx c r0))
             (get_table d "lexicon_dependencies") olds /\
           (forall r1 : row,
            In r1 news ->
            forall r0 : row, In r0 (get_table d "lexicon_dependencies") -> rowid_of r0 < rowid_of r1).
Proof. exact (@add_keeps_dependencies). Qed.
Print Assumptions C05_add_keeps_dependencies.

Theorem C05_add_lexical_resource_fk_ok :
  forall (d : db) (r : val) (nt : normtable) (d' : db),
         fk_ok d = true -> add_lexical_resource d r nt = Ok d' -> fk_ok d' = true.
Proof. exact (@add_lexical_resource_fk_ok). Qed.
Print Assumptions C05_add_lexical_resource_fk_ok.

(* ---- adding again is a no-op; an extension whose base is missing is skipped; what is skipped depends only on (id, version, extends) *)
Theorem C05_add_lexical_resource_skips :
  forall (d : db) (r : val) (nt : normtable) (lexs : list val),
         vreq r "lexicons" = Ok (VList lexs) ->
         (forall lex : val, In lex lexs -> installed d lex \/ base_missing d lex) ->
         add_lexical_resource d r nt = Ok d.
Proof. exact (@add_lexical_resource_skips). Qed.
Print Assumptions C05_add_lexical_resource_skips.

Theorem C05_readd_is_noop :
  forall (d : db) (r : val) (nt : normtable) (lexs : list val),
         vreq r "lexicons" = Ok (VList lexs) ->
         (forall lex : val, In lex lexs -> installed d lex) -> add_lexical_resource d r nt = Ok d.
Proof. exact (@readd_is_noop). Qed.
Print Assumptions C05_readd_is_noop.

Theorem C05_extensions_without_base_skipped :
  forall (d : db) (r : val) (nt : normtable) (lexs : list val),
         vreq r "lexicons" = Ok (VList lexs) ->
         (forall lex : val, In lex lexs -> base_missing d lex) -> add_lexical_resource d r nt = Ok d.
Proof. exact (@extensions_without_base_skipped). Qed.
Print Assumptions C05_extensions_without_base_skipped.

Theorem C05_precheck_depends_on_spec_only :
  forall (d : db) (infos infos' : list val),
         Forall2 same_spec infos infos' -> _precheck infos d = _precheck infos' d.
Proof. exact (@precheck_depends_on_spec_only). Qed.
Print Assumptions C05_precheck_depends_on_spec_only.

(* ---- the schema facts the statements rest on (recomputed from Gen/Schema.v): which columns are SET NULL, which tables refer to lexicons *)
Theorem C05_setnull_columns :
  flat_map
           (fun '(t, _, fks, _) =>
            flat_map (fun '(c0, _, _, a) => if a =? "SET NULL" then [(t, c0)] else []) fks) schema =
         [("lexicon_dependencies", "provider_rowid"); ("definitions", "sense_rowid")].
Proof. exact (@setnull_columns). Qed.
Print Assumptions C05_setnull_columns.

Theorem C05_references_to_lexicons :
  referencing "lexicons" =
         [("lexicon_dependencies", "dependent_rowid", "CASCADE");
          ("lexicon_dependencies", "provider_rowid", "SET NULL");
          ("lexicon_extensions", "base_rowid", "NO ACTION");
          ("lexicon_extensions", "extension_rowid", "CASCADE");
          ("entries", "lexicon_rowid", "CASCADE"); ("forms", "lexicon_rowid", "CASCADE");
          ("synsets", "lexicon_rowid", "CASCADE"); ("synset_relations", "lexicon_rowid", "CASCADE");
          ("definitions", "lexicon_rowid", "CASCADE");
          ("synset_examples", "lexicon_rowid", "CASCADE"); ("senses", "lexicon_rowid", "CASCADE");
          ("sense_relations", "lexicon_rowid", "CASCADE");
          ("sense_synset_relations", "lexicon_rowid", "CASCADE");
          ("sense_examples", "lexicon_rowid", "CASCADE"); ("counts", "lexicon_rowid", "CASCADE");
          ("syntactic_behaviours", "lexicon_rowid", "CASCADE")].
Proof. exact (@references_to_lexicons). Qed.
Print Assumptions C05_references_to_lexicons.

Theorem C05_lexicon_rowid_columns_covered :
  forallb
           (fun '(t, cols, _, _) =>
            negb
              (existsb (fun c : string * string * bool * bool => col_name c =? "lexicon_rowid") cols)
            || existsb
                 (fun '(child, c, a) => (child =? t) && (c =? "lexicon_rowid") && (a =? "CASCADE"))
                 (referencing "lexicons")) schema = true.
Proof. exact (@lexicon_rowid_columns_covered). Qed.
Print Assumptions C05_lexicon_rowid_columns_covered.

(* ---- non-vacuity: a database built by the model from documents satisfies the hypotheses; a removal and a re-add on it *)
Theorem C05_ex_db2_ok :
  fk_ok ex_db2 = true /\
         db_rowids_ok ex_db2 = true /\
         map (fun r : row => (rowid_of r, col "lexicons" "id" r)) (get_table ex_db2 "lexicons") =
         [(1, CText (k "ba")); (2, CText (k "bb"))] /\
         map (fun r : row => (col "synsets" "ili_rowid" r, col "synsets" "lexicon_rowid" r))
           (get_table ex_db2 "synsets") = [(CInt 1, CInt 1); (CInt 1, CInt 2)] /\
         map (col "definitions" "sense_rowid") (get_table ex_db2 "definitions") = [CInt 1; CInt 2] /\
         map (col "lexicon_dependencies" "provider_rowid") (get_table ex_db2 "lexicon_dependencies") =
         [CInt 1].
Proof. exact (@ex_db2_ok). Qed.
Print Assumptions C05_ex_db2_ok.

Theorem C05_ex_remove :
  match remove ex_db2 (k "ba") with
         | Ok d' =>
             fk_ok d' = true /\
             map rowid_of (get_table d' "lexicons") = [2] /\
             map (col "lexicon_dependencies" "provider_rowid") (get_table d' "lexicon_dependencies") =
             [CNull] /\ Datatypes.length (get_table d' "senses") = 1%nat
         | _ => False
         end.
Proof. exact (@ex_remove). Qed.
Print Assumptions C05_ex_remove.

Theorem C05_ex_readd :
  add_lexical_resource ex_db2 (ex_resource [ex_lexicon "ba" []]) [] = Ok ex_db2 /\
         add_lexical_resource ex_db2
           (ex_resource
              [ex_lexicon "xq" [("extends", vd [("id", vs "nobase"); ("version", vs "1")])]]) [] =
         Ok ex_db2.
Proof. exact (@ex_readd). Qed.
Print Assumptions C05_ex_readd.

Require Import WnV.Proofs.AddContent WnV.Proofs.AddRemove.

(* ---- add followed by remove of what was added restores the database: every content table (20 tables, tables_partition) is exactly what it was, including the dependency links of other lexicons; only the shared lookup tables (relation_types, ilis, ili_statuses, lexfiles) keep what the add put there; afterwards every hypothesis holds again and the lexicon is offered for adding again.  [Wfb] = rowids unique and NOT NULL/CHECK constraints hold; [deps_ok] = resolved dependency links point to the lexicon they name; [in_synsets_ok] is needed (witness ex_proposed_survives) *)
Theorem C05_add_then_remove_restores :
  forall (d : db) (r : val) (nt : normtable) (d' d'' : db) (L : val) (i v : str),
         vreq r "lexicons" = Ok (VList [L]) ->
         vreq L "id" = Ok (VStr i) ->
         vreq L "version" = Ok (VStr v) ->
         vtruthy (vgetk L "extends") = false ->
         is_null (LEXICON_QUERY d (CText i) (CText v)) = true ->
         let spec := (i ++ [c_colon] ++ v)%list in
         spec_plain spec = true ->
         split_ws spec = [spec] ->
         spec_unused d spec = true ->
         fk_ok d = true ->
         Wfb d = true ->
         deps_ok d = true ->
         in_synsets_ok L = true ->
         add_lexical_resource d r nt = Ok d' ->
         remove d' spec = Ok d'' ->
         (forall t : string, In t content_tables -> get_table d'' t = get_table d t) /\
         (forall t : string,
          In t lookup_tables ->
          get_table d'' t = get_table d' t /\
          (exists X : list row, get_table d' t = (get_table d t ++ X)%list)).
Proof. exact (@add_then_remove_restores). Qed.
Print Assumptions C05_add_then_remove_restores.

Theorem C05_add_one_then_delete :
  forall (nt : normtable) (L : val) (d d' d'' : db) (idc vc : cell),
         add_one_lexicon nt L d = Ok d' ->
         vtruthy (vgetk L "extends") = false ->
         fk_ok d = true ->
         Wf d ->
         deps_ok d = true ->
         in_synsets_ok L = true ->
         preq L "id" = Ok idc ->
         preq L "version" = Ok vc ->
         is_null (LEXICON_QUERY d idc vc) = true ->
         delete_row delete_fuel d' "lexicons" (next_rowid (get_table d "lexicons")) = Ok d'' ->
         (forall t : string, In t content_tables -> get_table d'' t = get_table d t) /\
         (forall t : string,
          In t lookup_tables ->
          get_table d'' t = get_table d' t /\
          (exists X : list row, get_table d' t = (get_table d t ++ X)%list)).
Proof. exact (@add_one_then_delete). Qed.
Print Assumptions C05_add_one_then_delete.

Theorem C05_cycle_preserves_hypotheses :
  forall (d : db) (r : val) (nt : normtable) (d' d'' : db) (L : val) (i v : str),
         vreq r "lexicons" = Ok (VList [L]) ->
         vreq L "id" = Ok (VStr i) ->
         vreq L "version" = Ok (VStr v) ->
         vtruthy (vgetk L "extends") = false ->
         is_null (LEXICON_QUERY d (CText i) (CText v)) = true ->
         let spec := (i ++ [c_colon] ++ v)%list in
         spec_plain spec = true ->
         split_ws spec = [spec] ->
         spec_unused d spec = true ->
         fk_ok d = true ->
         Wfb d = true ->
         deps_ok d = true ->
         in_synsets_ok L = true ->
         add_lexical_resource d r nt = Ok d' ->
         remove d' spec = Ok d'' ->
         is_null (LEXICON_QUERY d'' (CText i) (CText v)) = true /\
         spec_unused d'' spec = true /\
         fk_ok d'' = true /\
         deps_ok d'' = true /\
         Wf d'' /\
         (exists skipmap : skipmap_t, _precheck [L] d'' = Ok skipmap /\ not_skipped skipmap L = true).
Proof. exact (@cycle_preserves_hypotheses). Qed.
Print Assumptions C05_cycle_preserves_hypotheses.

Theorem C05_tables_partition :
  map (fun e : string * columns_t * fkeys_t * uniques_t => fst (fst (fst e))) schema =
         ["ilis"; "proposed_ilis"; "lexicons"; "lexicon_dependencies"; "lexicon_extensions";
          "entries"; "forms"; "pronunciations"; "tags"; "synsets"; "synset_relations"; "definitions";
          "synset_examples"; "senses"; "sense_relations"; "sense_synset_relations"; "adjpositions";
          "sense_examples"; "counts"; "syntactic_behaviours"; "syntactic_behaviour_senses";
          "relation_types"; "ili_statuses"; "lexfiles"].
Proof. exact (@tables_partition). Qed.
Print Assumptions C05_tables_partition.

Theorem C05_ex_hypotheses :
  fk_ok ex_db2 = true /\
         Wfb ex_db2 = true /\
         deps_ok ex_db2 = true /\
         in_synsets_ok ex_cc = true /\
         spec_plain (k "cc:1") = true /\
         split_ws (k "cc:1") = [k "cc:1"] /\
         spec_unused ex_db2 (k "cc:1") = true /\
         is_null (LEXICON_QUERY ex_db2 (CText (k "cc")) (CText (k "1"))) = true.
Proof. exact (@ex_hypotheses). Qed.
Print Assumptions C05_ex_hypotheses.

Theorem C05_ex_add_remove :
  match add_lexical_resource ex_db2 (ex_resource [ex_cc]) [] with
         | Ok d' =>
             match remove d' (k "cc:1") with
             | Ok d'' =>
                 forallb
                   (fun t : string =>
                    sx_eqb (sx_of_db [(tn t, get_table d'' t)])
                      (sx_of_db [(tn t, get_table ex_db2 t)])) content_tables = true /\
                 Datatypes.length (get_table d' "senses") = 3%nat
             | _ => False
             end
         | _ => False
         end.
Proof. exact (@ex_add_remove). Qed.
Print Assumptions C05_ex_add_remove.

Theorem C05_ex_readd_after_remove :
  match add_lexical_resource ex_db2 (ex_resource [ex_cc]) [] with
         | Ok d' =>
             match remove d' (k "cc:1") with
             | Ok d'' =>
                 match add_lexical_resource d'' (ex_resource [ex_cc]) [] with
                 | Ok d3 =>
                     forallb
                       (fun t : string =>
                        sx_eqb (sx_of_db [(tn t, get_table d3 t)])
                          (sx_of_db [(tn t, get_table d' t)])) (content_tables ++ lookup_tables) =
                     true
                 | _ => False
                 end
             | _ => False
             end
         | _ => False
         end.
Proof. exact (@ex_readd_after_remove). Qed.
Print Assumptions C05_ex_readd_after_remove.

(* ---- what is NOT restored, as theorems about the faithful model: a proposed ILI whose synset id is not a string survives (pathological), and tags/pronunciations an extension attached to base forms survive the removal of the extension (finding F3: these tables have no owner column and hang below forms only) *)
Theorem C05_ex_proposed_survives :
  in_synsets_ok ex_bad = false /\
         match add_lexical_resource ex_db2 (ex_resource [ex_bad]) [] with
         | Ok d' =>
             match remove d' (k "zz:1") with
             | Ok d'' =>
                 get_table ex_db2 "proposed_ilis" = [] /\
                 get_table d'' "proposed_ilis" = [[CInt 1; CNull; CNull; CNull]]
             | _ => False
             end
         | _ => False
         end.
Proof. exact (@ex_proposed_survives). Qed.
Print Assumptions C05_ex_proposed_survives.

Theorem C05_ex_extension_leaks_tags :
  match add_lexical_resource ex_db2 (ex_resource [ex_ext]) [] with
         | Ok d' =>
             match remove d' (k "xa:1") with
             | Ok d'' =>
                 get_table ex_db2 "tags" = [] /\
                 get_table d'' "tags" = [[CInt 1; CInt 1; CText (k "sg"); CText (k "number")]] /\
                 map rowid_of (get_table d'' "lexicons") = map rowid_of (get_table ex_db2 "lexicons")
             | _ => False
             end
         | _ => False
         end.
Proof. exact (@ex_extension_leaks_tags). Qed.
Print Assumptions C05_ex_extension_leaks_tags.

Require Import WnV.Proofs.DepInv.
(* ---- dependency links are resolved exactly, whatever the order of adds and removes (Proofs/DepInv.v): [deps_resolved d] = the provider_rowid of every lexicon_dependencies row is the rowid of the installed lexicon with the row's provider id and version, and NULL when there is none; it is preserved, together with the uniqueness of (id, version) among lexicons and the row shape, by add_lexical_resource (back-fill of existing links when the provider arrives, resolution of the new lexicon's own links) and by remove (SET NULL on the links to a removed provider, CASCADE on the links of a removed dependent); so which lexicon a dependency points to depends only on which lexicons are installed. Histories evaluated on concrete resources: NULL -> rowid -> NULL -> new rowid *)
Theorem C05_insert_lexicon_deps_resolved :
  forall (lexicon : val) (d d' : db) (lexid extid : Z),
         lexicons_unique d ->
         deps_wf d ->
         deps_resolved d ->
         _insert_lexicon lexicon d = Ok (d', lexid, extid) ->
         lexicons_unique d' /\ deps_wf d' /\ deps_resolved d'.
Proof. exact (@insert_lexicon_deps_resolved). Qed.
Print Assumptions C05_insert_lexicon_deps_resolved.

Theorem C05_add_one_lexicon_deps_resolved :
  forall (nt : normtable) (L : val) (d d' : db),
         dep_inv d -> add_one_lexicon nt L d = Ok d' -> dep_inv d'.
Proof. exact (@add_one_lexicon_deps_resolved). Qed.
Print Assumptions C05_add_one_lexicon_deps_resolved.

Theorem C05_add_lexical_resource_deps_resolved :
  forall (d : db) (r : val) (nt : normtable) (d' : db),
         lexicons_unique d ->
         deps_wf d ->
         deps_resolved d ->
         add_lexical_resource d r nt = Ok d' -> lexicons_unique d' /\ deps_wf d' /\ deps_resolved d'.
Proof. exact (@add_lexical_resource_deps_resolved). Qed.
Print Assumptions C05_add_lexical_resource_deps_resolved.

Theorem C05_insert_lexicon_not_installed :
  forall (lexicon : val) (d d' : db) (lexid extid : Z),
         _insert_lexicon lexicon d = Ok (d', lexid, extid) ->
         exists idc vc : cell,
           preq lexicon "id" = Ok idc /\
           preq lexicon "version" = Ok vc /\ LEXICON_QUERY d idc vc = CNull.
Proof. exact (@insert_lexicon_not_installed). Qed.
Print Assumptions C05_insert_lexicon_not_installed.

Theorem C05_remove_deps_resolved :
  forall (d : db) (spec : str) (d' : db),
         lexicons_unique d ->
         deps_wf d ->
         deps_resolved d ->
         remove d spec = Ok d' -> lexicons_unique d' /\ deps_wf d' /\ deps_resolved d'.
Proof. exact (@remove_deps_resolved). Qed.
Print Assumptions C05_remove_deps_resolved.

Theorem C05_deps_resolved_iff :
  forall (d : db) (r : row),
         lexicons_unique d ->
         deps_resolved d ->
         In r (get_table d "lexicon_dependencies") ->
         (forall k : Z,
          col "lexicon_dependencies" "provider_rowid" r = CInt k <->
          (exists l : row,
             In l (get_table d "lexicons") /\
             rowid_of l = k /\
             lex_match (col "lexicon_dependencies" "provider_id" r)
               (col "lexicon_dependencies" "provider_version" r) l = true)) /\
         (col "lexicon_dependencies" "provider_rowid" r = CNull <->
          (forall l : row,
           In l (get_table d "lexicons") ->
           lex_match (col "lexicon_dependencies" "provider_id" r)
             (col "lexicon_dependencies" "provider_version" r) l = false)).
Proof. exact (@deps_resolved_iff). Qed.
Print Assumptions C05_deps_resolved_iff.

Theorem C05_delete_needs_lexicons_unique :
  (forall r : row,
          In r (get_table ex_dup "lexicon_dependencies") ->
          col "lexicon_dependencies" "provider_rowid" r =
          resolve ex_dup (col "lexicon_dependencies" "provider_id" r)
            (col "lexicon_dependencies" "provider_version" r)) /\
         match delete_row delete_fuel ex_dup "lexicons" 1 with
         | Ok d' =>
             prov_links d' = [(CInt 9, CNull)] /\ resolve d' (CText (k "a")) (CText (k "v")) = CInt 2
         | _ => False
         end.
Proof. exact (@delete_needs_lexicons_unique). Qed.
Print Assumptions C05_delete_needs_lexicons_unique.

Theorem C05_ex_db2_dep_inv :
  lexicons_unique ex_db2 /\ deps_wf ex_db2 /\ deps_resolved ex_db2.
Proof. exact (@ex_db2_dep_inv). Qed.
Print Assumptions C05_ex_db2_dep_inv.

Theorem C05_ex_db2_link :
  map
           (fun r : row =>
            (col "lexicon_dependencies" "dependent_rowid" r,
             col "lexicon_dependencies" "provider_id" r,
             col "lexicon_dependencies" "provider_version" r,
             col "lexicon_dependencies" "provider_rowid" r))
           (get_table ex_db2 "lexicon_dependencies") =
         [(CInt 2, CText (k "ba"), CText (k "1"), CInt 1)] /\
         resolve ex_db2 (CText (k "ba")) (CText (k "1")) = CInt 1 /\
         resolve ex_db2 (CText (k "zz")) (CText (k "1")) = CNull.
Proof. exact (@ex_db2_link). Qed.
Print Assumptions C05_ex_db2_link.

Theorem C05_history_dependent_then_provider :
  match add_lexical_resource ex_db ex_dependent [] with
         | Ok d1 =>
             lexicon_ids d1 = [(1, CText (k "bb"))] /\
             prov_links d1 = [(CInt 1, CNull)] /\
             match add_lexical_resource d1 ex_provider [] with
             | Ok d2 =>
                 lexicon_ids d2 = [(1, CText (k "bb")); (2, CText (k "ba"))] /\
                 prov_links d2 = [(CInt 1, CInt 2)]
             | _ => False
             end
         | _ => False
         end.
Proof. exact (@history_dependent_then_provider). Qed.
Print Assumptions C05_history_dependent_then_provider.

Theorem C05_history_provider_dependent_remove :
  match add_lexical_resource ex_db ex_provider [] with
         | Ok d1 =>
             prov_links d1 = [] /\
             match add_lexical_resource d1 ex_dependent [] with
             | Ok d2 =>
                 lexicon_ids d2 = [(1, CText (k "ba")); (2, CText (k "bb"))] /\
                 prov_links d2 = [(CInt 2, CInt 1)] /\
                 match remove d2 (k "ba:1") with
                 | Ok d3 =>
                     lexicon_ids d3 = [(2, CText (k "bb"))] /\
                     prov_links d3 = [(CInt 2, CNull)] /\
                     match add_lexical_resource d3 ex_provider [] with
                     | Ok d4 =>
                         lexicon_ids d4 = [(2, CText (k "bb")); (3, CText (k "ba"))] /\
                         prov_links d4 = [(CInt 2, CInt 3)] /\
                         match remove d4 (k "bb") with
                         | Ok d5 => lexicon_ids d5 = [(3, CText (k "ba"))] /\ prov_links d5 = []
                         | _ => False
                         end
                     | _ => False
                     end
                 | _ => False
                 end
             | _ => False
             end
         | _ => False
         end.
Proof. exact (@history_provider_dependent_remove). Qed.
Print Assumptions C05_history_provider_dependent_remove.

Theorem C05_history_invariant :
  forall d1 d2 d3 : db,
         add_lexical_resource ex_db ex_provider [] = Ok d1 ->
         add_lexical_resource d1 ex_dependent [] = Ok d2 ->
         remove d2 (k "ba:1") = Ok d3 ->
         (lexicons_unique d2 /\ deps_wf d2 /\ deps_resolved d2) /\
         lexicons_unique d3 /\ deps_wf d3 /\ deps_resolved d3.
Proof. exact (@history_invariant). Qed.
Print Assumptions C05_history_invariant.
