(* Properties/C05.v — placeholder: the cascade structure of today's schema (Gen/Schema.v).
   Every table that records an owning lexicon deletes its rows with the lexicon. *)
From Coq Require Import String.
From Coq Require Import ZArith List Bool.
Import ListNotations.
Require Import WnV.Base.Sx WnV.Gen.Schema.
Local Open Scope string_scope.

Definition fk_of (t col : string) : option (string * string) :=
  match find (fun e => String.eqb (fst (fst (fst e))) t) schema with
  | Some e => match find (fun f : string * string * string * string => String.eqb (fst (fst (fst f))) col)
                         (snd (fst e)) with
              | Some f => Some (snd (fst (fst f)), snd f)
              | None => None
              end
  | None => None
  end.
(* tables with a lexicon_rowid column *)
Definition owned_tables : list string :=
  map (fun e => fst (fst (fst e)))
      (filter (fun e => existsb (fun c : string * string * bool * bool => String.eqb (fst (fst (fst c))) "lexicon_rowid")
                                (snd (fst (fst e)))) schema).
Example C05_owned_tables_cascade :
  forallb (fun t => match fk_of t "lexicon_rowid" with
                    | Some (parent, action) => String.eqb parent "lexicons" && String.eqb action "CASCADE"
                    | None => false
                    end) owned_tables = true
  /\ Nat.leb 12 (length owned_tables) = true.
Proof. vm_compute. split; reflexivity. Qed.
Print Assumptions C05_owned_tables_cascade.
