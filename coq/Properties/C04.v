(* Properties/C04.v — queries stay inside the selected lexicons (model: Model/Core.v over Model/Query.v, Model/Tables.v).
   [scope d w l] (Proofs/ScopeProofs.v) is the set of lexicon rowids an entity of lexicon l may reach in
   Wordnet w: the Wordnet's selection outside default mode, the entity's own lexicon family in default mode.
   [db_ok] (Proofs/QueryFacts.v) = rowids are unique, no entity has lexicon rowid 0, senses resolve.
   [expanded_target_ok] = in scope, or an inferred placeholder (rowid 0) carrying the source's lexicon.
   Statements only: every theorem is closed by `exact` of a lemma proved under Proofs/, followed by
   Print Assumptions.  (Statement texts were printed by Coq from the proved lemmas by harness/mkprops.py and are
   fixed from then on.) *)
From Coq Require Import String.
From Coq Require Import ZArith List Bool.
Import ListNotations.
Require Import WnV.Base.Sx WnV.Model.Spec WnV.Model.Tables WnV.Model.Query WnV.Model.Core.
Require Import WnV.Proofs.CoreLemmas WnV.Proofs.QueryFacts WnV.Proofs.ScopeProofs WnV.Proofs.SearchProofs
        WnV.Proofs.NavProofs WnV.Proofs.RelGeneric WnV.Proofs.RelProofs WnV.Proofs.RelClosureProofs
        WnV.Proofs.ExpandProofs WnV.Proofs.FrameProofs WnV.Proofs.CoreNonvacuity.
Require Import WnV.Proofs.SynsetFormFrame.
Local Open Scope Z_scope.

(* ---- the scope itself *)
Theorem C04_scope_nondefault :
  forall (d : db) (w : Wordnet) (l : Z),
         wn_default_mode w = false -> scope d w l = wn_lexicon_ids w.
Proof. exact (@scope_nondefault). Qed.
Print Assumptions C04_scope_nondefault.

Theorem C04_scope_default :
  forall (d : db) (w : Wordnet) (l x : Z),
         wn_default_mode w = true ->
         In x (scope d w l) <->
         x = l \/
         In (Some x) (get_lexicon_extension_bases d l (-1)) \/
         In (Some x) (get_lexicon_extensions d l (-1)).
Proof. exact (@scope_default). Qed.
Print Assumptions C04_scope_default.

Theorem C04_Wordnet_init_selects :
  forall (d : db) (lexicon lang expand : option str) (nz : bool) (nt : list (str * str))
           (lem : option (list (str * list (option str * list str)))) (saf : bool)
           (w : Wordnet),
         Wordnet_init d lexicon lang expand nz nt lem saf = Ok w ->
         t_lexicons d <> [] -> wn_lexicon_ids w <> [].
Proof. exact (@Wordnet_init_selects). Qed.
Print Assumptions C04_Wordnet_init_selects.

(* ---- primary queries of a Wordnet return entities of the selected lexicons, bound to that Wordnet *)
Theorem C04_Wordnet_words_scope :
  forall (d : db) (w : Wordnet) (form pos : option str) (x : Word),
         wn_lexicon_ids w <> [] ->
         In x (Wordnet_words d w form pos) -> In (wd_lexid x) (wn_lexicon_ids w) /\ wd_wordnet x = w.
Proof. exact (@Wordnet_words_scope). Qed.
Print Assumptions C04_Wordnet_words_scope.

Theorem C04_Wordnet_senses_scope :
  forall (d : db) (w : Wordnet) (form pos : option str) (x : Sense),
         wn_lexicon_ids w <> [] ->
         In x (Wordnet_senses d w form pos) -> In (sn_lexid x) (wn_lexicon_ids w) /\ sn_wordnet x = w.
Proof. exact (@Wordnet_senses_scope). Qed.
Print Assumptions C04_Wordnet_senses_scope.

Theorem C04_Wordnet_synsets_scope :
  forall (d : db) (w : Wordnet) (form pos ili : option str) (x : Synset),
         wn_lexicon_ids w <> [] ->
         In x (Wordnet_synsets d w form pos ili) ->
         In (ss_lexid x) (wn_lexicon_ids w) /\ ss_wordnet x = w.
Proof. exact (@Wordnet_synsets_scope). Qed.
Print Assumptions C04_Wordnet_synsets_scope.

Theorem C04_Wordnet_word_scope :
  forall (d : db) (w : Wordnet) (id : str) (x : Word),
         wn_lexicon_ids w <> [] ->
         Wordnet_word d w id = Ok x ->
         In (wd_lexid x) (wn_lexicon_ids w) /\ wd_wordnet x = w /\ (id <> [] -> wd_id x = id).
Proof. exact (@Wordnet_word_scope). Qed.
Print Assumptions C04_Wordnet_word_scope.

Theorem C04_Wordnet_sense_scope :
  forall (d : db) (w : Wordnet) (id : str) (x : Sense),
         wn_lexicon_ids w <> [] ->
         Wordnet_sense d w id = Ok x -> In (sn_lexid x) (wn_lexicon_ids w) /\ sn_wordnet x = w.
Proof. exact (@Wordnet_sense_scope). Qed.
Print Assumptions C04_Wordnet_sense_scope.

Theorem C04_Wordnet_synset_scope :
  forall (d : db) (w : Wordnet) (id : str) (x : Synset),
         wn_lexicon_ids w <> [] ->
         Wordnet_synset d w id = Ok x -> In (ss_lexid x) (wn_lexicon_ids w) /\ ss_wordnet x = w.
Proof. exact (@Wordnet_synset_scope). Qed.
Print Assumptions C04_Wordnet_synset_scope.

(* ---- every navigation step stays in the scope of its receiver (any mode) and keeps the Wordnet *)
Theorem C04_Word_senses_scope :
  forall (d : db) (w : Word) (s : Sense),
         In s (Word_senses d w) ->
         In (sn_lexid s) (scope d (wd_wordnet w) (wd_lexid w)) /\ sn_wordnet s = wd_wordnet w.
Proof. exact (@Word_senses_scope). Qed.
Print Assumptions C04_Word_senses_scope.

Theorem C04_Synset_senses_scope :
  forall (d : db) (y : Synset) (s : Sense),
         In s (Synset_senses d y) ->
         In (sn_lexid s) (scope d (ss_wordnet y) (ss_lexid y)) /\ sn_wordnet s = ss_wordnet y.
Proof. exact (@Synset_senses_scope). Qed.
Print Assumptions C04_Synset_senses_scope.

Theorem C04_Sense_word_scope :
  forall (d : db) (s : Sense) (x : Word),
         db_ok d = true ->
         Sense_word d s = Ok x ->
         In (wd_lexid x) (scope d (sn_wordnet s) (sn_lexid s)) /\ wd_wordnet x = sn_wordnet s.
Proof. exact (@Sense_word_scope). Qed.
Print Assumptions C04_Sense_word_scope.

Theorem C04_Sense_synset_scope :
  forall (d : db) (s : Sense) (y : Synset),
         db_ok d = true ->
         Sense_synset d s = Ok y ->
         In (ss_lexid y) (scope d (sn_wordnet s) (sn_lexid s)) /\ ss_wordnet y = sn_wordnet s.
Proof. exact (@Sense_synset_scope). Qed.
Print Assumptions C04_Sense_synset_scope.

Theorem C04_Word_synsets_scope :
  forall (d : db) (w : Word) (ys : list Synset) (y : Synset),
         db_ok d = true ->
         Word_synsets d w = Ok ys ->
         In y ys ->
         exists s : Sense,
           In s (Word_senses d w) /\
           Sense_synset d s = Ok y /\
           In (ss_lexid y) (scope d (wd_wordnet w) (sn_lexid s)) /\ ss_wordnet y = wd_wordnet w.
Proof. exact (@Word_synsets_scope). Qed.
Print Assumptions C04_Word_synsets_scope.

Theorem C04_Synset_words_scope :
  forall (d : db) (y : Synset) (xs : list Word) (x : Word),
         db_ok d = true ->
         Synset_words d y = Ok xs ->
         In x xs ->
         exists s : Sense,
           In s (Synset_senses d y) /\
           Sense_word d s = Ok x /\
           In (wd_lexid x) (scope d (ss_wordnet y) (sn_lexid s)) /\ wd_wordnet x = ss_wordnet y.
Proof. exact (@Synset_words_scope). Qed.
Print Assumptions C04_Synset_words_scope.

Theorem C04_Sense_get_related_scope :
  forall (d : db) (s : Sense) (args : list str) (ts : list Sense) (t : Sense),
         Sense_get_related d s args = Ok ts ->
         In t ts ->
         In (sn_lexid t) (scope d (sn_wordnet s) (sn_lexid s)) /\ sn_wordnet t = sn_wordnet s.
Proof. exact (@Sense_get_related_scope). Qed.
Print Assumptions C04_Sense_get_related_scope.

Theorem C04_Sense_relations_scope :
  forall (d : db) (s : Sense) (args : list str) (m : list (str * list Sense))
           (n : str) (ts : list Sense) (t : Sense),
         Sense_relations d s args = Ok m ->
         In (n, ts) m ->
         In t ts ->
         In (sn_lexid t) (scope d (sn_wordnet s) (sn_lexid s)) /\ sn_wordnet t = sn_wordnet s.
Proof. exact (@Sense_relations_scope). Qed.
Print Assumptions C04_Sense_relations_scope.

Theorem C04_Sense_relation_map_scope :
  forall (d : db) (s : Sense) (m : list (Relation * Sense)) (r : Relation) (t : Sense),
         Sense_relation_map d s = Ok m ->
         In (r, t) m ->
         In (sn_lexid t) (scope d (sn_wordnet s) (sn_lexid s)) /\ sn_wordnet t = sn_wordnet s.
Proof. exact (@Sense_relation_map_scope). Qed.
Print Assumptions C04_Sense_relation_map_scope.

Theorem C04_Sense_get_related_synsets_scope :
  forall (d : db) (s : Sense) (args : list str) (ts : list Synset) (t : Synset),
         Sense_get_related_synsets d s args = Ok ts ->
         In t ts ->
         In (ss_lexid t) (scope d (sn_wordnet s) (sn_lexid s)) /\ ss_wordnet t = sn_wordnet s.
Proof. exact (@Sense_get_related_synsets_scope). Qed.
Print Assumptions C04_Sense_get_related_synsets_scope.

Theorem C04_Synset_iter_local_relations_scope :
  forall (d : db) (y : Synset) (args : list str) (pairs : list (Relation * Synset))
           (r : Relation) (t : Synset),
         Synset_iter_local_relations d y args = Ok pairs ->
         In (r, t) pairs ->
         In (ss_lexid t) (scope d (ss_wordnet y) (ss_lexid y)) /\ ss_wordnet t = ss_wordnet y.
Proof. exact (@Synset_iter_local_relations_scope). Qed.
Print Assumptions C04_Synset_iter_local_relations_scope.

Theorem C04_Synset_iter_expanded_relations_scope :
  forall (d : db) (y : Synset) (args : list str) (pairs : list (Relation * Synset))
           (r : Relation) (t : Synset),
         Synset_iter_expanded_relations d y args = Ok pairs ->
         In (r, t) pairs -> expanded_target_ok d y t.
Proof. exact (@Synset_iter_expanded_relations_scope). Qed.
Print Assumptions C04_Synset_iter_expanded_relations_scope.

Theorem C04_Synset_get_related_scope :
  forall (d : db) (y : Synset) (args : list str) (ts : list Synset) (t : Synset),
         Synset_get_related d y args = Ok ts -> In t ts -> expanded_target_ok d y t.
Proof. exact (@Synset_get_related_scope). Qed.
Print Assumptions C04_Synset_get_related_scope.

Theorem C04_Synset_relations_scope :
  forall (d : db) (y : Synset) (args : list str) (m : list (str * list Synset))
           (n : str) (ts : list Synset) (t : Synset),
         Synset_relations d y args = Ok m -> In (n, ts) m -> In t ts -> expanded_target_ok d y t.
Proof. exact (@Synset_relations_scope). Qed.
Print Assumptions C04_Synset_relations_scope.

Theorem C04_Synset_relation_map_scope :
  forall (d : db) (y : Synset) (m : list (Relation * Synset)) (r : Relation) (t : Synset),
         Synset_relation_map d y = Ok m -> In (r, t) m -> expanded_target_ok d y t.
Proof. exact (@Synset_relation_map_scope). Qed.
Print Assumptions C04_Synset_relation_map_scope.

Theorem C04_Synset_get_related_scope_no_expand :
  forall (d : db) (y : Synset) (args : list str) (ts : list Synset) (t : Synset),
         wn_expanded_ids (ss_wordnet y) = [] ->
         Synset_get_related d y args = Ok ts ->
         In t ts ->
         In (ss_lexid t) (scope d (ss_wordnet y) (ss_lexid y)) /\ ss_wordnet t = ss_wordnet y.
Proof. exact (@Synset_get_related_scope_no_expand). Qed.
Print Assumptions C04_Synset_get_related_scope_no_expand.

(* ---- specialised to a restricted Wordnet w: everything reached from an entity of w lies in the selection of w *)
Theorem C04_S1_Word_senses :
  forall (d : db) (w : Wordnet),
         wn_default_mode w = false ->
         forall (x : Word) (s : Sense),
         wd_wordnet x = w ->
         In s (Word_senses d x) -> In (sn_lexid s) (wn_lexicon_ids w) /\ sn_wordnet s = w.
Proof. exact (@S1_Word_senses). Qed.
Print Assumptions C04_S1_Word_senses.

Theorem C04_S1_Synset_senses :
  forall (d : db) (w : Wordnet),
         wn_default_mode w = false ->
         forall (y : Synset) (s : Sense),
         ss_wordnet y = w ->
         In s (Synset_senses d y) -> In (sn_lexid s) (wn_lexicon_ids w) /\ sn_wordnet s = w.
Proof. exact (@S1_Synset_senses). Qed.
Print Assumptions C04_S1_Synset_senses.

Theorem C04_S1_Sense_word :
  forall (d : db) (w : Wordnet),
         wn_default_mode w = false ->
         forall (s : Sense) (x : Word),
         db_ok d = true ->
         sn_wordnet s = w ->
         Sense_word d s = Ok x -> In (wd_lexid x) (wn_lexicon_ids w) /\ wd_wordnet x = w.
Proof. exact (@S1_Sense_word). Qed.
Print Assumptions C04_S1_Sense_word.

Theorem C04_S1_Sense_synset :
  forall (d : db) (w : Wordnet),
         wn_default_mode w = false ->
         forall (s : Sense) (y : Synset),
         db_ok d = true ->
         sn_wordnet s = w ->
         Sense_synset d s = Ok y -> In (ss_lexid y) (wn_lexicon_ids w) /\ ss_wordnet y = w.
Proof. exact (@S1_Sense_synset). Qed.
Print Assumptions C04_S1_Sense_synset.

Theorem C04_S1_Word_synsets :
  forall (d : db) (w : Wordnet),
         wn_default_mode w = false ->
         forall (x : Word) (ys : list Synset) (y : Synset),
         db_ok d = true ->
         wd_wordnet x = w ->
         Word_synsets d x = Ok ys ->
         In y ys -> In (ss_lexid y) (wn_lexicon_ids w) /\ ss_wordnet y = w.
Proof. exact (@S1_Word_synsets). Qed.
Print Assumptions C04_S1_Word_synsets.

Theorem C04_S1_Synset_words :
  forall (d : db) (w : Wordnet),
         wn_default_mode w = false ->
         forall (y : Synset) (xs : list Word) (x : Word),
         db_ok d = true ->
         ss_wordnet y = w ->
         Synset_words d y = Ok xs ->
         In x xs -> In (wd_lexid x) (wn_lexicon_ids w) /\ wd_wordnet x = w.
Proof. exact (@S1_Synset_words). Qed.
Print Assumptions C04_S1_Synset_words.

Theorem C04_S1_Sense_get_related :
  forall (d : db) (w : Wordnet),
         wn_default_mode w = false ->
         forall (s : Sense) (args : list str) (ts : list Sense) (t : Sense),
         sn_wordnet s = w ->
         Sense_get_related d s args = Ok ts ->
         In t ts -> In (sn_lexid t) (wn_lexicon_ids w) /\ sn_wordnet t = w.
Proof. exact (@S1_Sense_get_related). Qed.
Print Assumptions C04_S1_Sense_get_related.

Theorem C04_S1_Sense_relations :
  forall (d : db) (w : Wordnet),
         wn_default_mode w = false ->
         forall (s : Sense) (args : list str) (m : list (str * list Sense))
           (n : str) (ts : list Sense) (t : Sense),
         sn_wordnet s = w ->
         Sense_relations d s args = Ok m ->
         In (n, ts) m -> In t ts -> In (sn_lexid t) (wn_lexicon_ids w) /\ sn_wordnet t = w.
Proof. exact (@S1_Sense_relations). Qed.
Print Assumptions C04_S1_Sense_relations.

Theorem C04_S1_Sense_relation_map :
  forall (d : db) (w : Wordnet),
         wn_default_mode w = false ->
         forall (s : Sense) (m : list (Relation * Sense)) (r : Relation) (t : Sense),
         sn_wordnet s = w ->
         Sense_relation_map d s = Ok m ->
         In (r, t) m -> In (sn_lexid t) (wn_lexicon_ids w) /\ sn_wordnet t = w.
Proof. exact (@S1_Sense_relation_map). Qed.
Print Assumptions C04_S1_Sense_relation_map.

Theorem C04_S1_Sense_get_related_synsets :
  forall (d : db) (w : Wordnet),
         wn_default_mode w = false ->
         forall (s : Sense) (args : list str) (ts : list Synset) (t : Synset),
         sn_wordnet s = w ->
         Sense_get_related_synsets d s args = Ok ts ->
         In t ts -> In (ss_lexid t) (wn_lexicon_ids w) /\ ss_wordnet t = w.
Proof. exact (@S1_Sense_get_related_synsets). Qed.
Print Assumptions C04_S1_Sense_get_related_synsets.

Theorem C04_S1_Synset_local_relations :
  forall (d : db) (w : Wordnet),
         wn_default_mode w = false ->
         forall (y : Synset) (args : list str) (pairs : list (Relation * Synset))
           (r : Relation) (t : Synset),
         ss_wordnet y = w ->
         Synset_iter_local_relations d y args = Ok pairs ->
         In (r, t) pairs -> In (ss_lexid t) (wn_lexicon_ids w) /\ ss_wordnet t = w.
Proof. exact (@S1_Synset_local_relations). Qed.
Print Assumptions C04_S1_Synset_local_relations.

Theorem C04_S1_Synset_expanded_relations :
  forall (d : db) (w : Wordnet),
         wn_default_mode w = false ->
         forall (y : Synset) (args : list str) (pairs : list (Relation * Synset))
           (r : Relation) (t : Synset),
         ss_wordnet y = w ->
         Synset_iter_expanded_relations d y args = Ok pairs ->
         In (r, t) pairs ->
         (In (ss_lexid t) (wn_lexicon_ids w) \/
          ss__id t = NON_ROWID /\ ss_lexid t = ss_lexid y /\ ss_id t = _INFERRED_SYNSET) /\
         ss_wordnet t = w.
Proof. exact (@S1_Synset_expanded_relations). Qed.
Print Assumptions C04_S1_Synset_expanded_relations.

Theorem C04_S1_Synset_get_related :
  forall (d : db) (w : Wordnet),
         wn_default_mode w = false ->
         forall (y : Synset) (args : list str) (ts : list Synset) (t : Synset),
         ss_wordnet y = w ->
         Synset_get_related d y args = Ok ts ->
         In t ts ->
         (In (ss_lexid t) (wn_lexicon_ids w) \/
          ss__id t = NON_ROWID /\ ss_lexid t = ss_lexid y /\ ss_id t = _INFERRED_SYNSET) /\
         ss_wordnet t = w.
Proof. exact (@S1_Synset_get_related). Qed.
Print Assumptions C04_S1_Synset_get_related.

(* ---- frame: a query restricted to lexicon rowids [ids] returns the same rows on two databases that agree on the rows of those lexicons (and on the rows those rows point to) *)
Theorem C04_get_senses_frame :
  forall (d1 d2 : db) (ids : list Z) (rowid : Z) (st : sourcetype),
         agree_senses d1 d2 ids -> _get_senses d1 rowid st ids = _get_senses d2 rowid st ids.
Proof. exact (@get_senses_frame). Qed.
Print Assumptions C04_get_senses_frame.

Theorem C04_get_entry_senses_frame :
  forall (d1 d2 : db) (ids : list Z) (rowid : Z),
         agree_senses d1 d2 ids -> get_entry_senses d1 rowid ids = get_entry_senses d2 rowid ids.
Proof. exact (@get_entry_senses_frame). Qed.
Print Assumptions C04_get_entry_senses_frame.

Theorem C04_get_synset_members_frame :
  forall (d1 d2 : db) (ids : list Z) (rowid : Z),
         agree_senses d1 d2 ids -> get_synset_members d1 rowid ids = get_synset_members d2 rowid ids.
Proof. exact (@get_synset_members_frame). Qed.
Print Assumptions C04_get_synset_members_frame.

Theorem C04_find_senses_frame :
  forall (d1 d2 : db) (ids : list Z) (id : option str) (forms : list str)
           (pos : option str) (norm saf : bool),
         ids <> [] ->
         db_ok d1 = true ->
         db_ok d2 = true ->
         agree_senses d1 d2 ids ->
         agree_sense_forms d1 d2 ids ->
         find_senses d1 id forms pos ids norm saf = find_senses d2 id forms pos ids norm saf.
Proof. exact (@find_senses_frame). Qed.
Print Assumptions C04_find_senses_frame.

Theorem C04_find_entries_frame :
  forall (d1 d2 : db) (ids : list Z) (id : option str) (forms : list str)
           (pos : option str) (norm saf : bool),
         ids <> [] ->
         db_ok d1 = true ->
         db_ok d2 = true ->
         agree_entries d1 d2 ids ->
         find_entries d1 id forms pos ids norm saf = find_entries d2 id forms pos ids norm saf.
Proof. exact (@find_entries_frame). Qed.
Print Assumptions C04_find_entries_frame.

Theorem C04_find_synsets_frame :
  forall (d1 d2 : db) (ids : list Z) (id pos ili : option str) (norm saf : bool),
         ids <> [] ->
         agree_synsets d1 d2 ids ->
         find_synsets d1 id [] pos ili ids norm saf = find_synsets d2 id [] pos ili ids norm saf.
Proof. exact (@find_synsets_frame). Qed.
Print Assumptions C04_find_synsets_frame.

Theorem C04_get_synset_relations_frame :
  forall (d1 d2 : db) (ids srcs : list Z) (types : list str),
         db_ok d1 = true ->
         db_ok d2 = true ->
         agree_shared d1 d2 ->
         agree_synsets d1 d2 ids ->
         filter (fun r : relation_row => sel ids (rl_lexicon_rowid r)) (t_synset_relations d1) =
         filter (fun r : relation_row => sel ids (rl_lexicon_rowid r)) (t_synset_relations d2) ->
         get_synset_relations d1 srcs types ids = get_synset_relations d2 srcs types ids.
Proof. exact (@get_synset_relations_frame). Qed.
Print Assumptions C04_get_synset_relations_frame.

Theorem C04_get_sense_synset_relations_frame :
  forall (d1 d2 : db) (ids : list Z) (src : Z) (types : list str),
         db_ok d1 = true ->
         db_ok d2 = true ->
         agree_shared d1 d2 ->
         agree_synsets d1 d2 ids ->
         filter (fun r : relation_row => sel ids (rl_lexicon_rowid r)) (t_sense_synset_relations d1) =
         filter (fun r : relation_row => sel ids (rl_lexicon_rowid r)) (t_sense_synset_relations d2) ->
         get_sense_synset_relations d1 src types ids = get_sense_synset_relations d2 src types ids.
Proof. exact (@get_sense_synset_relations_frame). Qed.
Print Assumptions C04_get_sense_synset_relations_frame.

Theorem C04_get_sense_relations_frame :
  forall (d1 d2 : db) (ids : list Z) (src : Z) (types : list str),
         db_ok d1 = true ->
         db_ok d2 = true ->
         agree_shared d1 d2 ->
         agree_senses d1 d2 ids ->
         filter (fun r : relation_row => sel ids (rl_lexicon_rowid r)) (t_sense_relations d1) =
         filter (fun r : relation_row => sel ids (rl_lexicon_rowid r)) (t_sense_relations d2) ->
         get_sense_relations d1 src types ids = get_sense_relations d2 src types ids.
Proof. exact (@get_sense_relations_frame). Qed.
Print Assumptions C04_get_sense_relations_frame.

(* ---- non-vacuity: db_ok holds on databases decoded from real dumps (built by wn.add, and an adversarial table-level one) *)
Theorem C04_db_ok_sample_1 :
  db_ok sample_db_1 = true.
Proof. exact (@db_ok_sample_1). Qed.
Print Assumptions C04_db_ok_sample_1.

Theorem C04_db_ok_sample_2 :
  db_ok sample_db_2 = true.
Proof. exact (@db_ok_sample_2). Qed.
Print Assumptions C04_db_ok_sample_2.

Theorem C04_db_ok_fuzz :
  db_ok sample_db_fuzz = true.
Proof. exact (@db_ok_fuzz). Qed.
Print Assumptions C04_db_ok_fuzz.

(* ---- frame for synsets(form): since the repair of F22 (only senses of the selected lexicons link a form to a synset) the form search of a restricted Wordnet returns the same synsets on two databases that agree on the selected senses, on the forms of their entries and on the selected synsets; as lists when the two also agree on the order of the form rows that selected senses reach (the order matters: see the last Example); before the repair the statement was false (ex_F22_sense is the situation: the second database adds a sense of an unselected lexicon to a selected entry, pointing to another selected synset) *)
Theorem C04_find_synsets_forms_frame_In :
  forall (d1 d2 : db) (ids : list Z) (id : option str) (forms : list str)
           (pos ili : option str) (norm saf : bool) (q : q_synset),
         ids <> [] ->
         db_ok d1 = true ->
         db_ok d2 = true ->
         agree_senses d1 d2 ids ->
         agree_sense_forms d1 d2 ids ->
         agree_synsets d1 d2 ids ->
         In q (find_synsets d1 id forms pos ili ids norm saf) <->
         In q (find_synsets d2 id forms pos ili ids norm saf).
Proof. exact (@find_synsets_forms_frame_In). Qed.
Print Assumptions C04_find_synsets_forms_frame_In.

Theorem C04_find_synsets_forms_frame :
  forall (d1 d2 : db) (ids : list Z) (id : option str) (forms : list str)
           (pos ili : option str) (norm saf : bool),
         ids <> [] ->
         db_ok d1 = true ->
         db_ok d2 = true ->
         agree_senses d1 d2 ids ->
         agree_sense_forms d1 d2 ids ->
         agree_synsets d1 d2 ids ->
         agree_relevant_forms d1 d2 ids ->
         find_synsets d1 id forms pos ili ids norm saf =
         find_synsets d2 id forms pos ili ids norm saf.
Proof. exact (@find_synsets_forms_frame). Qed.
Print Assumptions C04_find_synsets_forms_frame.

Theorem C04_agree_relevant_sense_forms :
  forall (d1 d2 : db) (ids : list Z),
         agree_relevant_forms d1 d2 ids -> agree_sense_forms d1 d2 ids.
Proof. exact (@agree_relevant_sense_forms). Qed.
Print Assumptions C04_agree_relevant_sense_forms.

Theorem C04_ex_distinct :
  ex_d1 <> ex_d2.
Proof. exact (@ex_distinct). Qed.
Print Assumptions C04_ex_distinct.

Theorem C04_ex_F22_sense :
  exists (s : sense_row) (e : entry_row) (ss : synset_row),
           In s (t_senses ex_d2) /\
           ~ In s (t_senses ex_d1) /\
           sel ex_ids (se_lexicon_rowid s) = false /\
           find_by en_rowid (se_entry_rowid s) (t_entries ex_d2) = Some e /\
           sel ex_ids (en_lexicon_rowid e) = true /\
           find_by sy_rowid (se_synset_rowid s) (t_synsets ex_d2) = Some ss /\
           sel ex_ids (sy_lexicon_rowid ss) = true /\ sy_rowid ss = 2.
Proof. exact (@ex_F22_sense). Qed.
Print Assumptions C04_ex_F22_sense.

Theorem C04_ex_results :
  find_synsets ex_d1 None [S_ "a"] None None ex_ids false false =
         find_synsets ex_d2 None [S_ "a"] None None ex_ids false false /\
         find_synsets ex_d2 None [S_ "a"] None None ex_ids false false =
         [{|
            qy_id := S_ "ss1"; qy_pos := Some (S_ "n"); qy_ili := None; qy_lexid := 1; qy_rowid := 1
          |}].
Proof. exact (@ex_results). Qed.
Print Assumptions C04_ex_results.

Theorem C04_ex_results_all_lexicons :
  Datatypes.length (find_synsets ex_d1 None [S_ "a"] None None [1; 2] false false) = 1%nat /\
         Datatypes.length (find_synsets ex_d2 None [S_ "a"] None None [1; 2] false false) = 3%nat.
Proof. exact (@ex_results_all_lexicons). Qed.
Print Assumptions C04_ex_results_all_lexicons.

Theorem C04_ex_frame_instance :
  forall (id : option str) (forms : list str) (pos ili : option str)
           (norm saf : bool) (q : q_synset),
         In q (find_synsets ex_d1 id forms pos ili ex_ids norm saf) <->
         In q (find_synsets ex_d2 id forms pos ili ex_ids norm saf).
Proof. exact (@ex_frame_instance). Qed.
Print Assumptions C04_ex_frame_instance.

Theorem C04_ex_frame_eq_instance :
  forall (id : option str) (forms : list str) (pos ili : option str) (norm saf : bool),
         find_synsets ex_d1 id forms pos ili ex_ids norm saf =
         find_synsets ex_d2 id forms pos ili ex_ids norm saf.
Proof. exact (@ex_frame_eq_instance). Qed.
Print Assumptions C04_ex_frame_eq_instance.

Theorem C04_ex_order_needed :
  db_ok ex_o1 = true /\
         db_ok ex_o2 = true /\
         agree_senses ex_o1 ex_o2 ex_ids /\
         agree_sense_forms ex_o1 ex_o2 ex_ids /\
         agree_synsets ex_o1 ex_o2 ex_ids /\
         map qy_rowid (find_synsets ex_o1 None [S_ "a"] None None ex_ids false false) = [1; 2] /\
         map qy_rowid (find_synsets ex_o2 None [S_ "a"] None None ex_ids false false) = [2; 1] /\
         ~ agree_relevant_forms ex_o1 ex_o2 ex_ids.
Proof. exact (@ex_order_needed). Qed.
Print Assumptions C04_ex_order_needed.

Require Import WnV.Proofs.F14Witness.
(* ---- known finding F14 as a machine-checked witness (Proofs/F14Witness.v): f14_db0 holds a base lexicon (1), f14_db the same plus an extension (2) that adds the form "runned" to base entry 1; the two agree on every row of lexicon 1, yet a search for "runned" restricted to lexicon 1 finds the base entry, its sense and its synset on f14_db and nothing on f14_db0 (the leaked entry even lists the foreign form); lemma-only search does not leak; the hypothesis of the frame theorems that F14 violates is exactly agree_sense_forms — the other hypotheses hold *)
Theorem C04_f14_db_ok :
  db_ok f14_db = true /\ db_ok f14_db0 = true.
Proof. exact (@f14_db_ok). Qed.
Print Assumptions C04_f14_db_ok.

Theorem C04_f14_same_rows :
  f14_same_lexicon1_rows f14_db0 f14_db.
Proof. exact (@f14_same_rows). Qed.
Print Assumptions C04_f14_same_rows.

Theorem C04_f14_find_entries_leak :
  find_entries f14_db None [S_ "runned"] None [1] false true =
         [{|
            qw_id := S_ "e1";
            qw_pos := S_ "n";
            qw_forms :=
              [{| qf_form := S_ "run"; qf_id := None; qf_script := None; qf_rowid := 1 |};
               {| qf_form := S_ "runned"; qf_id := None; qf_script := None; qf_rowid := 2 |}];
            qw_lexid := 1;
            qw_rowid := 1
          |}] /\
         find_entries f14_db None [S_ "runned"] None [1] false true <> [] /\
         find_entries f14_db0 None [S_ "runned"] None [1] false true = [] /\
         f14_same_lexicon1_rows f14_db0 f14_db.
Proof. exact (@f14_find_entries_leak). Qed.
Print Assumptions C04_f14_find_entries_leak.

Theorem C04_f14_find_senses_leak :
  find_senses f14_db None [S_ "runned"] None [1] false true =
         [{|
            qs_id := S_ "s1";
            qs_entry_id := S_ "e1";
            qs_synset_id := S_ "ss1";
            qs_lexid := 1;
            qs_rowid := 1
          |}] /\
         find_senses f14_db None [S_ "runned"] None [1] false true <> [] /\
         find_senses f14_db0 None [S_ "runned"] None [1] false true = [] /\
         f14_same_lexicon1_rows f14_db0 f14_db.
Proof. exact (@f14_find_senses_leak). Qed.
Print Assumptions C04_f14_find_senses_leak.

Theorem C04_f14_find_synsets_leak :
  find_synsets f14_db None [S_ "runned"] None None [1] false true =
         [{|
            qy_id := S_ "ss1"; qy_pos := Some (S_ "n"); qy_ili := None; qy_lexid := 1; qy_rowid := 1
          |}] /\
         find_synsets f14_db None [S_ "runned"] None None [1] false true <> [] /\
         find_synsets f14_db0 None [S_ "runned"] None None [1] false true = [] /\
         f14_same_lexicon1_rows f14_db0 f14_db.
Proof. exact (@f14_find_synsets_leak). Qed.
Print Assumptions C04_f14_find_synsets_leak.

Theorem C04_f14_lemma_only_no_leak :
  find_entries f14_db None [S_ "runned"] None [1] false false = [] /\
         find_senses f14_db None [S_ "runned"] None [1] false false = [] /\
         find_synsets f14_db None [S_ "runned"] None None [1] false false = [].
Proof. exact (@f14_lemma_only_no_leak). Qed.
Print Assumptions C04_f14_lemma_only_no_leak.

Theorem C04_f14_frame_hypothesis_fails :
  ~ agree_sense_forms f14_db0 f14_db [1].
Proof. exact (@f14_frame_hypothesis_fails). Qed.
Print Assumptions C04_f14_frame_hypothesis_fails.

Theorem C04_f14_other_frame_hypotheses_hold :
  [1] <> [] /\ agree_senses f14_db0 f14_db [1] /\ agree_synsets f14_db0 f14_db [1].
Proof. exact (@f14_other_frame_hypotheses_hold). Qed.
Print Assumptions C04_f14_other_frame_hypotheses_hold.
