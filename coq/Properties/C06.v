(* Properties/C06.v — a failed add or remove leaves the database exactly as it was.
   Statements only; proofs in Proofs/Txn.v.  The model is the transaction behaviour of
   the sqlite3 connection (`with conn:`): add_lexical_resource runs all its statements in
   ONE block, remove one block per matched lexicon — this shape is checked against the
   statement trace of the real code on every run (harness/props/C06.py). *)
From Coq Require Import List Bool.
Import ListNotations.
Require Import WnV.Model.Txn WnV.Proofs.Txn.

(* (1) an exception at ANY point of the block (progress handler, wn.Error, a failing statement):
   nothing is committed, no transaction stays open, the connection can be used again *)
Theorem C06_failure_is_atomic : forall (db : Type) (c : conn db) evs,
    snd (with_conn c evs) = true ->
    committed (fst (with_conn c evs)) = committed c
    /\ working (fst (with_conn c evs)) = committed c
    /\ in_txn (fst (with_conn c evs)) = false.
Proof. exact with_conn_raise_atomic. Qed.
Print Assumptions C06_failure_is_atomic.

(* (2) for every statement sequence and every failure point k *)
Theorem C06_fail_at_any_point : forall (db : Type) (d : db) evs k,
    committed (fst (with_conn (idle d) (firstn k evs ++ [PyRaise]))) = d.
Proof. exact fail_at_k_unchanged. Qed.
Print Assumptions C06_fail_at_any_point.

Theorem C06_failing_statement : forall (db : Type) (d : db) pre post,
    committed (fst (with_conn (idle d) (pre ++ Dml (fun _ => None) :: post))) = d
    /\ snd (with_conn (idle d) (pre ++ Dml (fun _ => None) :: post)) = true
    \/ snd (run_body (idle d) pre) = true.
Proof. exact failing_statement_unchanged. Qed.
Print Assumptions C06_failing_statement.

(* (3) after success or failure the connection is idle: a following add behaves as on a fresh connection *)
Theorem C06_connection_reusable : forall (db : Type) (c : conn db) evs,
    in_txn (fst (with_conn c evs)) = false
    /\ working (fst (with_conn c evs)) = committed (fst (with_conn c evs)).
Proof. exact with_conn_idle_after. Qed.
Print Assumptions C06_connection_reusable.

Theorem C06_success_commits : forall (db : Type) (c : conn db) evs,
    snd (with_conn c evs) = false ->
    committed (fst (with_conn c evs)) = working (fst (run_body c evs)).
Proof. exact with_conn_ok_commits. Qed.
Print Assumptions C06_success_commits.

(* (4) an interrupted removal: what is committed is the result of a prefix of the per-lexicon
   blocks, each complete — the interrupted lexicon (and its extensions, deleted in the same
   block) is fully intact *)
Theorem C06_remove_per_lexicon : forall (db : Type) blocks (c : conn db),
    in_txn c = false -> working c = committed c ->
    exists m, m <= length blocks
              /\ committed (fst (with_each c blocks)) = committed (fst (with_each c (firstn m blocks)))
              /\ snd (with_each c (firstn m blocks)) = false.
Proof. exact with_each_prefix. Qed.
Print Assumptions C06_remove_per_lexicon.

Example C06_nonvacuous :
  committed (fst (with_conn (idle 0) [Dml (fun d => Some (d + 1)); PyRaise; Dml (fun d => Some (d + 5))])) = 0
  /\ committed (fst (with_conn (idle 0) [Dml (fun d => Some (d + 1)); Read; Dml (fun d => Some (d + 5))])) = 6
  /\ committed (fst (with_each (idle 0) [[Dml (fun d => Some (d + 1))]; [Dml (fun d => Some (d + 10)); PyRaise]])) = 1.
Proof. vm_compute. repeat split; reflexivity. Qed.
Print Assumptions C06_nonvacuous.
