(* Properties/C06.v — a failed add or remove leaves the database exactly as it was.
   Statements only; proofs in Proofs/Txn.v.  The model is the transaction behaviour of
   the sqlite3 connection (`with conn:`): add_lexical_resource runs all its statements in
   ONE block, remove one block per matched lexicon — this shape is checked against the
   statement trace of the real code on every run (harness/props/C06.py). *)
From Coq Require Import List Bool.
Import ListNotations.
Require Import WnV.Model.Txn WnV.Proofs.Txn.

(* (1) an exception at ANY point of the block (progress handler, wn.Error, a failing statement):
   nothing is committed, no transaction stays open, the connection can be used again *)
Theorem C06_failure_is_atomic : forall (db : Type) (c : conn db) evs,
    snd (with_conn c evs) = true ->
    committed (fst (with_conn c evs)) = committed c
    /\ working (fst (with_conn c evs)) = committed c
    /\ in_txn (fst (with_conn c evs)) = false.
Proof. exact with_conn_raise_atomic. Qed.
Print Assumptions C06_failure_is_atomic.

(* (2) for every statement sequence and every failure point k *)
Theorem C06_fail_at_any_point : forall (db : Type) (d : db) evs k,
    committed (fst (with_conn (idle d) (firstn k evs ++ [PyRaise]))) = d.
Proof. exact fail_at_k_unchanged. Qed.
Print Assumptions C06_fail_at_any_point.

Theorem C06_failing_statement : forall (db : Type) (d : db) pre post,
    committed (fst (with_conn (idle d) (pre ++ Dml (fun _ => None) :: post))) = d
    /\ snd (with_conn (idle d) (pre ++ Dml (fun _ => None) :: post)) = true
    \/ snd (run_body (idle d) pre) = true.
Proof. exact failing_statement_unchanged. Qed.
Print Assumptions C06_failing_statement.

(* (3) after success or failure the connection is idle: a following add behaves as on a fresh connection *)
Theorem C06_connection_reusable : forall (db : Type) (c : conn db) evs,
    in_txn (fst (with_conn c evs)) = false
    /\ working (fst (with_conn c evs)) = committed (fst (with_conn c evs)).
Proof. exact with_conn_idle_after. Qed.
Print Assumptions C06_connection_reusable.

Theorem C06_success_commits : forall (db : Type) (c : conn db) evs,
    snd (with_conn c evs) = false ->
    committed (fst (with_conn c evs)) = working (fst (run_body c evs)).
Proof. exact with_conn_ok_commits. Qed.
Print Assumptions C06_success_commits.

(* (4) an interrupted removal: what is committed is the result of a prefix of the per-lexicon
   blocks, each complete — the interrupted lexicon (and its extensions, deleted in the same
   block) is fully intact *)
Theorem C06_remove_per_lexicon : forall (db : Type) blocks (c : conn db),
    in_txn c = false -> working c = committed c ->
    exists m, m <= length blocks
              /\ committed (fst (with_each c blocks)) = committed (fst (with_each c (firstn m blocks)))
              /\ snd (with_each c (firstn m blocks)) = false.
Proof. exact with_each_prefix. Qed.
Print Assumptions C06_remove_per_lexicon.

Example C06_nonvacuous :
  committed (fst (with_conn (idle 0) [Dml (fun d => Some (d + 1)); PyRaise; Dml (fun d => Some (d + 5))])) = 0
  /\ committed (fst (with_conn (idle 0) [Dml (fun d => Some (d + 1)); Read; Dml (fun d => Some (d + 5))])) = 6
  /\ committed (fst (with_each (idle 0) [[Dml (fun d => Some (d + 1))]; [Dml (fun d => Some (d + 10)); PyRaise]])) = 1.
Proof. vm_compute. repeat split; reflexivity. Qed.
Print Assumptions C06_nonvacuous.

(* ------------------------------------------------------------------------------------------------ *)
From Coq Require Import String.
From Coq Require Import ZArith List Bool.
Import ListNotations.
Require Import WnV.Base.Sx WnV.Gen.Schema WnV.Gen.Constants WnV.Model.Spec WnV.Model.Val.
Require Import WnV.Model.Rel WnV.Model.Add WnV.Proofs.AddProofs.
Require Import WnV.Proofs.AddContent WnV.Proofs.AddRemove WnV.Proofs.AddRejects.
Local Open Scope Z_scope.
Local Open Scope string_scope.

(* ---- which resources fail (model of wn._add, Model/Add.v; its result type carries no database on failure, so nothing of a failed add can be stored): a sense naming a synset that is not declared (validator code E204), a relation whose target is unknown (E401), two entries of one lexicon with the same id; and a fault in ANY lexicon of a resource fails the whole call (no partial result).  [Wf]/[Wfb] = rowids unique and NOT NULL/CHECK constraints hold, [UqDb] = the UNIQUE indexes of the schema hold (both preserved by add) *)
Theorem C06_unknown_synset_rejected :
  forall (nt : normtable) (L : val) (d : db) (e s : val),
         Wf d ->
         In e (_entries L) ->
         In s (_local_senses (_senses e)) ->
         synset_defined L (pcell (preq s "synset")) = false ->
         synset_in_db d (pcell (preq s "synset")) = false ->
         forall d' : db, add_one_lexicon nt L d <> Ok d'.
Proof. exact (@unknown_synset_rejected). Qed.
Print Assumptions C06_unknown_synset_rejected.

Theorem C06_unknown_synset_rejected_nonext :
  forall (nt : normtable) (L : val) (d : db) (e s : val),
         fk_ok d = true ->
         Wf d ->
         vtruthy (vgetk L "extends") = false ->
         In e (_entries L) ->
         In s (_local_senses (_senses e)) ->
         synset_defined L (pcell (preq s "synset")) = false ->
         forall d' : db, add_one_lexicon nt L d <> Ok d'.
Proof. exact (@unknown_synset_rejected_nonext). Qed.
Print Assumptions C06_unknown_synset_rejected_nonext.

Theorem C06_unknown_synset_relation_target_rejected :
  forall (nt : normtable) (L : val) (d : db) (ss rel : val),
         Wf d ->
         In ss (_synsets L) ->
         In rel (vlistk ss "relations") ->
         synset_defined L (pcell (preq rel "target")) = false ->
         synset_in_db d (pcell (preq rel "target")) = false ->
         forall d' : db, add_one_lexicon nt L d <> Ok d'.
Proof. exact (@unknown_synset_relation_target_rejected). Qed.
Print Assumptions C06_unknown_synset_relation_target_rejected.

Theorem C06_unknown_sense_relation_target_rejected :
  forall L e s rel tg : val,
         In e (_entries L) ->
         In s (_senses e) ->
         In rel (vlistk s "relations") ->
         vreq rel "target" = Ok tg ->
         target_known L tg = false ->
         forall (lexid : Z) (m : lexidmap_t) (d d' : db),
         _insert_sense_relations L lexid m d <> Ok d'.
Proof. exact (@unknown_sense_relation_target_rejected). Qed.
Print Assumptions C06_unknown_sense_relation_target_rejected.

Theorem C06_unknown_sense_relation_target_rejected_add :
  forall (nt : normtable) (L : val) (d : db) (e s rel tg : val),
         In e (_entries L) ->
         In s (_senses e) ->
         In rel (vlistk s "relations") ->
         vreq rel "target" = Ok tg ->
         target_known L tg = false -> forall d' : db, add_one_lexicon nt L d <> Ok d'.
Proof. exact (@unknown_sense_relation_target_rejected_add). Qed.
Print Assumptions C06_unknown_sense_relation_target_rejected_add.

Theorem C06_duplicate_entry_rejected :
  forall (nt : normtable) (L : val) (d : db) (l1 : list val) (e1 : val)
           (l2 : list val) (e2 : val) (l3 : list val) (x : str),
         UqDb d ->
         _local_entries (_entries L) = (l1 ++ e1 :: l2 ++ e2 :: l3)%list ->
         vreq e1 "id" = Ok (VStr x) ->
         vreq e2 "id" = Ok (VStr x) -> forall d' : db, add_one_lexicon nt L d <> Ok d'.
Proof. exact (@duplicate_entry_rejected). Qed.
Print Assumptions C06_duplicate_entry_rejected.

Theorem C06_reject_single :
  forall (d : db) (r : val) (nt : normtable) (L : val) (skipmap : skipmap_t),
         vreq r "lexicons" = Ok (VList [L]) ->
         _precheck [L] d = Ok skipmap ->
         not_skipped skipmap L = true ->
         (forall d' : db, add_one_lexicon nt L d <> Ok d') ->
         forall d' : db, add_lexical_resource d r nt <> Ok d'.
Proof. exact (@reject_single). Qed.
Print Assumptions C06_reject_single.

Theorem C06_reject_multi :
  forall (d : db) (r : val) (nt : normtable) (pre : list val) (L : val)
           (post : list val) (skipmap : skipmap_t) (d1 : db),
         vreq r "lexicons" = Ok (VList (pre ++ L :: post)) ->
         _precheck (pre ++ L :: post) d = Ok skipmap ->
         not_skipped skipmap L = true ->
         foldM (lex_step nt skipmap) pre d = Ok d1 ->
         (forall d2 : db, add_one_lexicon nt L d1 <> Ok d2) ->
         forall d' : db, add_lexical_resource d r nt <> Ok d'.
Proof. exact (@reject_multi). Qed.
Print Assumptions C06_reject_multi.

Theorem C06_reject_multi_any_db :
  forall (d : db) (r : val) (nt : normtable) (pre : list val) (L : val)
           (post : list val) (skipmap : skipmap_t),
         vreq r "lexicons" = Ok (VList (pre ++ L :: post)) ->
         _precheck (pre ++ L :: post) d = Ok skipmap ->
         not_skipped skipmap L = true ->
         (forall d1 d2 : db, add_one_lexicon nt L d1 <> Ok d2) ->
         forall d' : db, add_lexical_resource d r nt <> Ok d'.
Proof. exact (@reject_multi_any_db). Qed.
Print Assumptions C06_reject_multi_any_db.

Theorem C06_add_unknown_synset_fails :
  forall (d : db) (r : val) (nt : normtable) (L : val) (i v : str) (e s : val),
         vreq r "lexicons" = Ok (VList [L]) ->
         vreq L "id" = Ok (VStr i) ->
         vreq L "version" = Ok (VStr v) ->
         vtruthy (vgetk L "extends") = false ->
         is_null (LEXICON_QUERY d (CText i) (CText v)) = true ->
         fk_ok d = true ->
         Wfb d = true ->
         In e (_entries L) ->
         In s (_local_senses (_senses e)) ->
         synset_defined L (pcell (preq s "synset")) = false ->
         forall d' : db, add_lexical_resource d r nt <> Ok d'.
Proof. exact (@add_unknown_synset_fails). Qed.
Print Assumptions C06_add_unknown_synset_fails.

Theorem C06_add_duplicate_entry_fails :
  forall (d : db) (r : val) (nt : normtable) (L : val) (i v : str)
           (l1 : list val) (e1 : val) (l2 : list val) (e2 : val) (l3 : list val)
           (x : str),
         vreq r "lexicons" = Ok (VList [L]) ->
         vreq L "id" = Ok (VStr i) ->
         vreq L "version" = Ok (VStr v) ->
         vtruthy (vgetk L "extends") = false ->
         is_null (LEXICON_QUERY d (CText i) (CText v)) = true ->
         UqDbb d = true ->
         _local_entries (_entries L) = (l1 ++ e1 :: l2 ++ e2 :: l3)%list ->
         vreq e1 "id" = Ok (VStr x) ->
         vreq e2 "id" = Ok (VStr x) -> forall d' : db, add_lexical_resource d r nt <> Ok d'.
Proof. exact (@add_duplicate_entry_fails). Qed.
Print Assumptions C06_add_duplicate_entry_fails.

(* ---- witnesses on concrete resources, with the error class the model returns (IntegrityError / wn.Error), and what is NOT rejected by the faithful model: duplicate synset or sense ids (the schema has no UNIQUE index on them; the validator reports E101), the same entry id in another lexicon *)
Theorem C06_ex_unknown_synset :
  verdict (lx "q1" [ent "e" [sen "s" "nosuch" []]] [syn "y" "" []]) = -5.
Proof. exact (@ex_unknown_synset). Qed.
Print Assumptions C06_ex_unknown_synset.

Theorem C06_ex_unknown_sense_relation_target :
  verdict
           (lx "q2" [ent "e" [sen "s" "y" [("relations", VList [rel "nowhere" "also"])]]]
              [syn "y" "" []]) = -1.
Proof. exact (@ex_unknown_sense_relation_target). Qed.
Print Assumptions C06_ex_unknown_sense_relation_target.

Theorem C06_ex_unknown_synset_relation_target :
  verdict
           (lx "q3" [ent "e" [sen "s" "y" []]]
              [syn "y" "" [("relations", VList [rel "nowhere" "hypernym"])]]) = -5.
Proof. exact (@ex_unknown_synset_relation_target). Qed.
Print Assumptions C06_ex_unknown_synset_relation_target.

Theorem C06_ex_duplicate_entry :
  verdict (lx "q4" [ent "e" [sen "s" "y" []]; ent "e" [sen "s2" "y" []]] [syn "y" "" []]) = -5.
Proof. exact (@ex_duplicate_entry). Qed.
Print Assumptions C06_ex_duplicate_entry.

Theorem C06_ex_duplicate_synset_tolerated :
  verdict (lx "q5" [ent "e" [sen "s" "y" []]] [syn "y" "" []; syn "y" "" []]) = 1 /\
         table_uniques "synsets" = [] /\ table_uniques "senses" = [].
Proof. exact (@ex_duplicate_synset_tolerated). Qed.
Print Assumptions C06_ex_duplicate_synset_tolerated.

Theorem C06_ex_duplicate_sense_tolerated :
  verdict (lx "q6" [ent "e" [sen "s" "y" []; sen "s" "y" []]] [syn "y" "" []]) = 1.
Proof. exact (@ex_duplicate_sense_tolerated). Qed.
Print Assumptions C06_ex_duplicate_sense_tolerated.

Theorem C06_ex_same_entry_id_other_lexicon :
  verdict (lx "q9" [ent "e1" [sen "s" "y" []]] [syn "y" "" []]) = 1.
Proof. exact (@ex_same_entry_id_other_lexicon). Qed.
Print Assumptions C06_ex_same_entry_id_other_lexicon.

Theorem C06_ex_db2_wf :
  fk_ok ex_db2 = true /\ Wfb ex_db2 = true /\ UqDbb ex_db2 = true.
Proof. exact (@ex_db2_wf). Qed.
Print Assumptions C06_ex_db2_wf.

