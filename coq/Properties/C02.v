(* Properties/C02.v — placeholder until Model/Lmf.v and its round-trip theorems are assembled. *)
From Coq Require Import ZArith List.
Import ListNotations.
Require Import WnV.Base.Sx WnV.Model.Val.
Definition Sz_str : str := [105; 100]%Z.
Example C02_val_wire_roundtrip :
  val_of_sx (sx_of_val (VDict [(Sz_str, VList [VInt 3%Z; VNone; VBool true])])) = VDict [(Sz_str, VList [VInt 3%Z; VNone; VBool true])].
Proof. vm_compute. reflexivity. Qed.
Print Assumptions C02_val_wire_roundtrip.
