(* Properties/C02.v — WN-LMF load/dump is a lossless round trip (models: Model/XmlText.v = the serialisers of CPython that wn.lmf.dump uses
   (ElementTree _escape_attrib/_escape_cdata, xml.sax.saxutils.quoteattr) and what an XML parser makes of their output
   (xml_attr_value, xml_char_data: reference decoding, attribute-value and end-of-line normalisation per the XML
   recommendation); Model/Lmf.v = wn.lmf dump and load).  [expat_view] turns the element tree dump builds into the tree expat
   reports for its serialisation; nf_K are the normal forms of the loader's dictionaries (image of load after dump).
   Statements only: every theorem is closed by `exact` of a lemma proved under Proofs/, followed by
   Print Assumptions.  (Statement texts were printed by Coq from the proved lemmas by harness/mkprops.py and are
   fixed from then on.) *)
From Coq Require Import String.
From Coq Require Import ZArith List Bool.
Import ListNotations.
Require Import WnV.Base.Sx WnV.Gen.LmfTables WnV.Model.Val WnV.Model.XmlText WnV.Model.Lmf.
Require Import WnV.Proofs.XmlTextProofs WnV.Proofs.LmfProofs.
Require Import WnV.Proofs.LmfRoundTrip.
Local Open Scope Z_scope.

(* ---- strings: every attribute value and every text survives serialisation and parsing, character for character (all code points, including quotes, <, &, tabs, newlines, CR) *)
Theorem C02_attr_roundtrip_ET_all :
  forall s : str, xml_attr_value (escape_attrib s) = s.
Proof. exact (@attr_roundtrip_ET_all). Qed.
Print Assumptions C02_attr_roundtrip_ET_all.

Theorem C02_attr_roundtrip_quoteattr_all :
  forall s : str,
         exists inner : str,
           unquote (quoteattr s) = Some inner /\ zin c_lt inner = false /\ xml_attr_value inner = s.
Proof. exact (@attr_roundtrip_quoteattr_all). Qed.
Print Assumptions C02_attr_roundtrip_quoteattr_all.

Theorem C02_escape_attrib_wellformed :
  forall s : str, zin c_quot (escape_attrib s) = false /\ zin c_lt (escape_attrib s) = false.
Proof. exact (@escape_attrib_wellformed). Qed.
Print Assumptions C02_escape_attrib_wellformed.

Theorem C02_text_roundtrip_exact :
  forall s : str, zin c_cr s = false -> xml_char_data (escape_cdata s) = s.
Proof. exact (@text_roundtrip_exact). Qed.
Print Assumptions C02_text_roundtrip_exact.

Theorem C02_text_roundtrip_eol :
  forall s : str, xml_char_data (escape_cdata s) = normalize_eol s.
Proof. exact (@text_roundtrip_eol). Qed.
Print Assumptions C02_text_roundtrip_eol.

Theorem C02_text_roundtrip_all :
  forall s : str, norm_ws (xml_char_data (escape_cdata s)) = norm_ws s.
Proof. exact (@text_roundtrip_all). Qed.
Print Assumptions C02_text_roundtrip_all.

Theorem C02_text_roundtrip :
  forall s : str,
         xml_chars s = true -> norm_ws s = s -> norm_ws (xml_char_data (escape_cdata s)) = s.
Proof. exact (@text_roundtrip). Qed.
Print Assumptions C02_text_roundtrip.

Theorem C02_escape_cdata_wellformed :
  forall s : str, zin c_lt (escape_cdata s) = false.
Proof. exact (@escape_cdata_wellformed). Qed.
Print Assumptions C02_escape_cdata_wellformed.

Theorem C02_norm_ws_idempotent :
  forall s : str, norm_ws (norm_ws s) = norm_ws s.
Proof. exact (@norm_ws_idempotent). Qed.
Print Assumptions C02_norm_ws_idempotent.

Theorem C02_norm_ws_normalize_eol :
  forall s : str, norm_ws (normalize_eol s) = norm_ws s.
Proof. exact (@norm_ws_normalize_eol). Qed.
Print Assumptions C02_norm_ws_normalize_eol.

(* ---- the header dump writes is the header load accepts, for the version asked for *)
Theorem C02_dump_header_accepted :
  forall (version : str) (resource : val) (text : str),
         dump version resource = Ok text ->
         exists line1 line2 rest : list Z,
           text = line1 ++ [c_nl] ++ line2 ++ [c_nl] ++ rest /\
           read_header (line1 ++ [c_nl]) (line2 ++ [c_nl]) = Ok version.
Proof. exact (@dump_header_accepted). Qed.
Print Assumptions C02_dump_header_accepted.

Theorem C02_supported_iff :
  forall v : str,
         (exists l1 l2 : str, read_header l1 l2 = Ok v) <-> str_mem v supported_versions = true.
Proof. exact (@supported_iff). Qed.
Print Assumptions C02_supported_iff.

(* ---- the round trip, element kind by element kind: for a dictionary d in the normal form of its kind, the element dump builds for it is parsed and validated back into exactly d (exact equality incl. key order), at every indentation level; [iview]/[expat_view] = what expat reports for the serialised element *)
Theorem C02_tag_roundtrip :
  forall (version : str) (d : val) (x : xml),
         supported version = true ->
         nf_tag d = true ->
         _build_tag d = Ok x ->
         (do p <- parse_elem version (expat_view version x); validate_tag p) = Ok d.
Proof. exact (@tag_roundtrip). Qed.
Print Assumptions C02_tag_roundtrip.

Theorem C02_pron_roundtrip :
  forall (version : str) (d : val) (x : xml),
         v11 version = true ->
         nf_pron d = true ->
         _build_pronunciation d = Ok x ->
         (do p <- parse_elem version (expat_view version x); validate_pron p) = Ok d.
Proof. exact (@pron_roundtrip). Qed.
Print Assumptions C02_pron_roundtrip.

Theorem C02_dep_roundtrip :
  forall (version deptype : str) (d : val) (x : xml),
         v11 version = true ->
         is_dep_tag deptype = true ->
         nf_dep d = true ->
         dep_xml d deptype = Ok x -> parse_elem version (expat_view version x) = Ok d.
Proof. exact (@dep_roundtrip). Qed.
Print Assumptions C02_dep_roundtrip.

Theorem C02_sb10_roundtrip :
  forall (version : str) (v : list Z) (d : val) (x : xml),
         supported version = true ->
         ge_1_1 v = false ->
         nf_sb10 d = true ->
         _build_syntactic_behaviour d v = Ok x ->
         (do p <- parse_elem version (expat_view version x); _validate_frame p) = Ok d.
Proof. exact (@sb10_roundtrip). Qed.
Print Assumptions C02_sb10_roundtrip.

Theorem C02_sb11_roundtrip :
  forall (version : str) (v : list Z) (d : val) (x : xml),
         supported version = true ->
         ge_1_1 v = true ->
         nf_sb11 d = true ->
         _build_syntactic_behaviour d v = Ok x ->
         (do p <- parse_elem version (expat_view version x); _validate_frame p) = Ok d.
Proof. exact (@sb11_roundtrip). Qed.
Print Assumptions C02_sb11_roundtrip.

Theorem C02_example_roundtrip :
  forall (version : str) (d : val) (x : xml),
         supported version = true ->
         nf_example d = true ->
         _build_example d = Ok x ->
         (do p <- parse_elem version (expat_view version x); validate_text_meta p) = Ok d.
Proof. exact (@example_roundtrip). Qed.
Print Assumptions C02_example_roundtrip.

Theorem C02_definition_roundtrip :
  forall (version : str) (d : val) (x : xml),
         supported version = true ->
         nf_definition d = true ->
         _build_definition d = Ok x ->
         (do p <- parse_elem version (expat_view version x); validate_text_meta p) = Ok d.
Proof. exact (@definition_roundtrip). Qed.
Print Assumptions C02_definition_roundtrip.

Theorem C02_ilidef_roundtrip :
  forall (version : str) (d : val) (x : xml),
         supported version = true ->
         nf_ilidef d = true ->
         _build_ili_definition d = Ok x -> parse_elem version (expat_view version x) = Ok d.
Proof. exact (@ilidef_roundtrip). Qed.
Print Assumptions C02_ilidef_roundtrip.

Theorem C02_relation_roundtrip :
  forall (version elemtype : str) (d : val) (x : xml),
         supported version = true ->
         is_rel_tag elemtype = true ->
         nf_relation d = true ->
         _build_relation d elemtype = Ok x ->
         (do p <- parse_elem version (expat_view version x); validate_relation p) = Ok d.
Proof. exact (@relation_roundtrip). Qed.
Print Assumptions C02_relation_roundtrip.

Theorem C02_count_roundtrip :
  forall (version : str) (d : val) (x : xml),
         supported version = true ->
         nf_count d = true ->
         _build_count d = Ok x ->
         (do p <- parse_elem version (expat_view version x); validate_count p) = Ok d.
Proof. exact (@count_roundtrip). Qed.
Print Assumptions C02_count_roundtrip.

Theorem C02_lemma_roundtrip :
  forall (version : str) (v : list Z) (level : nat) (ext : bool) (d : val) (x : xml),
         supported version = true ->
         ge_1_1 v = v11 version ->
         nf_lemma (v11 version) d = true ->
         _build_lemma d v = Ok x ->
         (do p <- parse_elem version (iview version level x); _validate_form ext p) = Ok d.
Proof. exact (@lemma_roundtrip). Qed.
Print Assumptions C02_lemma_roundtrip.

Theorem C02_xlemma_roundtrip :
  forall (version : str) (v : list Z) (level : nat) (d : val) (x : xml),
         v11 version = true ->
         ge_1_1 v = true ->
         nf_xlemma d = true ->
         _build_lemma d v = Ok x ->
         (do p <- parse_elem version (iview version level x); _validate_form true p) = Ok d.
Proof. exact (@xlemma_roundtrip). Qed.
Print Assumptions C02_xlemma_roundtrip.

Theorem C02_form_roundtrip :
  forall (version : str) (v : list Z) (level : nat) (ext : bool) (d : val) (x : xml),
         supported version = true ->
         ge_1_1 v = v11 version ->
         nf_form (v11 version) d = true ->
         _build_form d v = Ok x ->
         (do p <- parse_elem version (iview version level x); _validate_form ext p) = Ok d.
Proof. exact (@form_roundtrip). Qed.
Print Assumptions C02_form_roundtrip.

Theorem C02_xform_roundtrip :
  forall (version : str) (v : list Z) (level : nat) (d : val) (x : xml),
         v11 version = true ->
         ge_1_1 v = true ->
         nf_xform d = true ->
         _build_form d v = Ok x ->
         (do p <- parse_elem version (iview version level x); _validate_form true p) = Ok d.
Proof. exact (@xform_roundtrip). Qed.
Print Assumptions C02_xform_roundtrip.

Theorem C02_sense_roundtrip :
  forall (version : str) (v : list Z) (level : nat) (ext : bool) (d : val) (x : xml),
         supported version = true ->
         ge_1_1 v = v11 version ->
         nf_sense (v11 version) d = true ->
         _build_sense d v = Ok x ->
         (do p <- parse_elem version (iview version level x); _validate_sense ext p) = Ok d.
Proof. exact (@sense_roundtrip). Qed.
Print Assumptions C02_sense_roundtrip.

Theorem C02_xsense_roundtrip :
  forall (version : str) (v : list Z) (level : nat) (d : val) (x : xml),
         supported version = true ->
         nf_xsense d = true ->
         _build_sense d v = Ok x ->
         (do p <- parse_elem version (iview version level x); _validate_sense true p) = Ok d.
Proof. exact (@xsense_roundtrip). Qed.
Print Assumptions C02_xsense_roundtrip.

Theorem C02_synset_roundtrip :
  forall (version : str) (v : list Z) (level : nat) (ext : bool) (d : val) (x : xml),
         supported version = true ->
         ge_1_1 v = v11 version ->
         nf_synset (v11 version) d = true ->
         synset_xml d v = Ok x ->
         (do p <- parse_elem version (iview version level x); _validate_synset ext p) = Ok d.
Proof. exact (@synset_roundtrip). Qed.
Print Assumptions C02_synset_roundtrip.

Theorem C02_xsynset_roundtrip :
  forall (version : str) (v : list Z) (level : nat) (d : val) (x : xml),
         supported version = true ->
         nf_xsynset d = true ->
         synset_xml d v = Ok x ->
         (do p <- parse_elem version (iview version level x); _validate_synset true p) = Ok d.
Proof. exact (@xsynset_roundtrip). Qed.
Print Assumptions C02_xsynset_roundtrip.

Theorem C02_entry_roundtrip :
  forall (version : str) (v : list Z) (level : nat) (ext : bool) (d : val) (x : xml),
         supported version = true ->
         ge_1_1 v = v11 version ->
         nf_entry (v11 version) d = true ->
         entry_xml d v = Ok x ->
         (do p <- parse_elem version (iview version level x); _validate_entry ext p) = Ok d.
Proof. exact (@entry_roundtrip). Qed.
Print Assumptions C02_entry_roundtrip.

Theorem C02_xentry_roundtrip :
  forall (version : str) (v : list Z) (level : nat) (d : val) (x : xml),
         v11 version = true ->
         ge_1_1 v = true ->
         nf_xentry d = true ->
         entry_xml d v = Ok x ->
         (do p <- parse_elem version (iview version level x); _validate_entry true p) = Ok d.
Proof. exact (@xentry_roundtrip). Qed.
Print Assumptions C02_xentry_roundtrip.

Theorem C02_lexicon_roundtrip :
  forall (version : str) (v : list Z) (T : str) (d : val),
         supported version = true ->
         ge_1_1 v = v11 version ->
         nf_lexicon (v11 version) d = true ->
         exists x : xml,
           lexicon_xml d v = Ok x /\
           (xtag x = str_of_string "Lexicon" \/
            xtag x = str_of_string "LexiconExtension" /\ v11 version = true) /\
           (do p <- parse_elem version (lexicon_view version T x); _validate p) = Ok d.
Proof. exact (@lexicon_roundtrip). Qed.
Print Assumptions C02_lexicon_roundtrip.

(* ---- whole documents: load (dump R) = R for every resource R in normal form, in every supported version; the dumped file is exactly header ++ root tag ++ the lexicon texts ++ end tag, and dump is total on normal forms *)
Theorem C02_document_roundtrip :
  forall (version : str) (v : list Z) (T : str) (r : val),
         supported version = true ->
         version_info version = Ok v ->
         nf_resource version r = true ->
         exists xs : list xml,
           mapM (fun l : val => lexicon_xml l v) (vlist r k_lexicons) = Ok xs /\
           load_tree version (doc_view version T xs) = Ok r.
Proof. exact (@document_roundtrip). Qed.
Print Assumptions C02_document_roundtrip.

Theorem C02_dump_load_roundtrip :
  forall (version : str) (r : val) (text T : str),
         nf_resource version r = true ->
         dump version r = Ok text ->
         exists (line1 line2 rest v : list Z) (xs : list xml),
           text = line1 ++ [c_nl] ++ line2 ++ [c_nl] ++ rest /\
           version_info version = Ok v /\
           mapM (fun l : val => lexicon_xml l v) (vlist r k_lexicons) = Ok xs /\
           load (line1 ++ [c_nl]) (line2 ++ [c_nl]) (doc_view version T xs) = Ok r.
Proof. exact (@dump_load_roundtrip). Qed.
Print Assumptions C02_dump_load_roundtrip.

Theorem C02_dump_lexicon_xml :
  forall (lexicon : val) (v : list Z) (text : str),
         _dump_lexicon lexicon v = Ok text ->
         exists x : xml, lexicon_xml lexicon v = Ok x /\ lexicon_text x = Ok text.
Proof. exact (@dump_lexicon_xml). Qed.
Print Assumptions C02_dump_lexicon_xml.

Theorem C02_dump_text :
  forall (version : str) (r : val) (text : str),
         dump version r = Ok text ->
         exists (v dc_uri : list Z) (schema : str) (lexs : val) (xs : list xml)
         (texts : list str),
           supported version = true /\
           assoc version schemas = Some schema /\
           version_info version = Ok v /\
           py_item r (str_of_string "lexicons") = Ok lexs /\
           (exists l : list val,
              py_iter lexs = Ok l /\ mapM (fun d : val => lexicon_xml d v) l = Ok xs) /\
           mapM lexicon_text xs = Ok texts /\
           text =
           xmldecl ++
           [c_nl] ++
           doctype_of schema ++
           [c_nl] ++
           str_of_string "<LexicalResource xmlns:dc=""" ++
           dc_uri ++
           [c_quot; c_gt; c_nl] ++ concat texts ++ str_of_string "</LexicalResource>" ++ [c_nl].
Proof. exact (@dump_text). Qed.
Print Assumptions C02_dump_text.

Theorem C02_dump_load_roundtrip_text :
  forall (version : str) (r : val) (text T : str),
         nf_resource version r = true ->
         dump version r = Ok text ->
         exists (v dc_uri : list Z) (schema : str) (xs : list xml) (texts : list str),
           version_info version = Ok v /\
           mapM (fun d : val => lexicon_xml d v) (vlist r k_lexicons) = Ok xs /\
           mapM lexicon_text xs = Ok texts /\
           text =
           (xmldecl ++ [c_nl]) ++
           (doctype_of schema ++ [c_nl]) ++
           str_of_string "<LexicalResource xmlns:dc=""" ++
           dc_uri ++
           [c_quot; c_gt; c_nl] ++ concat texts ++ str_of_string "</LexicalResource>" ++ [c_nl] /\
           load (xmldecl ++ [c_nl]) (doctype_of schema ++ [c_nl]) (doc_view version T xs) = Ok r.
Proof. exact (@dump_load_roundtrip_text). Qed.
Print Assumptions C02_dump_load_roundtrip_text.

(* ---- metadata and integers *)
Theorem C02_meta_dict_nf :
  forall m : val, nf_meta m = true -> _meta_dict m = Ok (md_of m).
Proof. exact (@meta_dict_nf). Qed.
Print Assumptions C02_meta_dict_nf.

Theorem C02_parse_int_dec :
  forall n : Z, parse_int (dec_of_Z n) = Some n.
Proof. exact (@parse_int_dec). Qed.
Print Assumptions C02_parse_int_dec.

(* ---- non-vacuity: each normal form is inhabited (and props/C02.py evaluates nf_resource, through Proofs/LmfNfRun.v, on the resources the real load returns for files the real dump wrote, on every run) *)
Theorem C02_nf_lexicon_ex :
  nf_lexicon true
           (mk_lexicon (str_of_string "ewn") (str_of_string "English WordNet")
              (str_of_string "en") (str_of_string "a@b.c") (str_of_string "CC-BY")
              (str_of_string "2020") (Some (str_of_string "http://x")) None None
              (VDict [(str_of_string "publisher", VStr (str_of_string "GWA"))]) None
              [mk_dep (str_of_string "omw") (str_of_string "1") None]
              [mk_entry (str_of_string "w1") VNone
                 (mk_lemma (str_of_string "colour") None (str_of_string "n") [] []) []
                 [mk_sense (str_of_string "w1-s1") (str_of_string "ss1") true None [] VNone [] [] []]
                 []]
              [mk_synset (str_of_string "ss1") (str_of_string "i1") (Some (str_of_string "n")) true
                 [str_of_string "w1-s1"] None VNone [] None [] []]
              [mk_sb11 (str_of_string "NP V") (Some (str_of_string "f1"))]) = true.
Proof. exact (@nf_lexicon_ex). Qed.
Print Assumptions C02_nf_lexicon_ex.

Theorem C02_nf_entry_ex :
  nf_entry true
           (mk_entry (str_of_string "w1") VNone
              (mk_lemma (str_of_string "colour") None (str_of_string "n") [] [])
              [mk_form None (str_of_string "colours") None [] []]
              [mk_sense (str_of_string "w1-s1") (str_of_string "ss1") true None [] VNone [] [] []] []) =
         true.
Proof. exact (@nf_entry_ex). Qed.
Print Assumptions C02_nf_entry_ex.

Theorem C02_nf_xentry_ex :
  nf_xentry
           (mk_xentry (str_of_string "w1")
              (Some (mk_xlemma [] [mk_tag (str_of_string "c") (str_of_string "t")]))
              [mk_xform (str_of_string "f1") [] [];
               mk_form (Some (str_of_string "f2")) (str_of_string "new") None [] []]
              [mk_xsense (str_of_string "w1-s1") [] [] []]) = true.
Proof. exact (@nf_xentry_ex). Qed.
Print Assumptions C02_nf_xentry_ex.

Theorem C02_nf_synset_ex :
  nf_synset true
           (mk_synset (str_of_string "ss1") (str_of_string "i123") (Some (str_of_string "n")) true
              [str_of_string "w1-s1"] None VNone
              [mk_definition None None VNone (str_of_string "a thing")]
              (Some (mk_ilidef VNone (str_of_string "thing")))
              [mk_relation (str_of_string "ss2") (str_of_string "hypernym") VNone] []) = true.
Proof. exact (@nf_synset_ex). Qed.
Print Assumptions C02_nf_synset_ex.

Theorem C02_nf_sense_ex :
  nf_sense true
           (mk_sense (str_of_string "w1-s1") (str_of_string "ss1") false
              (Some (str_of_string "a")) [str_of_string "f1"; str_of_string "f2"] VNone
              [mk_relation (str_of_string "w2-s1") (str_of_string "antonym") VNone] []
              [mk_count VNone 3]) = true.
Proof. exact (@nf_sense_ex). Qed.
Print Assumptions C02_nf_sense_ex.

Theorem C02_nf_meta_ex :
  nf_meta
           (VDict
              [(str_of_string "creator", VStr (str_of_string "me"));
               (str_of_string "note", VStr (str_of_string "n")); (conf_key, VStr [])]) = true.
Proof. exact (@nf_meta_ex). Qed.
Print Assumptions C02_nf_meta_ex.

