(* Properties/C14.v — similarity metrics equal their formulas, are symmetric and
   bounded.  Statements only; proofs in Proofs/SimProofs.v.  Each metric is
   "formula applied to parts": the theorems say what the parts are (in the
   graph-theoretic vocabulary of C13), that they are the same in both argument
   orders, and what range the formula has on them. *)
From Coq Require Import ZArith QArith List Bool.
Import ListNotations.
Require Import WnV.Base.Sx WnV.Model.Taxonomy WnV.Model.Similarity WnV.Proofs.TaxSpec
        WnV.Proofs.TaxAssembly WnV.Proofs.SimProofs.

(* ---- path = 1/(p+1): in [0,1], 1 exactly for identical synsets, 0 exactly when unconnected *)
Theorem C14_path_range : forall d, 0 <= path_q d /\ path_q d <= 1.
Proof. exact path_q_range. Qed.
Print Assumptions C14_path_range.
Theorem C14_path_one_iff_distance_zero : forall d, path_q d == 1 <-> d = Some 0%nat.
Proof. exact path_q_one_iff. Qed.
Print Assumptions C14_path_one_iff_distance_zero.
Theorem C14_path_zero_iff_unconnected : forall d, path_q d == 0 <-> d = None.
Proof. exact path_q_zero_iff. Qed.
Print Assumptions C14_path_zero_iff_unconnected.
Theorem C14_path_distance_zero_iff_same : forall hyp cls V fuel a b,
    graph_ok hyp V -> In a V -> In b V ->
    (path_parts hyp cls fuel a b false = Val (Some 0%nat) <-> (a = b)).
Proof. exact path_parts_zero_iff_same. Qed.
Print Assumptions C14_path_distance_zero_iff_same.
Theorem C14_path_symmetric : forall hyp cls V fuel a b sr r r',
    graph_ok hyp V -> In a V -> In b V -> sr = false ->
    path_parts hyp cls fuel a b sr = Val r -> path_parts hyp cls fuel b a sr = Val r' -> r = r'.
Proof. exact path_parts_sym. Qed.
Print Assumptions C14_path_symmetric.

(* ---- wup = 2k/(i+j+2k) on the documented parts: in (0,1], 1 for identical synsets, symmetric *)
Theorem C14_wup_parts : forall hyp cls fuel a b sr i j k,
    wup_parts hyp cls fuel a b sr = Val (i, j, k) ->
    exists lcs ls md, lowest_common_hypernyms hyp fuel a b sr = Some (lcs :: ls)
      /\ shortest_path_len hyp fuel a lcs sr = Some (Some i)
      /\ shortest_path_len hyp fuel b lcs sr = Some (Some j)
      /\ max_depth hyp fuel lcs false = Some md /\ k = S md.
Proof. exact wup_parts_spec. Qed.
Print Assumptions C14_wup_parts.
Theorem C14_wup_range : forall i j k, (0 < k)%nat -> 0 < wup_q (i, j, k) /\ wup_q (i, j, k) <= 1.
Proof. exact wup_q_range. Qed.
Print Assumptions C14_wup_range.
Theorem C14_wup_self : forall hyp cls fuel a md,
    max_depth hyp fuel a false = Some md ->
    wup_parts hyp cls fuel a a false = Val (0%nat, 0%nat, S md).
Proof. exact wup_parts_self. Qed.
Print Assumptions C14_wup_self.
Theorem C14_wup_one_iff : forall i j k, (0 < k)%nat -> (wup_q (i, j, k) == 1 <-> (i = 0 /\ j = 0)%nat).
Proof. exact wup_q_one_iff. Qed.
Print Assumptions C14_wup_one_iff.
Theorem C14_wup_symmetric : forall hyp cls V fuel a b i j k i' j' k',
    graph_ok hyp V -> In a V -> In b V ->
    wup_parts hyp cls fuel a b false = Val (i, j, k) ->
    wup_parts hyp cls fuel b a false = Val (i', j', k') ->
    (i', j', k') = (j, i, k).
Proof. exact wup_parts_sym. Qed.
Print Assumptions C14_wup_symmetric.
Theorem C14_wup_formula_symmetric : forall i j k, wup_q (i, j, k) == wup_q (j, i, k).
Proof. exact wup_q_sym. Qed.
Print Assumptions C14_wup_formula_symmetric.

(* ---- lch = -log((p+1)/(2d)): parts, symmetry, and no pair above the synset with itself
   (the argument of the antitone -log is smallest for p = 0) *)
Theorem C14_lch_parts : forall hyp cls fuel a b maxd sr p q,
    lch_parts hyp cls fuel a b maxd sr = Val (p, q) ->
    (0 < maxd)%Z /\ q = (2 * maxd)%Z
    /\ exists d, p = S d /\ shortest_path_len hyp fuel a b sr = Some (Some d).
Proof. exact lch_parts_spec. Qed.
Print Assumptions C14_lch_parts.
Theorem C14_lch_symmetric : forall hyp cls V fuel a b maxd r r',
    graph_ok hyp V -> In a V -> In b V ->
    lch_parts hyp cls fuel a b maxd false = Val r -> lch_parts hyp cls fuel b a maxd false = Val r' -> r = r'.
Proof. exact lch_parts_sym. Qed.
Print Assumptions C14_lch_symmetric.
Theorem C14_lch_self_maximal : forall d maxd, (0 < maxd)%Z ->
    lch_arg_q (1%nat, (2 * maxd)%Z) <= lch_arg_q (S d, (2 * maxd)%Z).
Proof. exact lch_arg_self_minimal. Qed.
Print Assumptions C14_lch_self_maximal.

(* ---- errors *)
Theorem C14_incompatible_pos : forall hyp cls fuel a b sr maxd,
    cls a <> cls b ->
    path_parts hyp cls fuel a b sr = WnError
    /\ wup_parts hyp cls fuel a b sr = WnError
    /\ lch_parts hyp cls fuel a b maxd sr = WnError.
Proof. exact incompatible_pos_error. Qed.
Print Assumptions C14_incompatible_pos.
Theorem C14_wup_no_common : forall hyp cls fuel a b sr,
    cls a = cls b -> lowest_common_hypernyms hyp fuel a b sr = Some [] ->
    wup_parts hyp cls fuel a b sr = WnError.
Proof. exact wup_no_common_error. Qed.
Print Assumptions C14_wup_no_common.
Theorem C14_lch_no_path : forall hyp cls fuel a b maxd sr,
    shortest_path_len hyp fuel a b sr = Some None -> lch_parts hyp cls fuel a b maxd sr = WnError.
Proof. exact lch_no_path_error. Qed.
Print Assumptions C14_lch_no_path.

(* ---- IC-based metrics, for any value type F with a comparison gt that is the strict part
   of a total preorder (Python's > on the floats that occur) *)
(* res = the maximum information content over the common subsumers *)
Theorem C14_res_is_max_ic :
  forall hyp cls (F : Type) (gt : F -> F -> bool) (icv : node -> option F),
    (forall x, gt x x = false) ->
    (forall x y z, gt x y = true -> gt y z = true -> gt x z = true) ->
    (forall x y z, gt x y = false -> gt y z = false -> gt x z = false) ->
    forall V fuel a b c v,
      graph_ok hyp V -> In a V -> In b V ->
      res_choice hyp cls fuel F gt icv a b = Val (c, v) ->
      reach hyp a c /\ reach hyp b c /\ icv c = Some v
      /\ (forall c' v', reach hyp a c' -> reach hyp b c' -> icv c' = Some v' -> gt v' v = false).
Proof. exact res_choice_spec. Qed.
Print Assumptions C14_res_is_max_ic.

(* jcn, lin: c0 is a lowest common hypernym of highest weight *)
Theorem C14_most_informative_lcs :
  forall hyp cls (F : Type) (gt : F -> F -> bool) (wt : node -> option F),
    (forall x, gt x x = false) ->
    (forall x y z, gt x y = true -> gt y z = true -> gt x z = true) ->
    (forall x y z, gt x y = false -> gt y z = false -> gt x z = false) ->
    forall fuel a b c0,
      most_informative_lcs hyp cls fuel F gt wt a b = Val c0 ->
      exists ls w0, lowest_common_hypernyms hyp fuel a b false = Some ls /\ In c0 ls /\ wt c0 = Some w0
        /\ (forall c, In c ls -> cls c = cls a)
        /\ (forall c w, In c ls -> wt c = Some w -> gt w w0 = false).
Proof. exact most_informative_lcs_spec. Qed.
Print Assumptions C14_most_informative_lcs.

Theorem C14_res_symmetric : forall hyp cls (F : Type) (gt : F -> F -> bool) icv V fuel a b c v c' v',
    graph_ok hyp V -> In a V -> In b V ->
    res_choice hyp cls fuel F gt icv a b = Val (c, v) ->
    res_choice hyp cls fuel F gt icv b a = Val (c', v') -> (c, v) = (c', v').
Proof. exact res_choice_sym. Qed.
Print Assumptions C14_res_symmetric.
Theorem C14_jcn_symmetric : forall hyp cls (F : Type) (gt : F -> F -> bool) wt icv V fuel a b x y z x' y' z',
    graph_ok hyp V -> In a V -> In b V ->
    jcn_parts hyp cls fuel F gt wt icv a b = Val (x, y, z) ->
    jcn_parts hyp cls fuel F gt wt icv b a = Val (x', y', z') -> (x', y', z') = (y, x, z).
Proof. exact jcn_parts_sym. Qed.
Print Assumptions C14_jcn_symmetric.
Theorem C14_lin_symmetric : forall hyp cls (F : Type) (gt : F -> F -> bool) wt icv V fuel a b x y z x' y' z',
    graph_ok hyp V -> In a V -> In b V ->
    lin_parts hyp cls fuel F gt wt icv a b = Val (x, y, z) ->
    lin_parts hyp cls fuel F gt wt icv b a = Val (x', y', z') -> (x', y', z') = (y, x, z).
Proof. exact lin_parts_sym. Qed.
Print Assumptions C14_lin_symmetric.
Theorem C14_ic_no_common : forall hyp cls (F : Type) (gt : F -> F -> bool) wt fuel a b,
    cls a = cls b -> lowest_common_hypernyms hyp fuel a b false = Some [] ->
    most_informative_lcs hyp cls fuel F gt wt a b = WnError.
Proof. exact ic_no_common_error. Qed.
Print Assumptions C14_ic_no_common.

(* non-vacuity *)
Example C14_nonvacuous :
  wup_parts (hyp_of [(1, [3]); (2, [3]); (3, [4])])%Z (fun _ => 0%Z) 6 1%Z 2%Z false = Val (1, 1, 2)%nat
  /\ Qeq_bool (wup_q (1, 1, 2)%nat) (2 # 3) = true
  /\ path_parts (hyp_of [(1, [3]); (2, [3]); (3, [4])])%Z (fun _ => 0%Z) 6 1%Z 2%Z false = Val (Some 2%nat).
Proof. vm_compute. repeat split; reflexivity. Qed.
Print Assumptions C14_nonvacuous.
