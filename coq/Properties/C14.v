(* Properties/C14.v — placeholder until the proofs are assembled. *)
From Coq Require Import ZArith QArith List.
Import ListNotations.
Require Import WnV.Base.Sx WnV.Model.Taxonomy WnV.Model.Similarity.
Example C14_model_runs :
  wup_parts (hyp_of [(1, [3]); (2, [3]); (3, [4])])%Z (fun _ => 0%Z) 6 1%Z 2%Z false = Val (1, 1, 2)%nat.
Proof. vm_compute. reflexivity. Qed.
Print Assumptions C14_model_runs.
