(* Properties/C03.v — placeholder until Model/Export.v is assembled. *)
From Coq Require Import List.
Import ListNotations.
Example C03_placeholder : length (@nil nat) = 0.
Proof. reflexivity. Qed.
Print Assumptions C03_placeholder.
