(* Properties/C03.v — export then re-import preserves the lexicons — the export half (model: Model/Export.v written from wn/_export.py over
   the query model Model/Query.v; the dump/load half of the round trip is Properties/C02.v, the add half C01/C05).
   Well-formedness predicates (Proofs/ExportProofs.v, all boolean, all true on real dumps: Example sample_wf):
   wf_*_rowids = table in strictly increasing rowid order; wf_entry_forms = every entry has a form; wf_form_ranks = a rank-0
   form and no NULL/negative rank; wf_sense_refs = senses resolve; wf_sense_entries/ids/sb_links = per-lexicon consistency;
   ili_ids_ok = no ILI is called "" or "in".
   Statements only: every theorem is closed by `exact` of a lemma proved under Proofs/, followed by
   Print Assumptions.  (Statement texts were printed by Coq from the proved lemmas by harness/mkprops.py and are
   fixed from then on.) *)
From Coq Require Import String.
From Coq Require Import ZArith List Bool.
Import ListNotations.
Require Import WnV.Base.Sx WnV.Model.Val WnV.Model.Tables WnV.Model.Query WnV.Model.Export WnV.Proofs.ExportProofs.
Require Import WnV.Proofs.ExportChildren.
Local Open Scope Z_scope.

(* ---- E1: export refuses exactly the lexicon lists whose identifier sets clash *)
Theorem C03_E1_precheck :
  forall (d : db) (lexs : list lexicon_row),
         _precheck d lexs = Ok tt <-> pairwise_disjoint (map (lexicon_idset d) lexs).
Proof. exact (@E1_precheck). Qed.
Print Assumptions C03_E1_precheck.

Theorem C03_E1_precheck_error :
  forall (d : db) (lexs : list lexicon_row),
         ~ pairwise_disjoint (map (lexicon_idset d) lexs) -> _precheck d lexs = WnError.
Proof. exact (@E1_precheck_error). Qed.
Print Assumptions C03_E1_precheck_error.

Theorem C03_E1_idset :
  forall (d : db) (lex : lexicon_row) (x : str),
         incr (map en_rowid (t_entries d)) ->
         In x (lexicon_idset d lex) <->
         x = lex_id lex \/
         (exists e : entry_row, In e (exported_entries d (lex_rowid lex)) /\ en_id e = x) \/
         (exists s : sense_row,
            In s (t_senses d) /\
            se_lexicon_rowid s = lex_rowid lex /\ sense_ok d s = true /\ se_id s = x) \/
         (exists ss : synset_row, In ss (lexicon_synsets d (lex_rowid lex)) /\ sy_id ss = x).
Proof. exact (@E1_idset). Qed.
Print Assumptions C03_E1_idset.

(* ---- E2: nothing lost, nothing invented: every entry of the lexicon once, in rowid order, with id, pos, lemma = rank-0 form, forms in rank order, and its senses in entry-rank order; every synset once *)
Theorem C03_E2_entries :
  forall (d : db) (mt : mtab) (lex : lexicon_row) (ver : list Z) (v : val),
         wf_entry_rowids d = true ->
         _export_lexicon d mt lex ver = Ok v ->
         Forall2 (entry_rel d (lex_rowid lex)) (exported_entries d (lex_rowid lex))
           (vlist v (K "entries")).
Proof. exact (@E2_entries). Qed.
Print Assumptions C03_E2_entries.

Theorem C03_E2_entries_all :
  forall (d : db) (r : Z),
         wf_entry_forms d = true -> exported_entries d r = lexicon_entries d r.
Proof. exact (@E2_entries_all). Qed.
Print Assumptions C03_E2_entries_all.

Theorem C03_E2_lemma_rank0 :
  forall (d : db) (r : Z) (e : entry_row) (ev : val),
         wf_form_ranks d = true ->
         In e (exported_entries d r) ->
         entry_rel d r e ev ->
         exists f0 : form_row,
           In f0 (t_forms d) /\
           fm_entry_rowid f0 = en_rowid e /\
           fm_rank f0 = Some 0 /\ vget (vget ev (K "lemma")) (K "writtenForm") = VStr (fm_form f0).
Proof. exact (@E2_lemma_rank0). Qed.
Print Assumptions C03_E2_lemma_rank0.

Theorem C03_E2_senses_all :
  forall (d : db) (mt : mtab) (lex : lexicon_row) (ver : list Z) (v : val) (s : sense_row),
         wf_entry_rowids d = true ->
         wf_entry_forms d = true ->
         wf_sense_refs d = true ->
         wf_sense_entries d (lex_rowid lex) = true ->
         _export_lexicon d mt lex ver = Ok v ->
         In s (t_senses d) ->
         se_lexicon_rowid s = lex_rowid lex ->
         exists (e : entry_row) (ev : val),
           In e (lexicon_entries d (lex_rowid lex)) /\
           en_rowid e = se_entry_rowid s /\
           In ev (vlist v (K "entries")) /\
           vget ev (K "id") = VStr (en_id e) /\
           In (VStr (se_id s)) (map (fun sv : val => vget sv (K "id")) (vlist ev (K "senses"))).
Proof. exact (@E2_senses_all). Qed.
Print Assumptions C03_E2_senses_all.

Theorem C03_E2_senses_only :
  forall (d : db) (r : Z) (e : entry_row) (s : sense_row),
         In s (entry_senses d r e) ->
         In s (t_senses d) /\ se_lexicon_rowid s = r /\ se_entry_rowid s = en_rowid e.
Proof. exact (@E2_senses_only). Qed.
Print Assumptions C03_E2_senses_only.

Theorem C03_E2_synsets :
  forall (d : db) (mt : mtab) (lex : lexicon_row) (ver : list Z) (v : val),
         wf_synset_rowids d = true ->
         _export_lexicon d mt lex ver = Ok v ->
         Forall2
           (fun (ss : synset_row) (sv : val) =>
            vget sv (K "id") = VStr (sy_id ss) /\ vget sv (K "partOfSpeech") = vos (sy_pos ss))
           (lexicon_synsets d (lex_rowid lex)) (vlist v (K "synsets")).
Proof. exact (@E2_synsets). Qed.
Print Assumptions C03_E2_synsets.

(* ---- E3: sense-frame links: >= 1.1 subcat lists exactly the ids of the linked behaviours that have an id (frames without id cannot be referenced: finding F18); 1.0 frames list exactly the linked senses *)
Theorem C03_E3_subcat :
  forall (d : db) (mt : mtab) (lex : lexicon_row) (ver : list Z) (v ev sv : val) (x : str),
         ge_1_1 ver = true ->
         _export_lexicon d mt lex ver = Ok v ->
         In ev (vlist v (K "entries")) ->
         In sv (vlist ev (K "senses")) ->
         In (VStr x) (vlist sv (K "subcat")) <->
         x <> [] /\ (exists f : str, sb_link d (lex_rowid lex) (sense_val_id sv) (Some x) f).
Proof. exact (@E3_subcat). Qed.
Print Assumptions C03_E3_subcat.

Theorem C03_E3_frames_1_0 :
  forall (d : db) (mt : mtab) (lex : lexicon_row) (ver : list Z) (v ev : val) (fr sid : str),
         ge_1_1 ver = false ->
         _export_lexicon d mt lex ver = Ok v ->
         In ev (vlist v (K "entries")) ->
         (exists fv : val,
            In fv (vlist ev (K "frames")) /\
            vget fv (K "subcategorizationFrame") = VStr fr /\ In (VStr sid) (vlist fv (K "senses"))) <->
         (exists sv : val, In sv (vlist ev (K "senses")) /\ sense_val_id sv = sid) /\
         (exists i : option str, sb_link d (lex_rowid lex) sid i fr).
Proof. exact (@E3_frames_1_0). Qed.
Print Assumptions C03_E3_frames_1_0.

Theorem C03_sb_link_this_sense :
  forall (d : db) (r : Z) (s0 : sense_row) (i : option str) (f : str),
         wf_sense_rowids d = true ->
         wf_sb_rowids d = true ->
         wf_sense_ids d r = true ->
         wf_sb_links d r = true ->
         In s0 (t_senses d) ->
         se_lexicon_rowid s0 = r -> sb_link d r (se_id s0) i f <-> sb_link_row d r s0 i f.
Proof. exact (@sb_link_this_sense). Qed.
Print Assumptions C03_sb_link_this_sense.

(* ---- E4: the ili attribute: the ILI id when the synset has an ILI, "in" exactly for a proposed ILI, "" otherwise *)
Theorem C03_E4_spec :
  forall (d : db) (mt : mtab) (lex : lexicon_row) (ver : list Z) (v : val),
         wf_synset_rowids d = true ->
         _export_lexicon d mt lex ver = Ok v ->
         Forall2 (fun (ss : synset_row) (sv : val) => vget sv (K "ili") = VStr (ili_spec d ss))
           (lexicon_synsets d (lex_rowid lex)) (vlist v (K "synsets")).
Proof. exact (@E4_spec). Qed.
Print Assumptions C03_E4_spec.

Theorem C03_E4 :
  forall (d : db) (mt : mtab) (lex : lexicon_row) (ver : list Z) (v : val),
         wf_synset_rowids d = true ->
         ili_ids_ok d = true ->
         _export_lexicon d mt lex ver = Ok v ->
         Forall2 (ili_rel d) (lexicon_synsets d (lex_rowid lex)) (vlist v (K "synsets")).
Proof. exact (@E4). Qed.
Print Assumptions C03_E4.

Theorem C03_E4_counterexample :
  ili_spec cex_db cex_synset = K "in" /\
         ili_row_of cex_db cex_synset <> None /\ has_proposed cex_db cex_synset = false.
Proof. exact (@E4_counterexample). Qed.
Print Assumptions C03_E4_counterexample.

(* ---- E5: members (>= 1.1) = the sense ids of the synset in synset-rank order *)
Theorem C03_E5 :
  forall (d : db) (mt : mtab) (lex : lexicon_row) (ver : list Z) (v : val),
         wf_synset_rowids d = true ->
         ge_1_1 ver = true ->
         _export_lexicon d mt lex ver = Ok v ->
         Forall2
           (fun (ss : synset_row) (sv : val) =>
            vlist sv (K "members") =
            map (fun s : sense_row => VStr (se_id s)) (synset_members d (lex_rowid lex) ss))
           (lexicon_synsets d (lex_rowid lex)) (vlist v (K "synsets")).
Proof. exact (@E5). Qed.
Print Assumptions C03_E5.

Theorem C03_senses_by_all :
  forall (d : db) (r : Z) (src : sense_row -> Z) (rank : sense_row -> option Z) (rowid : Z),
         wf_sense_refs d = true ->
         senses_by d r src rank rowid =
         sort_by_oz rank
           (filter (fun s : sense_row => (src s =? rowid) && (se_lexicon_rowid s =? r)) (t_senses d)).
Proof. exact (@senses_by_all). Qed.
Print Assumptions C03_senses_by_all.

(* ---- non-vacuity on a database dumped from the real implementation *)
Theorem C03_sample_wf :
  wf_entry_rowids sample_db = true /\
         wf_synset_rowids sample_db = true /\
         wf_entry_forms sample_db = true /\
         wf_sense_refs sample_db = true /\
         wf_sense_entries sample_db 1 = true /\
         wf_form_ranks sample_db = true /\
         wf_sense_rowids sample_db = true /\
         wf_sb_rowids sample_db = true /\
         wf_sense_ids sample_db 1 = true /\
         wf_sb_links sample_db 1 = true /\ ili_ids_ok sample_db = true.
Proof. exact (@sample_wf). Qed.
Print Assumptions C03_sample_wf.

Theorem C03_sample_exports :
  match get_lexicon sample_db 1 with
         | Ok lex =>
             match _export_lexicon sample_db sample_mt lex [1; 1] with
             | Ok _ =>
                 match _export_lexicon sample_db sample_mt lex [1; 0] with
                 | Ok _ => true
                 | _ => false
                 end
             | _ => false
             end
         | _ => false
         end = true.
Proof. exact (@sample_exports). Qed.
Print Assumptions C03_sample_exports.

Theorem C03_sample_precheck :
  _precheck sample_db (t_lexicons sample_db) = Ok tt /\
         _precheck sample_db (t_lexicons sample_db ++ t_lexicons sample_db) = WnError.
Proof. exact (@sample_precheck). Qed.
Print Assumptions C03_sample_precheck.

(* ---- E6: the lexicon attributes, metadata and (>= 1.1) logo and dependencies are copied from the lexicon row *)
Theorem C03_E6_lexicon :
  forall (d : db) (mt : mtab) (lex : lexicon_row) (ver : list Z) (v : val),
         _export_lexicon d mt lex ver = Ok v -> lexicon_rel d mt (ge_1_1 ver) lex v.
Proof. exact (@E6_lexicon). Qed.
Print Assumptions C03_E6_lexicon.

Theorem C03_E6_lexicon_meta :
  forall (d : db) (mt : mtab) (rowid : Z) (lex : lexicon_row) (ver : list Z) (v : val),
         get_lexicon d rowid = Ok lex ->
         _export_lexicon d mt lex ver = Ok v ->
         In lex (t_lexicons d) /\
         lex_rowid lex = rowid /\ vget v (K "meta") = meta_val mt (lex_metadata lex).
Proof. exact (@E6_lexicon_meta). Qed.
Print Assumptions C03_E6_lexicon_meta.

(* ---- E7: forms: written form, script, id, and the tags / (>= 1.1) pronunciations rows of each form in rowid order with all their columns (no lexicon filter: see entry_forms_In) *)
Theorem C03_E7_forms :
  forall (d : db) (mt : mtab) (lex : lexicon_row) (ver : list Z) (v : val),
         wf_entry_rowids d = true ->
         _export_lexicon d mt lex ver = Ok v ->
         Forall2 (entry_forms_rel d (ge_1_1 ver)) (exported_entries d (lex_rowid lex))
           (vlist v (K "entries")).
Proof. exact (@E7_forms). Qed.
Print Assumptions C03_E7_forms.

Theorem C03_entry_forms_In :
  forall (d : db) (e : entry_row) (f : form_row),
         In f (entry_forms d e) <-> In f (t_forms d) /\ fm_entry_rowid f = en_rowid e.
Proof. exact (@entry_forms_In). Qed.
Print Assumptions C03_entry_forms_In.

(* ---- E8: senses: synset id, lexicalized, adjposition, metadata; examples and counts = the rows of the sense owned by the exported lexicon, in rowid order; relations = the sense-sense then sense-synset relation rows of the lexicon (de-duplicated as SELECT DISTINCT does; exactly the rows when they are distinct and their targets are in the lexicon) *)
Theorem C03_E8_senses :
  forall (d : db) (mt : mtab) (lex : lexicon_row) (ver : list Z) (v : val),
         wf_entry_rowids d = true ->
         wf_sense_rowids d = true ->
         wf_sense_example_rowids d = true ->
         wf_count_rowids d = true ->
         _export_lexicon d mt lex ver = Ok v ->
         Forall2
           (fun (e : entry_row) (ev : val) =>
            Forall2 (sense_rel d mt (lex_rowid lex)) (entry_senses d (lex_rowid lex) e)
              (vlist ev (K "senses"))) (exported_entries d (lex_rowid lex))
           (vlist v (K "entries")).
Proof. exact (@E8_senses). Qed.
Print Assumptions C03_E8_senses.

Theorem C03_E8_relations_all :
  forall (d : db) (r : Z) (s : sense_row),
         wf_relations_distinct d r = true ->
         wf_relation_refs d r = true ->
         In s (t_senses d) ->
         sense_relations_of d r s = rels_from (t_sense_relations d) r (se_rowid s) /\
         sense_synset_relations_of d r s = rels_from (t_sense_synset_relations d) r (se_rowid s).
Proof. exact (@E8_relations_all). Qed.
Print Assumptions C03_E8_relations_all.

(* ---- E9: synsets: pos, lexicalized, lexfile, metadata; definitions (text, language, source sense, metadata), examples and relations = the rows of the synset owned by the lexicon; ILIDefinition from the proposed_ilis row when it has a text *)
Theorem C03_E9_synsets :
  forall (d : db) (mt : mtab) (lex : lexicon_row) (ver : list Z) (v : val),
         wf_synset_rowids d = true ->
         wf_definition_rowids d = true ->
         wf_synset_example_rowids d = true ->
         wf_proposed_ili_rowids d = true ->
         _export_lexicon d mt lex ver = Ok v ->
         Forall2 (synset_rel d mt (lex_rowid lex)) (lexicon_synsets d (lex_rowid lex))
           (vlist v (K "synsets")).
Proof. exact (@E9_synsets). Qed.
Print Assumptions C03_E9_synsets.

Theorem C03_E9_relations_all :
  forall (d : db) (r : Z) (ss : synset_row),
         wf_relations_distinct d r = true ->
         wf_relation_refs d r = true ->
         In ss (t_synsets d) ->
         synset_relations_of d r ss = rels_from (t_synset_relations d) r (sy_rowid ss).
Proof. exact (@E9_relations_all). Qed.
Print Assumptions C03_E9_relations_all.

Theorem C03_lexicalized_of_nz :
  forall (rowid : Z) (flag : bool), rowid <> 0 -> lexicalized_of rowid flag = flag.
Proof. exact (@lexicalized_of_nz). Qed.
Print Assumptions C03_lexicalized_of_nz.

(* ---- readings that are false for the faithful model, with witnesses (duplicate relation rows are exported once; a relation whose target lies in another lexicon is dropped; no ILIDefinition for a proposed ILI without text; rowid 0), and non-vacuity on a real dump *)
Theorem C03_witness_children :
  (wf_synset_rowids w_db = true /\
          wf_definition_rowids w_db = true /\
          wf_synset_example_rowids w_db = true /\ wf_proposed_ili_rowids w_db = true) /\
         match _export_lexicon w_db [] (w_lex 1 "x") [1; 1] with
         | Ok v =>
             map
               (fun sv : val =>
                (vget sv (K "id"), vget sv (K "lexicalized"),
                 Datatypes.length (vlist sv (K "relations")), vhas sv (K "ili_definition"),
                 vget sv (K "ili"))) (vlist v (K "synsets")) =
             [(VStr (K "x-s0"), VBool false, 0%nat, false, VStr []);
              (VStr (K "x-s1"), VBool true, 1%nat, false, VStr []);
              (VStr (K "x-s2"), VBool true, 0%nat, false, VStr (K "in"))]
         | _ => False
         end /\
         Datatypes.length (rels_from (t_synset_relations w_db) 1 1) = 3%nat /\
         has_proposed w_db (w_synset 2 "x-s2" 1) = true /\
         sy_lexicalized (w_synset 0 "x-s0" 1) = true /\
         wf_relations_distinct w_db 1 = false /\ wf_relation_refs w_db 1 = false.
Proof. exact (@witness_children). Qed.
Print Assumptions C03_witness_children.

Theorem C03_sample_wf_children :
  wf_sense_example_rowids sample_db = true /\
         wf_synset_example_rowids sample_db = true /\
         wf_count_rowids sample_db = true /\
         wf_definition_rowids sample_db = true /\
         wf_proposed_ili_rowids sample_db = true /\
         wf_relations_distinct sample_db 1 = true /\ wf_relation_refs sample_db 1 = true.
Proof. exact (@sample_wf_children). Qed.
Print Assumptions C03_sample_wf_children.

Theorem C03_sample_children_present :
  match get_lexicon sample_db 1 with
         | Ok lex =>
             match _export_lexicon sample_db sample_mt lex [1; 1] with
             | Ok v =>
                 let senses :=
                   flat_map (fun ev : val => vlist ev (K "senses")) (vlist v (K "entries")) in
                 let forms :=
                   flat_map (fun ev : val => vget ev (K "lemma") :: vlist ev (K "forms"))
                     (vlist v (K "entries")) in
                 let synsets := vlist v (K "synsets") in
                 let cnt :=
                   fun (l : list val) (k : str) =>
                   Datatypes.length (flat_map (fun x : val => vlist x k) l) in
                 (cnt senses (K "relations"), cnt senses (K "examples"),
                  cnt senses (K "counts"), cnt synsets (K "relations"),
                  cnt synsets (K "definitions"), cnt synsets (K "examples"),
                  cnt forms (K "pronunciations"),
                  Datatypes.length (filter (fun sv : val => vhas sv (K "ili_definition")) synsets)) =
                 (2%nat, 2%nat, 4%nat, 5%nat, 2%nat, 1%nat, 2%nat, 1%nat)
             | _ => False
             end
         | _ => False
         end.
Proof. exact (@sample_children_present). Qed.
Print Assumptions C03_sample_children_present.

