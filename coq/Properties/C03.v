(* Properties/C03.v — export then re-import preserves the lexicons — the export half (model: Model/Export.v written from wn/_export.py over
   the query model Model/Query.v; the dump/load half of the round trip is Properties/C02.v, the add half C01/C05).
   Well-formedness predicates (Proofs/ExportProofs.v, all boolean, all true on real dumps: Example sample_wf):
   wf_*_rowids = table in strictly increasing rowid order; wf_entry_forms = every entry has a form; wf_form_ranks = a rank-0
   form and no NULL/negative rank; wf_sense_refs = senses resolve; wf_sense_entries/ids/sb_links = per-lexicon consistency;
   ili_ids_ok = no ILI is called "" or "in".
   Statements only: every theorem is closed by `exact` of a lemma proved under Proofs/, followed by
   Print Assumptions.  (Statement texts were printed by Coq from the proved lemmas by harness/mkprops.py and are
   fixed from then on.) *)
From Coq Require Import String.
From Coq Require Import ZArith List Bool.
Import ListNotations.
Require Import WnV.Base.Sx WnV.Model.Val WnV.Model.Tables WnV.Model.Query WnV.Model.Export WnV.Proofs.ExportProofs.
Local Open Scope Z_scope.

(* ---- E1: export refuses exactly the lexicon lists whose identifier sets clash *)
Theorem C03_E1_precheck :
  forall (d : db) (lexs : list lexicon_row),
         _precheck d lexs = Ok tt <-> pairwise_disjoint (map (lexicon_idset d) lexs).
Proof. exact (@E1_precheck). Qed.
Print Assumptions C03_E1_precheck.

Theorem C03_E1_precheck_error :
  forall (d : db) (lexs : list lexicon_row),
         ~ pairwise_disjoint (map (lexicon_idset d) lexs) -> _precheck d lexs = WnError.
Proof. exact (@E1_precheck_error). Qed.
Print Assumptions C03_E1_precheck_error.

Theorem C03_E1_idset :
  forall (d : db) (lex : lexicon_row) (x : str),
         incr (map en_rowid (t_entries d)) ->
         In x (lexicon_idset d lex) <->
         x = lex_id lex \/
         (exists e : entry_row, In e (exported_entries d (lex_rowid lex)) /\ en_id e = x) \/
         (exists s : sense_row,
            In s (t_senses d) /\
            se_lexicon_rowid s = lex_rowid lex /\ sense_ok d s = true /\ se_id s = x) \/
         (exists ss : synset_row, In ss (lexicon_synsets d (lex_rowid lex)) /\ sy_id ss = x).
Proof. exact (@E1_idset). Qed.
Print Assumptions C03_E1_idset.

(* ---- E2: nothing lost, nothing invented: every entry of the lexicon once, in rowid order, with id, pos, lemma = rank-0 form, forms in rank order, and its senses in entry-rank order; every synset once *)
Theorem C03_E2_entries :
  forall (d : db) (mt : mtab) (lex : lexicon_row) (ver : list Z) (v : val),
         wf_entry_rowids d = true ->
         _export_lexicon d mt lex ver = Ok v ->
         Forall2 (entry_rel d (lex_rowid lex)) (exported_entries d (lex_rowid lex))
           (vlist v (K "entries")).
Proof. exact (@E2_entries). Qed.
Print Assumptions C03_E2_entries.

Theorem C03_E2_entries_all :
  forall (d : db) (r : Z),
         wf_entry_forms d = true -> exported_entries d r = lexicon_entries d r.
Proof. exact (@E2_entries_all). Qed.
Print Assumptions C03_E2_entries_all.

Theorem C03_E2_lemma_rank0 :
  forall (d : db) (r : Z) (e : entry_row) (ev : val),
         wf_form_ranks d = true ->
         In e (exported_entries d r) ->
         entry_rel d r e ev ->
         exists f0 : form_row,
           In f0 (t_forms d) /\
           fm_entry_rowid f0 = en_rowid e /\
           fm_rank f0 = Some 0 /\ vget (vget ev (K "lemma")) (K "writtenForm") = VStr (fm_form f0).
Proof. exact (@E2_lemma_rank0). Qed.
Print Assumptions C03_E2_lemma_rank0.

Theorem C03_E2_senses_all :
  forall (d : db) (mt : mtab) (lex : lexicon_row) (ver : list Z) (v : val) (s : sense_row),
         wf_entry_rowids d = true ->
         wf_entry_forms d = true ->
         wf_sense_refs d = true ->
         wf_sense_entries d (lex_rowid lex) = true ->
         _export_lexicon d mt lex ver = Ok v ->
         In s (t_senses d) ->
         se_lexicon_rowid s = lex_rowid lex ->
         exists (e : entry_row) (ev : val),
           In e (lexicon_entries d (lex_rowid lex)) /\
           en_rowid e = se_entry_rowid s /\
           In ev (vlist v (K "entries")) /\
           vget ev (K "id") = VStr (en_id e) /\
           In (VStr (se_id s)) (map (fun sv : val => vget sv (K "id")) (vlist ev (K "senses"))).
Proof. exact (@E2_senses_all). Qed.
Print Assumptions C03_E2_senses_all.

Theorem C03_E2_senses_only :
  forall (d : db) (r : Z) (e : entry_row) (s : sense_row),
         In s (entry_senses d r e) ->
         In s (t_senses d) /\ se_lexicon_rowid s = r /\ se_entry_rowid s = en_rowid e.
Proof. exact (@E2_senses_only). Qed.
Print Assumptions C03_E2_senses_only.

Theorem C03_E2_synsets :
  forall (d : db) (mt : mtab) (lex : lexicon_row) (ver : list Z) (v : val),
         wf_synset_rowids d = true ->
         _export_lexicon d mt lex ver = Ok v ->
         Forall2
           (fun (ss : synset_row) (sv : val) =>
            vget sv (K "id") = VStr (sy_id ss) /\ vget sv (K "partOfSpeech") = vos (sy_pos ss))
           (lexicon_synsets d (lex_rowid lex)) (vlist v (K "synsets")).
Proof. exact (@E2_synsets). Qed.
Print Assumptions C03_E2_synsets.

(* ---- E3: sense-frame links: >= 1.1 subcat lists exactly the ids of the linked behaviours that have an id (frames without id cannot be referenced: finding F18); 1.0 frames list exactly the linked senses *)
Theorem C03_E3_subcat :
  forall (d : db) (mt : mtab) (lex : lexicon_row) (ver : list Z) (v ev sv : val) (x : str),
         ge_1_1 ver = true ->
         _export_lexicon d mt lex ver = Ok v ->
         In ev (vlist v (K "entries")) ->
         In sv (vlist ev (K "senses")) ->
         In (VStr x) (vlist sv (K "subcat")) <->
         x <> [] /\ (exists f : str, sb_link d (lex_rowid lex) (sense_val_id sv) (Some x) f).
Proof. exact (@E3_subcat). Qed.
Print Assumptions C03_E3_subcat.

Theorem C03_E3_frames_1_0 :
  forall (d : db) (mt : mtab) (lex : lexicon_row) (ver : list Z) (v ev : val) (fr sid : str),
         ge_1_1 ver = false ->
         _export_lexicon d mt lex ver = Ok v ->
         In ev (vlist v (K "entries")) ->
         (exists fv : val,
            In fv (vlist ev (K "frames")) /\
            vget fv (K "subcategorizationFrame") = VStr fr /\ In (VStr sid) (vlist fv (K "senses"))) <->
         (exists sv : val, In sv (vlist ev (K "senses")) /\ sense_val_id sv = sid) /\
         (exists i : option str, sb_link d (lex_rowid lex) sid i fr).
Proof. exact (@E3_frames_1_0). Qed.
Print Assumptions C03_E3_frames_1_0.

Theorem C03_sb_link_this_sense :
  forall (d : db) (r : Z) (s0 : sense_row) (i : option str) (f : str),
         wf_sense_rowids d = true ->
         wf_sb_rowids d = true ->
         wf_sense_ids d r = true ->
         wf_sb_links d r = true ->
         In s0 (t_senses d) ->
         se_lexicon_rowid s0 = r -> sb_link d r (se_id s0) i f <-> sb_link_row d r s0 i f.
Proof. exact (@sb_link_this_sense). Qed.
Print Assumptions C03_sb_link_this_sense.

(* ---- E4: the ili attribute: the ILI id when the synset has an ILI, "in" exactly for a proposed ILI, "" otherwise *)
Theorem C03_E4_spec :
  forall (d : db) (mt : mtab) (lex : lexicon_row) (ver : list Z) (v : val),
         wf_synset_rowids d = true ->
         _export_lexicon d mt lex ver = Ok v ->
         Forall2 (fun (ss : synset_row) (sv : val) => vget sv (K "ili") = VStr (ili_spec d ss))
           (lexicon_synsets d (lex_rowid lex)) (vlist v (K "synsets")).
Proof. exact (@E4_spec). Qed.
Print Assumptions C03_E4_spec.

Theorem C03_E4 :
  forall (d : db) (mt : mtab) (lex : lexicon_row) (ver : list Z) (v : val),
         wf_synset_rowids d = true ->
         ili_ids_ok d = true ->
         _export_lexicon d mt lex ver = Ok v ->
         Forall2 (ili_rel d) (lexicon_synsets d (lex_rowid lex)) (vlist v (K "synsets")).
Proof. exact (@E4). Qed.
Print Assumptions C03_E4.

Theorem C03_E4_counterexample :
  ili_spec cex_db cex_synset = K "in" /\
         ili_row_of cex_db cex_synset <> None /\ has_proposed cex_db cex_synset = false.
Proof. exact (@E4_counterexample). Qed.
Print Assumptions C03_E4_counterexample.

(* ---- E5: members (>= 1.1) = the sense ids of the synset in synset-rank order *)
Theorem C03_E5 :
  forall (d : db) (mt : mtab) (lex : lexicon_row) (ver : list Z) (v : val),
         wf_synset_rowids d = true ->
         ge_1_1 ver = true ->
         _export_lexicon d mt lex ver = Ok v ->
         Forall2
           (fun (ss : synset_row) (sv : val) =>
            vlist sv (K "members") =
            map (fun s : sense_row => VStr (se_id s)) (synset_members d (lex_rowid lex) ss))
           (lexicon_synsets d (lex_rowid lex)) (vlist v (K "synsets")).
Proof. exact (@E5). Qed.
Print Assumptions C03_E5.

Theorem C03_senses_by_all :
  forall (d : db) (r : Z) (src : sense_row -> Z) (rank : sense_row -> option Z) (rowid : Z),
         wf_sense_refs d = true ->
         senses_by d r src rank rowid =
         sort_by_oz rank
           (filter (fun s : sense_row => (src s =? rowid) && (se_lexicon_rowid s =? r)) (t_senses d)).
Proof. exact (@senses_by_all). Qed.
Print Assumptions C03_senses_by_all.

(* ---- non-vacuity on a database dumped from the real implementation *)
Theorem C03_sample_wf :
  wf_entry_rowids sample_db = true /\
         wf_synset_rowids sample_db = true /\
         wf_entry_forms sample_db = true /\
         wf_sense_refs sample_db = true /\
         wf_sense_entries sample_db 1 = true /\
         wf_form_ranks sample_db = true /\
         wf_sense_rowids sample_db = true /\
         wf_sb_rowids sample_db = true /\
         wf_sense_ids sample_db 1 = true /\
         wf_sb_links sample_db 1 = true /\ ili_ids_ok sample_db = true.
Proof. exact (@sample_wf). Qed.
Print Assumptions C03_sample_wf.

Theorem C03_sample_exports :
  match get_lexicon sample_db 1 with
         | Ok lex =>
             match _export_lexicon sample_db sample_mt lex [1; 1] with
             | Ok _ =>
                 match _export_lexicon sample_db sample_mt lex [1; 0] with
                 | Ok _ => true
                 | _ => false
                 end
             | _ => false
             end
         | _ => false
         end = true.
Proof. exact (@sample_exports). Qed.
Print Assumptions C03_sample_exports.

Theorem C03_sample_precheck :
  _precheck sample_db (t_lexicons sample_db) = Ok tt /\
         _precheck sample_db (t_lexicons sample_db ++ t_lexicons sample_db) = WnError.
Proof. exact (@sample_precheck). Qed.
Print Assumptions C03_sample_precheck.

