(* Properties/C12.v — relations borrowed through expand lexicons are mapped by ILI as documented (model: Core.Wordnet_init,
   Core.Synset_iter_relations / _iter_expanded_relations).
   Statements only: every theorem is closed by `exact` of a lemma proved under Proofs/, followed by
   Print Assumptions.  (Statement texts were printed by Coq from the proved lemmas by harness/mkprops.py and are
   fixed from then on.) *)
From Coq Require Import String.
From Coq Require Import ZArith List Bool.
Import ListNotations.
Require Import WnV.Base.Sx WnV.Model.Spec WnV.Model.Tables WnV.Model.Query WnV.Model.Core.
Require Import WnV.Proofs.CoreLemmas WnV.Proofs.QueryFacts WnV.Proofs.ScopeProofs WnV.Proofs.SearchProofs
        WnV.Proofs.NavProofs WnV.Proofs.RelGeneric WnV.Proofs.RelProofs WnV.Proofs.RelClosureProofs
        WnV.Proofs.ExpandProofs WnV.Proofs.FrameProofs WnV.Proofs.CoreNonvacuity.
Local Open Scope Z_scope.

(* ---- X3: which lexicons become expand lexicons (explicit argument, or the resolved dependencies of the selection by default; a warning when a dependency is not installed) *)
Theorem C12_Wordnet_init_spec :
  forall (d : db) (lexicon lang expand : option str) (nz : bool) (nt : list (str * str))
           (lem : option (list (str * list (option str * list str)))) (saf : bool)
           (w : Wordnet),
         Wordnet_init d lexicon lang expand nz nt lem saf = Ok w ->
         exists lexs expanded : list lexicon_row,
           find_lexicons d match lexicon with
                           | Some (c :: s) => c :: s
                           | _ => s_star
                           end lang = Ok lexs /\
           wn_lexicon_ids w = map lex_rowid lexs /\
           wn_default_mode w = negb (truthy lexicon) && negb (truthy lang) /\
           (if nonempty (effective_expand d lexicon lang expand lexs)
            then find_lexicons d (effective_expand d lexicon lang expand lexs) None
            else Ok []) = Ok expanded /\
           wn_expanded_ids w = map lex_rowid expanded /\
           wn_warned w =
           match expand with
           | Some _ => false
           | None =>
               if negb (truthy lexicon) && negb (truthy lang)
               then false
               else
                nonempty
                  (join_space
                     (map dep_spec
                        (filter (fun dep : str * str * option Z => negb (dep_installed dep))
                           (selected_deps d lexs))))
           end /\
           wn_normalizer w = nz /\
           wn_norm_table w = nt /\ wn_lemmatizer w = lem /\ wn_search_all_forms w = saf.
Proof. exact (@Wordnet_init_spec). Qed.
Print Assumptions C12_Wordnet_init_spec.

Theorem C12_Wordnet_init_warned :
  forall (d : db) (lexicon lang : option str) (nz : bool) (nt : list (str * str))
           (lem : option (list (str * list (option str * list str)))) (saf : bool)
           (w : Wordnet),
         Wordnet_init d lexicon lang None nz nt lem saf = Ok w ->
         negb (truthy lexicon) && negb (truthy lang) = false ->
         wn_warned w = true <->
         (exists (lex : lexicon_row) (dep : lexicon_dependency_row),
            In lex (t_lexicons d) /\
            In (lex_rowid lex) (wn_lexicon_ids w) /\
            In dep (t_lexicon_dependencies d) /\
            ld_dependent_rowid dep = lex_rowid lex /\ ld_provider_rowid dep = None).
Proof. exact (@Wordnet_init_warned). Qed.
Print Assumptions C12_Wordnet_init_warned.

Theorem C12_Wordnet_init_no_expand :
  forall (d : db) (lexicon lang : option str) (nz : bool) (nt : list (str * str))
           (lem : option (list (str * list (option str * list str)))) (saf : bool)
           (w : Wordnet),
         Wordnet_init d lexicon lang (Some []) nz nt lem saf = Ok w ->
         wn_expanded_ids w = [] /\ wn_warned w = false.
Proof. exact (@Wordnet_init_no_expand). Qed.
Print Assumptions C12_Wordnet_init_no_expand.

(* ---- X2: without expand lexicons, or for a synset without ILI, only the local relations *)
Theorem C12_Synset_iter_relations_no_expand :
  forall (d : db) (y : Synset) (args : list str),
         wn_expanded_ids (ss_wordnet y) = [] ->
         Synset_iter_relations d y args =
         (if negb (ss__id y =? NON_ROWID) then Synset_iter_local_relations d y args else Ok []).
Proof. exact (@Synset_iter_relations_no_expand). Qed.
Print Assumptions C12_Synset_iter_relations_no_expand.

Theorem C12_Synset_iter_relations_no_ili :
  forall (d : db) (y : Synset) (args : list str),
         ss_ili y = None ->
         Synset_iter_relations d y args =
         (if negb (ss__id y =? NON_ROWID) then Synset_iter_local_relations d y args else Ok []).
Proof. exact (@Synset_iter_relations_no_ili). Qed.
Print Assumptions C12_Synset_iter_relations_no_ili.

(* ---- X1: relations = local relations ++ expanded relations; an expanded relation exists exactly when a synset of an expand lexicon with the same ILI has that relation, and its target is mapped back through the target ILI (the local synsets with that ILI, or one inferred placeholder) *)
Theorem C12_Synset_iter_relations_split :
  forall (d : db) (y : Synset) (args : list str),
         Synset_iter_relations d y args =
         (do loc <-
          (if negb (ss__id y =? NON_ROWID) then Synset_iter_local_relations d y args else Ok []);
          do exp <-
          match ss_ili y with
          | Some _ =>
              if nonempty (wn_expanded_ids (ss_wordnet y))
              then Synset_iter_expanded_relations d y args
              else Ok []
          | None => Ok []
          end; Ok (loc ++ exp)).
Proof. exact (@Synset_iter_relations_split). Qed.
Print Assumptions C12_Synset_iter_relations_split.

Theorem C12_Synset_iter_expanded_relations_iff :
  forall d : db,
         db_ok d = true ->
         forall (y : Synset) (i : str) (args : list str) (pairs : list (Relation * Synset))
           (r : Relation) (t : Synset),
         ss_ili y = Some i ->
         i <> [] ->
         wn_expanded_ids (ss_wordnet y) <> [] ->
         Synset_iter_expanded_relations d y args = Ok pairs ->
         In (r, t) pairs <-> expanded_relation_row d y i args r t.
Proof. exact (@Synset_iter_expanded_relations_iff). Qed.
Print Assumptions C12_Synset_iter_expanded_relations_iff.

(* ---- the targets stay inside the scope or are placeholders (shared with C04) *)
Theorem C12_Synset_iter_expanded_relations_scope :
  forall (d : db) (y : Synset) (args : list str) (pairs : list (Relation * Synset))
           (r : Relation) (t : Synset),
         Synset_iter_expanded_relations d y args = Ok pairs ->
         In (r, t) pairs -> expanded_target_ok d y t.
Proof. exact (@Synset_iter_expanded_relations_scope). Qed.
Print Assumptions C12_Synset_iter_expanded_relations_scope.

Theorem C12_get_synsets_for_ilis_iff :
  forall (d : db) (ilis : list str) (ids : list Z) (q : q_synset),
         In q (get_synsets_for_ilis d ilis ids) <->
         (exists (ss : synset_row) (ili : ili_row),
            In ss (t_synsets d) /\
            In ili (t_ilis d) /\
            In (il_id ili) ilis /\
            sy_ili_rowid ss = Some (il_rowid ili) /\
            In (sy_lexicon_rowid ss) ids /\
            q =
            {|
              qy_id := sy_id ss;
              qy_pos := sy_pos ss;
              qy_ili := Some (il_id ili);
              qy_lexid := sy_lexicon_rowid ss;
              qy_rowid := sy_rowid ss
            |}).
Proof. exact (@get_synsets_for_ilis_iff). Qed.
Print Assumptions C12_get_synsets_for_ilis_iff.

(* ---- non-vacuity *)
Theorem C12_db_ok_sample_2 :
  db_ok sample_db_2 = true.
Proof. exact (@db_ok_sample_2). Qed.
Print Assumptions C12_db_ok_sample_2.

Theorem C12_run_core_agrees_on_fuel_case :
  sx_agree_default (run_core core_fuel_900000_0.input_0) core_fuel_900000_0.expected_0 = true.
Proof. exact (@run_core_agrees_on_fuel_case). Qed.
Print Assumptions C12_run_core_agrees_on_fuel_case.

