"""harness/mk_add_samples.py <seed> <count> <outdir> — real (input, expected) cases for Model/Add.v
(add_lexical_resource, remove, add of an ILI file)."""
import os
import random
import sys
HERE = os.path.dirname(os.path.abspath(__file__))
sys.path.insert(0, HERE)
import common    # noqa: E402
import gendoc    # noqa: E402
import addmodel  # noqa: E402

seed, count, outdir = int(sys.argv[1]), int(sys.argv[2]), sys.argv[3]
os.makedirs(outdir, exist_ok=True)
rng = random.Random(seed)
hs = []
for _ in range(count):
    u = gendoc.gen_universe(rng, size=2)
    ops = [['add', res] for _n, res in u]
    names = [n for n, _ in u]
    ops.insert(rng.randint(0, len(ops)), ['ili', 'ILI\tstatus\tdefinition\ni1\tactive\tfirst ili\ni2\tdeprecated\t\ni9\tactive\n'])
    ops.append(['remove', rng.choice(names)])
    ops.append(['add', u[0][1]])
    hs.append({'ops': ops})
outs = common.run_impl('run_trace.py', {'histories': hs})
k = 0
for h, rec in zip(hs, outs):
    before = rec['initial']
    for op, st in zip(h['ops'], rec['steps']):
        if op[0] == 'add':
            inp, exp = addmodel.add_case(before, op[1], st['after'], st['outcome'])
            fn = 'run_add'
        elif op[0] == 'remove':
            inp, exp = addmodel.remove_case(before, op[1], st['after'], st['outcome'])
            fn = 'run_remove'
        else:
            lines = [ln.split('\t') for ln in addmodel.ili_lines(op[1])]
            inp, exp = addmodel.ili_case_lines(before, lines, st['after'], st['outcome'])
            fn = 'run_add_ili'
        with open(os.path.join(outdir, 'case_%d_%d.v' % (seed, k)), 'w') as fh:
            fh.write('From Coq Require Import ZArith List.\nImport ListNotations.\nRequire Import WnV.Base.Sx.\n'
                     'Local Open Scope Z_scope.\n(* to be evaluated with %s *)\n' % fn)
            fh.write('Definition input_%d : sx :=\n %s.\n' % (k, common.sx(inp)))
            fh.write('Definition expected_%d : sx :=\n %s.\n' % (k, common.sx(exp)))
        before = st['after']
        k += 1
common.cleanup()
print('wrote', k, 'cases to', outdir)
