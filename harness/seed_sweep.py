"""harness/seed_sweep.py [--in-repo] [ids...] — re-runs the registered quick check of each seeded change's property with the
change applied and records the result in seeded/<id>/meta.json (`confirmation.check_rc/check_tail` = latest run; earlier
differing results are kept in `history`).

By default the change is applied to a scratch worktree of /repo (outside /repo and /verif, removed at the end) and the
check is pointed at it with VERIF_REPO, so that /repo itself is never modified while other work reads it.  With --in-repo
the change is applied to /repo (git apply) and undone straight afterwards (git checkout -- .): run nothing else meanwhile.
Several sweeps may run side by side when each has its own scratch path (SWEEP_WT) and its own set of properties
(harness/seed_sweep_all.sh)."""
import glob
import json
import os
import subprocess
import sys
V = os.path.dirname(os.path.dirname(os.path.abspath(__file__)))


def sh(cmd):
    return subprocess.run(cmd, shell=True, capture_output=True, text=True)


IN_REPO = '--in-repo' in sys.argv
args = [a for a in sys.argv[1:] if a != '--in-repo']
REPO = '/repo' if IN_REPO else os.environ.get('SWEEP_WT', '/tmp/wn-seedsweep')
if not IN_REPO:
    sh('git -C /repo worktree remove --force %s' % REPO)
    sh('rm -rf %s' % REPO)
    r0 = sh('git -C /repo worktree add --detach %s HEAD' % REPO)
    assert r0.returncode == 0, r0.stderr
ids = args or [os.path.basename(d) for d in sorted(glob.glob(os.path.join(V, 'seeded', 'C*-*')))]
assert sh('git -C %s diff --quiet' % REPO).returncode == 0, REPO + ' has uncommitted changes'
try:
    for sid in ids:
        d = os.path.join(V, 'seeded', sid)
        pid = sid.split('-')[0]
        meta = json.load(open(os.path.join(d, 'meta.json')))
        r = sh('git -C %s apply %s/patch.diff' % (REPO, d))
        if r.returncode != 0:
            r = sh('cd %s && patch -p1 -F3 --no-backup-if-mismatch < %s/patch.diff' % (REPO, d))
            if r.returncode != 0:
                sh('git -C %s checkout -- .' % REPO)
                print(sid, 'PATCH DOES NOT APPLY')
                continue
            open(os.path.join(d, 'patch.diff'), 'w').write(sh('git -C %s diff -- wn' % REPO).stdout)
        try:
            c = sh('cd %s && VERIF_REPO=%s timeout 1500 ./check %s --tier quick' % (V, REPO, pid))
        finally:
            sh('git -C %s checkout -- .' % REPO)
        tail = c.stdout.strip().splitlines()[-3:]
        conf = meta.setdefault('confirmation', {})
        old = (conf.get('check_rc'), (conf.get('check_tail') or [''])[-1])
        if old[0] is not None and old[0] != c.returncode:
            meta.setdefault('history', []).append({'check_rc': old[0], 'last_line': old[1]})
            if old[0] == 0 and c.returncode == 1 and not meta.get('first_run'):
                meta['first_run'] = 'not caught by the check as it was when the change was seeded; the check was strengthened'
        conf['check_rc'] = c.returncode
        conf['check_tail'] = tail
        json.dump(meta, open(os.path.join(d, 'meta.json'), 'w'), indent=1)
        print(sid, 'rc=%d' % c.returncode, tail[-1] if tail else '', flush=True)
    assert sh('git -C %s diff --quiet' % REPO).returncode == 0
finally:
    if not IN_REPO:
        sh('git -C /repo worktree remove --force %s' % REPO)
        sh('rm -rf %s' % REPO)
        sh('git -C /repo worktree prune')
