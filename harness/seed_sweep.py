"""harness/seed_sweep.py [ids...] — re-runs the registered quick check of each seeded change's property with the change
applied to /repo (git apply; undone straight afterwards) and records the result in seeded/<id>/meta.json
(`confirmation.check_rc/check_tail` = latest run; earlier differing results are kept in `history`).
Mutates /repo while it runs: run nothing else at the same time."""
import glob
import json
import os
import subprocess
import sys
V = os.path.dirname(os.path.dirname(os.path.abspath(__file__)))


def sh(cmd):
    return subprocess.run(cmd, shell=True, capture_output=True, text=True)


ids = sys.argv[1:] or [os.path.basename(d) for d in sorted(glob.glob(os.path.join(V, 'seeded', 'C*-*')))]
assert sh('git -C /repo diff --quiet').returncode == 0, '/repo has uncommitted changes'
for sid in ids:
    d = os.path.join(V, 'seeded', sid)
    pid = sid.split('-')[0]
    meta = json.load(open(os.path.join(d, 'meta.json')))
    r = sh('git -C /repo apply %s/patch.diff' % d)
    if r.returncode != 0:
        r = sh('cd /repo && patch -p1 -F3 --no-backup-if-mismatch < %s/patch.diff' % d)
        if r.returncode != 0:
            sh('git -C /repo checkout -- .')
            print(sid, 'PATCH DOES NOT APPLY')
            continue
        open(os.path.join(d, 'patch.diff'), 'w').write(sh('git -C /repo diff -- wn').stdout)
    try:
        c = sh('cd %s && timeout 1500 ./check %s --tier quick' % (V, pid))
    finally:
        sh('git -C /repo checkout -- .')
    tail = c.stdout.strip().splitlines()[-3:]
    conf = meta.setdefault('confirmation', {})
    old = (conf.get('check_rc'), (conf.get('check_tail') or [''])[-1])
    if old[0] is not None and old[0] != c.returncode:
        meta.setdefault('history', []).append({'check_rc': old[0], 'last_line': old[1]})
        if old[0] == 0 and c.returncode == 1 and not meta.get('first_run'):
            meta['first_run'] = 'not caught by the check as it was when the change was seeded; the check was strengthened'
    conf['check_rc'] = c.returncode
    conf['check_tail'] = tail
    json.dump(meta, open(os.path.join(d, 'meta.json'), 'w'), indent=1)
    print(sid, 'rc=%d' % c.returncode, tail[-1] if tail else '')
assert sh('git -C /repo diff --quiet').returncode == 0
