"""Case encoding for the add/remove model (Model/Add.v): resources as JSON-like values,
database tables with decoded metadata, and real before/after traces."""
import json
import unicodedata

META_COLS = {'ilis': [4], 'proposed_ilis': [3], 'lexicons': [10], 'entries': [4], 'synsets': [7],
             'synset_relations': [5], 'definitions': [6], 'synset_examples': [5], 'senses': [8],
             'sense_relations': [5], 'sense_synset_relations': [5], 'sense_examples': [5], 'counts': [4]}


def val(x):
    """JSON-like value -> wire: None [0]; bool [1,b]; int [2,n]; str [3,s]; list [4,[...]]; dict [5,[[k,v]...]]"""
    if x is None:
        return [0]
    if isinstance(x, bool):
        return [1, int(x)]
    if isinstance(x, int):
        return [2, x]
    if isinstance(x, str):
        return [3, x]
    if isinstance(x, (list, tuple)):
        return [4, [val(v) for v in x]]
    if isinstance(x, dict):
        return [5, [[k, val(v)] for k, v in x.items()]]
    raise TypeError(type(x))


def project_db(tables):
    """tables from battery.dump_tables(): cells [0] NULL | [1,n] | [2,text] | [3,val] (decoded metadata)"""
    out = []
    for name, rows in tables.items():
        mc = META_COLS.get(name, [])
        prow = []
        for row in rows:
            cells = []
            for i, v in enumerate(row):
                if v is None:
                    cells.append([0])
                elif i in mc:
                    cells.append([3, val(json.loads(v))])
                elif isinstance(v, int):
                    cells.append([1, int(v)])
                else:
                    cells.append([2, str(v)])
            prow.append(cells)
        out.append([name, prow])
    return out


def normalize_form(s):
    return ''.join(c for c in unicodedata.normalize('NFKD', s.lower()) if not unicodedata.combining(c))


def norm_table(resource):
    forms = set()
    for lx in resource['lexicons']:
        for e in lx.get('entries', []):
            if e.get('lemma') and 'writtenForm' in e['lemma']:
                forms.add(e['lemma']['writtenForm'])
            for f in e.get('forms', []):
                if 'writtenForm' in f:
                    forms.add(f['writtenForm'])
    return sorted([f, normalize_form(f)] for f in forms)


def add_case(before, resource, after, outcome):
    """input = L [db; resource; norm table]; expected = L [1; db'] | L [-1] (wn.Error) | L [-5] (other exception)"""
    inp = [project_db(before), val(resource), norm_table(resource)]
    if outcome == 'ok':
        exp = [1, project_db(after)]
    elif outcome == 'WnError':
        exp = [-1]
    else:
        exp = [-5]
    return inp, exp


def remove_case(before, specifier, after, outcome):
    inp = [project_db(before), specifier]
    exp = [1, project_db(after)] if outcome == 'ok' else ([-1] if outcome == 'WnError' else [-5])
    return inp, exp


def ili_case_lines(before, lines, after, outcome):
    """lines: the ILI file as a list of lists of tab-separated fields (header first) — input of Model/Add.v run_add_ili (used
    for the recorded samples)"""
    inp = [project_db(before), [[f for f in ln] for ln in lines]]
    exp = [1, project_db(after)] if outcome == 'ok' else ([-1] if outcome == 'WnError' else [-5])
    return inp, exp


def ili_case(before, text, after, outcome):
    """text: the content of the ILI file as written — input of Model/IliFile.v run_add_ili_text, which does the splitting into
    lines (universal newlines) and tab-separated fields itself"""
    inp = [project_db(before), text]
    exp = [1, project_db(after)] if outcome == 'ok' else ([-1] if outcome == 'WnError' else [-5])
    return inp, exp


def ili_lines(text):
    """the lines a text-mode file object yields (universal newlines: \\n, \\r\\n and \\r end a line, nothing else does — in
    particular not U+2028, U+0085, form feed or the C0 separators that str.splitlines() also breaks at), without line ends"""
    parts = text.replace('\r\n', '\n').replace('\r', '\n').split('\n')
    if parts and parts[-1] == '':
        parts.pop()
    return parts


def trace_pairs(ops, rec):
    """ops: the operations given to run_trace.py; rec: its record.  Returns {fn: [(input, expected)]}"""
    out = {'run_add': [], 'run_remove': [], 'run_add_ili': []}
    before = rec['initial']
    for op, st in zip(ops, rec['steps']):
        if op[0] == 'add':
            out['run_add'].append(add_case(before, op[1], st['after'], st['outcome']))
        elif op[0] == 'remove':
            out['run_remove'].append(remove_case(before, op[1], st['after'], st['outcome']))
        elif op[0] == 'ili':
            out['run_add_ili'].append(ili_case(before, op[1], st['after'], st['outcome']))
        before = st['after']
    return out


def run_correspondence(rep, common, pairs_by_fn, tag):
    """evaluates Model/Add.v on real before/after traces; reports mismatches as a broken correspondence"""
    total = 0
    for fn, pairs in pairs_by_fn.items():
        if not pairs:
            continue
        # the ILI file is given to the model as text (Model/IliFile.v splits it and calls Model/Add.v add_ili)
        mod, cfn = {'run_add_ili': ('WnV.Model.IliFile', 'run_add_ili_text')}.get(fn, ('WnV.Model.Add', fn))
        mism, info = common.coq_mismatches(mod, cfn, 'sx_agree_default', pairs, tag=tag + fn, shard=12,
                                           want_model_out=False)
        total += len(pairs)
        if info['errors']:
            rep.broke('correspondence evaluation failed in Coq (%s): %s' % (fn, '; '.join(info['errors'])[:1200]))
        if mism:
            rep.broke('correspondence Model/Add.v %s vs the real tables: %d of %d steps differ (first differing step input '
                      'starts: %s)' % (fn, len(mism), len(pairs), str(pairs[mism[0]][0][1])[:600]))
        rep.coverage['traces_validated_against_impl_' + fn] = len(pairs)
        rep.coverage['correspondence_mismatches_' + fn] = len(mism)
    return total
