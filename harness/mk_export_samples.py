"""harness/mk_export_samples.py <seed> <count> <outdir> — real cases for Model/Export.v (run_export)."""
import os
import random
import sys
HERE = os.path.dirname(os.path.abspath(__file__))
sys.path.insert(0, HERE)
import common    # noqa: E402
import gendoc    # noqa: E402
import addmodel  # noqa: E402

seed, count, outdir = int(sys.argv[1]), int(sys.argv[2]), sys.argv[3]
os.makedirs(outdir, exist_ok=True)
rng = random.Random(seed)
unis = [{'resources': gendoc.gen_universe(rng, size=2), 'versions': ['1.0', '1.1', '1.3'], 'style_seed': None}
        for _ in range(count)]
outs = common.run_impl('run_export.py', {'universes': unis})
k = 0
for u, rec in zip(unis, outs):
    db = addmodel.project_db(rec['tables'])
    for rowid, v, outcome, d in rec['exports']:
        inp = [db, rowid, v]
        exp = addmodel.val(d) if outcome == 'ok' else [-1 if outcome == 'WnError' else -5]
        with open(os.path.join(outdir, 'case_%d_%d.v' % (seed, k)), 'w') as fh:
            fh.write('From Coq Require Import ZArith List.\nImport ListNotations.\nRequire Import WnV.Base.Sx.\n'
                     'Local Open Scope Z_scope.\n(* to be evaluated with run_export *)\n')
            fh.write('Definition input_%d : sx :=\n %s.\n' % (k, common.sx(inp)))
            fh.write('Definition expected_%d : sx :=\n %s.\n' % (k, common.sx(exp)))
        k += 1
common.cleanup()
print('wrote', k, 'cases to', outdir)
