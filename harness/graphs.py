"""Graph generators and naive reference graph algorithms for the graph family."""
import itertools


def all_digraphs(n):
    """Every labelled digraph on nodes 1..n, self-loops allowed (2^(n*n))."""
    cells = [(a, b) for a in range(1, n + 1) for b in range(1, n + 1)]
    for bits in range(1 << len(cells)):
        yield [cells[i] for i in range(len(cells)) if bits >> i & 1]


def mk_graph(k, n, edges, rng, pos_mode=None, hypo_mode='reverse'):
    """edges: list of (src, tgt).  Chooses relation types, parts of speech and the
    declared hyponym relations."""
    pos_mode = pos_mode or rng.choice(['n', 'n', 'n', 'v', 'as', 'nv'])
    if pos_mode == 'as':
        pos = [rng.choice('as') for _ in range(n)]
        qpos = rng.choice('as')
    elif pos_mode == 'nv':
        pos = [rng.choice('nnv') for _ in range(n)]
        qpos = 'n'
    else:
        pos = [pos_mode] * n
        qpos = pos_mode
    es = []
    for s, t in edges:
        ty = 'instance_hypernym' if rng.random() < 0.25 else 'hypernym'
        es.append([s, t, ty])
        if rng.random() < 0.1:   # the same edge declared under both types
            es.append([s, t, 'hypernym' if ty != 'hypernym' else 'instance_hypernym'])
    for s, t in edges:
        if hypo_mode == 'reverse' or (hypo_mode == 'mostly' and rng.random() < 0.8):
            es.append([t, s, 'instance_hyponym' if rng.random() < 0.25 else 'hyponym'])
    rng.shuffle(es)
    return {'k': k, 'n': n, 'pos': pos, 'qpos': qpos, 'edges': es,
            'plain_edges': sorted(set(map(tuple, edges)))}


def random_edges(rng, n, kind):
    nodes = list(range(1, n + 1))
    edges = set()
    if kind == 'forest':
        for i in range(2, n + 1):
            if rng.random() < 0.85:
                edges.add((i, rng.randint(1, i - 1)))
    elif kind == 'dag':
        for i in range(2, n + 1):
            for j in range(1, i):
                if rng.random() < 2.2 / n:
                    edges.add((i, j))
    elif kind == 'diamond':
        for i in range(2, n + 1):
            for j in rng.sample(range(1, i), min(i - 1, rng.choice([1, 2, 2]))):
                edges.add((i, j))
    elif kind == 'cyclic':
        for i in range(2, n + 1):
            edges.add((i, rng.randint(1, i - 1)))
        for _ in range(rng.randint(1, 3)):
            a, b = rng.choice(nodes), rng.choice(nodes)
            edges.add((a, b))
    else:  # sparse random
        for a in nodes:
            for b in nodes:
                if rng.random() < 1.6 / n:
                    edges.add((a, b))
    return sorted(edges)


# ---------------------------------------------------------------- reference algorithms

def adj_of(n, edges):
    adj = {i: [] for i in range(0, n + 1)}
    for s, t in edges:
        if t not in adj[s]:
            adj[s].append(t)
    return adj


def maximal_simple_chains(adj, x):
    """All maximal simple chains from x (x not listed), by brute force: a chain may be
    extended by any hypernym not yet on it (and different from x); it is reported
    when no extension exists.  The empty chain is reported only via include_self."""
    res = []

    def go(path, seen):
        ext = [t for t in adj[path[-1]] if t not in seen]
        if not ext:
            res.append(path[1:])
        for t in ext:
            go(path + [t], seen | {t})
    go([x], {x})
    return res


def reach_set(adj, x):
    seen = {x}
    todo = [x]
    while todo:
        y = todo.pop()
        for t in adj[y]:
            if t not in seen:
                seen.add(t)
                todo.append(t)
    return seen


def bfs_dist(adj, x):
    d = {x: 0}
    frontier = [x]
    while frontier:
        nxt = []
        for y in frontier:
            for t in adj[y]:
                if t not in d:
                    d[t] = d[y] + 1
                    nxt.append(t)
        frontier = nxt
    return d


def has_cycle(n, edges):
    adj = adj_of(n, edges)
    for x in range(1, n + 1):
        for t in adj[x]:
            if x in reach_set(adj, t):
                return True
    return False
