IMPORTS = '''From Coq Require Import String.
From Coq Require Import ZArith List Bool.
Import ListNotations.
Require Import WnV.Base.Sx WnV.Gen.Schema WnV.Gen.Constants WnV.Model.Spec WnV.Model.Val.
Require Import WnV.Model.Rel WnV.Model.Add WnV.Proofs.AddProofs.'''
SCOPES = 'Local Open Scope Z_scope.\nLocal Open Scope string_scope.'
