import os, sys
sys.path.insert(0, os.path.dirname(os.path.abspath(__file__)))
from _core_common import IMPORTS, SCOPES
HEADER = '''relations borrowed through expand lexicons are mapped by ILI as documented (model: Core.Wordnet_init,
   Core.Synset_iter_relations / _iter_expanded_relations).'''
ITEMS = [
 ('comment', '---- X3: which lexicons become expand lexicons (explicit argument, or the resolved dependencies of the selection by default; a warning when a dependency is not installed)'),
 ('thm', 'Wordnet_init_spec'), ('thm', 'Wordnet_init_warned'), ('thm', 'Wordnet_init_no_expand'),
 ('comment', '---- X2: without expand lexicons, or for a synset without ILI, only the local relations'),
 ('thm', 'Synset_iter_relations_no_expand'), ('thm', 'Synset_iter_relations_no_ili'),
 ('comment', '---- X1: relations = local relations ++ expanded relations; an expanded relation exists exactly when a synset of an expand lexicon with the same ILI has that relation, and its target is mapped back through the target ILI (the local synsets with that ILI, or one inferred placeholder)'),
 ('thm', 'Synset_iter_relations_split'), ('thm', 'Synset_iter_expanded_relations_iff'),
 ('comment', '---- the targets stay inside the scope or are placeholders (shared with C04)'),
 ('thm', 'Synset_iter_expanded_relations_scope'), ('thm', 'get_synsets_for_ilis_iff'),
 ('comment', '---- non-vacuity'),
 ('thm', 'db_ok_sample_2'), ('thm', 'run_core_agrees_on_fuel_case'),
]
