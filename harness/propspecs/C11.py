import os, sys
sys.path.insert(0, os.path.dirname(os.path.abspath(__file__)))
import _core_common
IMPORTS = _core_common.IMPORTS + '\nRequire WnV.Model.Taxonomy WnV.Proofs.TaxSpec WnV.Proofs.TaxPaths WnV.Proofs.AgendaProofs.'
SCOPES = _core_common.SCOPES
HEADER = '''relation queries return exactly the declared relations; closures and relation paths terminate
   (model: Core.Sense_* / Synset_* relation functions over Query.get_*_relations; Proofs/AgendaProofs.v relates
   the agenda loops of the Python code to the recursive definitions).'''
ITEMS = [
 ('comment', '---- R1: a (relation, target) pair is reported exactly when a relation row of the requested type, declared by a lexicon in scope, links the source to the target (in scope)'),
 ('thm', 'Sense_iter_sense_relations_iff'), ('thm', 'Sense_iter_sense_relations_Ok'), ('thm', 'Synset_iter_local_relations_iff'),
 ('thm', 'Synset_iter_local_relations_Ok'),
 ('thm', 'get_sense_relations_iff'), ('thm', 'synset_target_query_iff'),
 ('comment', '---- get_related / relations / relation_map are projections of the same pairs'),
 ('thm', 'Sense_get_related_def'), ('thm', 'Sense_get_related_iff'), ('thm', 'Sense_relation_map_iff'), ('thm', 'Sense_relations_iff'),
 ('thm', 'Synset_get_related_def'), ('thm', 'Synset_relation_map_def'), ('thm', 'Synset_relations_def'),
 ('comment', '---- Relation objects: equality is (name, source, target, lexicon, dc:type); the dc:type (subtype) is read from the metadata'),
 ('thm', 'Relation_eqb_iff'), ('thm', 'Relation_subtype_distinguishes'), ('thm', 'Relation_subtype_def'),
 ('comment', '---- R2: closure terminates with the fuel the model uses, lists no identifier twice, lists only reachable entities and is closed under get_related; it is exactly the reachable set when identifiers are unique among them'),
 ('thm', 'closure_ok'), ('thm', 'closure_exact'),
 ('thm', 'Sense_closure_ok'), ('thm', 'Sense_closure_exact'), ('thm', 'Synset_closure_ok'), ('thm', 'Synset_closure_exact'),
 ('comment', '---- R3: relation_paths terminates and every path is a simple chain of get_related steps that cannot be extended'),
 ('thm', 'paths_from_sound'), ('thm', 'relation_paths_sound'), ('thm', 'relation_paths_simple'), ('thm', 'relation_paths_total'),
 ('thm', 'Sense_relation_paths_ok'), ('thm', 'Synset_relation_paths_sound'), ('thm', 'Synset_relation_paths_total'),
 ('comment', '---- the code runs agenda loops (a stack for relation_paths, a queue for closure): the loops compute what the recursive definitions compute, in the same order, and terminate on every finite graph (over an abstract get_related function [hyp])'),
 ('thm', 'WnV.Proofs.AgendaProofs.loop_refines_recursion'), ('thm', 'WnV.Proofs.AgendaProofs.loop_py_refines_recursion'),
 ('thm', 'WnV.Proofs.AgendaProofs.loop_terminates'), ('thm', 'WnV.Proofs.AgendaProofs.loop_spec'),
 ('thm', 'WnV.Proofs.AgendaProofs.closure_loop_spec'), ('thm', 'WnV.Proofs.AgendaProofs.closure_loop_terminates_bound'),
 ('comment', '---- non-vacuity: db_ok on real dumps; the fuel bound is met with equality-free slack on the database that refuted the previous bound'),
 ('thm', 'db_ok_sample_1'), ('thm', 'db_ok_fuzz'), ('thm', 'old_fuel_bound_refuted'), ('thm', 'model_fuel_suffices'),
]
