IMPORTS = '''From Coq Require Import String.
From Coq Require Import ZArith List Bool.
Import ListNotations.
Require Import WnV.Base.Sx WnV.Model.Spec WnV.Model.Tables WnV.Model.Query WnV.Model.Core.
Require Import WnV.Proofs.CoreLemmas WnV.Proofs.QueryFacts WnV.Proofs.ScopeProofs WnV.Proofs.SearchProofs
        WnV.Proofs.NavProofs WnV.Proofs.RelGeneric WnV.Proofs.RelProofs WnV.Proofs.RelClosureProofs
        WnV.Proofs.ExpandProofs WnV.Proofs.FrameProofs WnV.Proofs.CoreNonvacuity.'''
SCOPES = 'Local Open Scope Z_scope.'
