HEADER = '''export then re-import preserves the lexicons — the export half (model: Model/Export.v written from wn/_export.py over
   the query model Model/Query.v; the dump/load half of the round trip is Properties/C02.v, the add half C01/C05).
   Well-formedness predicates (Proofs/ExportProofs.v, all boolean, all true on real dumps: Example sample_wf):
   wf_*_rowids = table in strictly increasing rowid order; wf_entry_forms = every entry has a form; wf_form_ranks = a rank-0
   form and no NULL/negative rank; wf_sense_refs = senses resolve; wf_sense_entries/ids/sb_links = per-lexicon consistency;
   ili_ids_ok = no ILI is called "" or "in".'''
IMPORTS = '''From Coq Require Import String.
From Coq Require Import ZArith List Bool.
Import ListNotations.
Require Import WnV.Base.Sx WnV.Model.Val WnV.Model.Tables WnV.Model.Query WnV.Model.Export WnV.Proofs.ExportProofs.'''
SCOPES = 'Local Open Scope Z_scope.'
ITEMS = [
 ('comment', '---- E1: export refuses exactly the lexicon lists whose identifier sets clash'),
 ('thm', 'E1_precheck'), ('thm', 'E1_precheck_error'), ('thm', 'E1_idset'),
 ('comment', '---- E2: nothing lost, nothing invented: every entry of the lexicon once, in rowid order, with id, pos, lemma = rank-0 form, forms in rank order, and its senses in entry-rank order; every synset once'),
 ('thm', 'E2_entries'), ('thm', 'E2_entries_all'), ('thm', 'E2_lemma_rank0'), ('thm', 'E2_senses_all'), ('thm', 'E2_senses_only'), ('thm', 'E2_synsets'),
 ('comment', '---- E3: sense-frame links: >= 1.1 subcat lists exactly the ids of the linked behaviours that have an id (frames without id cannot be referenced: finding F18); 1.0 frames list exactly the linked senses'),
 ('thm', 'E3_subcat'), ('thm', 'E3_frames_1_0'), ('thm', 'sb_link_this_sense'),
 ('comment', '---- E4: the ili attribute: the ILI id when the synset has an ILI, "in" exactly for a proposed ILI, "" otherwise'),
 ('thm', 'E4_spec'), ('thm', 'E4'), ('thm', 'E4_counterexample'),
 ('comment', '---- E5: members (>= 1.1) = the sense ids of the synset in synset-rank order'),
 ('thm', 'E5'), ('thm', 'senses_by_all'),
 ('comment', '---- non-vacuity on a database dumped from the real implementation'),
 ('thm', 'sample_wf'), ('thm', 'sample_exports'), ('thm', 'sample_precheck'),
]
