import os, sys
sys.path.insert(0, os.path.dirname(os.path.abspath(__file__)))
from _add_common import IMPORTS, SCOPES
HEADER = '''loading an ILI index only updates status and definitions (model: Add.add_ili written from wn/_add.py _add_ili;
   the file-format recogniser is_ili is part of Model/Project.v, Properties/C07.v).
   [ilis_ok] (Proofs/AddProofs.v): every ilis row is [rowid; id; status; definition; metadata] with distinct rowids and ids.'''
ITEMS = [
 ('comment', '---- nothing but the ilis and ili_statuses tables is touched: no lexicon content changes'),
 ('thm', 'add_ili_touches_only_ili_tables'),
 ('comment', '---- an ILI listed in the file ends with the status and definition of its LAST line (NULL definition when the field is missing), keeping its rowid and metadata'),
 ('thm', 'add_ili_listed'),
 ('comment', '---- every other ILI row is unchanged; new rows are appended only for listed ids that were absent, with fresh rowids'),
 ('thm', 'add_ili_unlisted'),
 ('comment', '---- loading the same index again changes nothing (exact database equality)'),
 ('thm', 'add_ili_idempotent'),
 ('comment', '---- statuses: old rows kept as a prefix, every status of the file present afterwards, nothing else added'),
 ('thm', 'add_ili_statuses_grow'),
 ('comment', '---- the well-formedness predicate is preserved and makes the row of an id unique'),
 ('thm', 'add_ili_ilis_ok'), ('thm', 'ilis_ok_unique'),
 ('comment', '---- non-vacuity: a database built by two add_ili calls on the empty database satisfies ilis_ok'),
 ('thm', 'ex_db_ilis_ok'),
]
