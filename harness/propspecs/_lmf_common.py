IMPORTS = '''From Coq Require Import String.
From Coq Require Import ZArith List Bool.
Import ListNotations.
Require Import WnV.Base.Sx WnV.Gen.LmfTables WnV.Model.Val WnV.Model.XmlText WnV.Model.Lmf.
Require Import WnV.Proofs.XmlTextProofs WnV.Proofs.LmfProofs.'''
SCOPES = 'Local Open Scope Z_scope.'
