import os, sys
sys.path.insert(0, os.path.dirname(os.path.abspath(__file__)))
from _add_common import IMPORTS, SCOPES
HEADER = '''database content depends only on which lexicons are installed (model: Add.add_lexical_resource / Add.remove over the
   relational layer Model/Rel.v; the schema, with every foreign key and its ON DELETE action, is regenerated from
   wn/schema.sql into Gen/Schema.v on every run).
   [fk_ok d]: every foreign-key cell of every table is NULL or the rowid of a row of the parent table (generic over the schema).
   [db_rowids_ok d]: rowids are unique per table.  [doomed d roots]: the ON DELETE CASCADE closure of the root rows.
   [row_le t r' r]: same row up to ON DELETE SET NULL columns.  [db_ext d d']: every table of d' is the rows of d, in place,
   followed by new rows with larger rowids (only lexicon_dependencies.provider_rowid may change in place).'''
ITEMS = [
 ('comment', '---- removal: no dangling reference is ever left behind (any table, any schema-driven cascade)'),
 ('thm', 'delete_row_fk_ok'), ('thm', 'delete_seq_fk_ok'),
 ('comment', '---- wn.remove: the selected lexicons and, for each, exactly its transitive extensions are removed; no row of any table still refers to a removed lexicon'),
 ('thm', 'remove_one_spec'), ('thm', 'get_lexicon_extensions_spec'), ('thm', 'remove_owned_rows_gone'), ('thm', 'remove_single'),
 ('comment', '---- frame: every row outside the cascade closure of the removed lexicons survives unchanged (up to SET NULL columns: dependency links of other lexicons are reset); everything inside is gone'),
 ('thm', 'remove_frame'), ('thm', 'delete_seq_frame'), ('thm', 'delete_seq_doomed_gone'),
 ('comment', '---- a specifier matching nothing raises wn.Error; "*" on an empty database is a no-op'),
 ('thm', 'remove_nothing_matches'), ('thm', 'remove_star_empty'),
 ('comment', '---- add: existing rows of every table stay where they are (other lexicons are untouched; only pending dependency links may be resolved); references stay valid'),
 ('thm', 'add_lexical_resource_monotone'), ('thm', 'add_keeps_rows'), ('thm', 'add_keeps_dependencies'), ('thm', 'add_lexical_resource_fk_ok'),
 ('comment', '---- adding again is a no-op; an extension whose base is missing is skipped; what is skipped depends only on (id, version, extends)'),
 ('thm', 'add_lexical_resource_skips'), ('thm', 'readd_is_noop'), ('thm', 'extensions_without_base_skipped'), ('thm', 'precheck_depends_on_spec_only'),
 ('comment', '---- the schema facts the statements rest on (recomputed from Gen/Schema.v): which columns are SET NULL, which tables refer to lexicons'),
 ('thm', 'setnull_columns'), ('thm', 'references_to_lexicons'), ('thm', 'lexicon_rowid_columns_covered'),
 ('comment', '---- non-vacuity: a database built by the model from documents satisfies the hypotheses; a removal and a re-add on it'),
 ('thm', 'ex_db2_ok'), ('thm', 'ex_remove'), ('thm', 'ex_readd'),
]
