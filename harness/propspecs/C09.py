import os, sys
sys.path.insert(0, os.path.dirname(os.path.abspath(__file__)))
from _core_common import IMPORTS, SCOPES
HEADER = '''word-form search follows the documented procedure (model: Core._find_helper over the find_entries, find_senses, find_synsets queries).
   [candidates w form pos] = the (pos, forms) buckets proposed by the lemmatizer (or the form itself);
   [pass] = one query pass over all buckets (exact forms first; the normalized pass only when the first found nothing).'''
ITEMS = [
 ('comment', '---- shape of the procedure: exact pass over every candidate bucket; only if it is empty and a normalizer is set, one normalized pass; results de-duplicated in first-occurrence order'),
 ('thm', 'find_helper_form'), ('thm', 'find_helper_nodup'), ('thm', 'find_helper_first_pass'), ('thm', 'find_helper_second_pass'),
 ('comment', '---- the candidate buckets: without a lemmatizer the form under the given pos; with one, its proposals (filtered by pos), or the form itself when it proposes nothing'),
 ('thm', 'candidates_no_lemmatizer'), ('thm', 'candidates_lemmatizer'), ('thm', 'candidates_lemmatizer_nothing'),
 ('comment', '---- soundness: every result has a form row matching one of the candidate forms (original or normalized column), of the requested pos, inside the selected lexicons'),
 ('thm', 'words_have_matching_form'), ('thm', 'senses_have_matching_form'), ('thm', 'synsets_have_matching_form'),
 ('comment', '---- completeness of one query pass: an entry/sense/synset of the selection with a matching form is returned'),
 ('thm', 'words_complete'), ('thm', 'senses_complete'), ('thm', 'synsets_complete'),
 ('comment', '---- the underlying queries, characterised row by row'),
 ('thm', 'find_entries_sound'), ('thm', 'find_entries_complete'), ('thm', 'find_senses_iff'), ('thm', 'find_synsets_iff'),
 ('comment', '---- non-vacuity'),
 ('thm', 'db_ok_sample_1'), ('thm', 'db_ok_fuzz'),
]
