import os, sys
sys.path.insert(0, os.path.dirname(os.path.abspath(__file__)))
from _core_common import IMPORTS, SCOPES
HEADER = '''queries stay inside the selected lexicons (model: Model/Core.v over Model/Query.v, Model/Tables.v).
   [scope d w l] (Proofs/ScopeProofs.v) is the set of lexicon rowids an entity of lexicon l may reach in
   Wordnet w: the Wordnet's selection outside default mode, the entity's own lexicon family in default mode.
   [db_ok] (Proofs/QueryFacts.v) = rowids are unique, no entity has lexicon rowid 0, senses resolve.
   [expanded_target_ok] = in scope, or an inferred placeholder (rowid 0) carrying the source's lexicon.'''
ITEMS = [
 ('comment', '---- the scope itself'),
 ('thm', 'scope_nondefault'), ('thm', 'scope_default'), ('thm', 'Wordnet_init_selects'),
 ('comment', '---- primary queries of a Wordnet return entities of the selected lexicons, bound to that Wordnet'),
 ('thm', 'Wordnet_words_scope'), ('thm', 'Wordnet_senses_scope'), ('thm', 'Wordnet_synsets_scope'),
 ('thm', 'Wordnet_word_scope'), ('thm', 'Wordnet_sense_scope'), ('thm', 'Wordnet_synset_scope'),
 ('comment', '---- every navigation step stays in the scope of its receiver (any mode) and keeps the Wordnet'),
 ('thm', 'Word_senses_scope'), ('thm', 'Synset_senses_scope'), ('thm', 'Sense_word_scope'), ('thm', 'Sense_synset_scope'),
 ('thm', 'Word_synsets_scope'), ('thm', 'Synset_words_scope'),
 ('thm', 'Sense_get_related_scope'), ('thm', 'Sense_relations_scope'), ('thm', 'Sense_relation_map_scope'),
 ('thm', 'Sense_get_related_synsets_scope'), ('thm', 'Synset_iter_local_relations_scope'),
 ('thm', 'Synset_iter_expanded_relations_scope'), ('thm', 'Synset_get_related_scope'), ('thm', 'Synset_relations_scope'),
 ('thm', 'Synset_relation_map_scope'), ('thm', 'Synset_get_related_scope_no_expand'),
 ('comment', '---- specialised to a restricted Wordnet w: everything reached from an entity of w lies in the selection of w'),
 ('thm', 'S1_Word_senses'), ('thm', 'S1_Synset_senses'), ('thm', 'S1_Sense_word'), ('thm', 'S1_Sense_synset'),
 ('thm', 'S1_Word_synsets'), ('thm', 'S1_Synset_words'), ('thm', 'S1_Sense_get_related'), ('thm', 'S1_Sense_relations'),
 ('thm', 'S1_Sense_relation_map'), ('thm', 'S1_Sense_get_related_synsets'), ('thm', 'S1_Synset_local_relations'),
 ('thm', 'S1_Synset_expanded_relations'), ('thm', 'S1_Synset_get_related'),
 ('comment', '---- frame: a query restricted to lexicon rowids [ids] returns the same rows on two databases that agree on the rows of those lexicons (and on the rows those rows point to)'),
 ('thm', 'get_senses_frame'), ('thm', 'get_entry_senses_frame'), ('thm', 'get_synset_members_frame'),
 ('thm', 'find_senses_frame'), ('thm', 'find_entries_frame'), ('thm', 'find_synsets_frame'),
 ('thm', 'get_synset_relations_frame'), ('thm', 'get_sense_synset_relations_frame'), ('thm', 'get_sense_relations_frame'),
 ('comment', '---- non-vacuity: db_ok holds on databases decoded from real dumps (built by wn.add, and an adversarial table-level one)'),
 ('thm', 'db_ok_sample_1'), ('thm', 'db_ok_sample_2'), ('thm', 'db_ok_fuzz'),
]
