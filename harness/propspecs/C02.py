import os, sys
sys.path.insert(0, os.path.dirname(os.path.abspath(__file__)))
from _lmf_common import IMPORTS as _I, SCOPES
IMPORTS = _I + '\nRequire Import WnV.Proofs.LmfRoundTrip.'
HEADER = '''WN-LMF load/dump is a lossless round trip (models: Model/XmlText.v = the serialisers of CPython that wn.lmf.dump uses
   (ElementTree _escape_attrib/_escape_cdata, xml.sax.saxutils.quoteattr) and what an XML parser makes of their output
   (xml_attr_value, xml_char_data: reference decoding, attribute-value and end-of-line normalisation per the XML
   recommendation); Model/Lmf.v = wn.lmf dump and load).  [expat_view] turns the element tree dump builds into the tree expat
   reports for its serialisation; nf_K are the normal forms of the loader's dictionaries (image of load after dump).'''
ITEMS = [
 ('comment', '---- strings: every attribute value and every text survives serialisation and parsing, character for character (all code points, including quotes, <, &, tabs, newlines, CR)'),
 ('thm', 'attr_roundtrip_ET_all'), ('thm', 'attr_roundtrip_quoteattr_all'), ('thm', 'escape_attrib_wellformed'),
 ('thm', 'text_roundtrip_exact'), ('thm', 'text_roundtrip_eol'), ('thm', 'text_roundtrip_all'), ('thm', 'text_roundtrip'),
 ('thm', 'escape_cdata_wellformed'), ('thm', 'norm_ws_idempotent'), ('thm', 'norm_ws_normalize_eol'),
 ('comment', '---- the header dump writes is the header load accepts, for the version asked for'),
 ('thm', 'dump_header_accepted'), ('thm', 'supported_iff'),
 ('comment', '---- the round trip, element kind by element kind: for a dictionary d in the normal form of its kind, the element dump builds for it is parsed and validated back into exactly d (exact equality incl. key order), at every indentation level; [iview]/[expat_view] = what expat reports for the serialised element'),
 ('thm', 'tag_roundtrip'), ('thm', 'pron_roundtrip'), ('thm', 'dep_roundtrip'), ('thm', 'sb10_roundtrip'), ('thm', 'sb11_roundtrip'),
 ('thm', 'example_roundtrip'), ('thm', 'definition_roundtrip'), ('thm', 'ilidef_roundtrip'), ('thm', 'relation_roundtrip'), ('thm', 'count_roundtrip'),
 ('thm', 'lemma_roundtrip'), ('thm', 'xlemma_roundtrip'), ('thm', 'form_roundtrip'), ('thm', 'xform_roundtrip'),
 ('thm', 'sense_roundtrip'), ('thm', 'xsense_roundtrip'), ('thm', 'synset_roundtrip'), ('thm', 'xsynset_roundtrip'),
 ('thm', 'entry_roundtrip'), ('thm', 'xentry_roundtrip'), ('thm', 'lexicon_roundtrip'),
 ('comment', '---- whole documents: load (dump R) = R for every resource R in normal form, in every supported version; the dumped file is exactly header ++ root tag ++ the lexicon texts ++ end tag, and dump is total on normal forms'),
 ('thm', 'document_roundtrip'), ('thm', 'dump_load_roundtrip'), ('thm', 'dump_lexicon_xml'), ('thm', 'dump_text'), ('thm', 'dump_load_roundtrip_text'),
 ('comment', '---- metadata and integers'),
 ('thm', 'meta_dict_nf'), ('thm', 'parse_int_dec'),
 ('comment', '---- non-vacuity: each normal form is inhabited (and props/C02.py evaluates nf_resource, through Proofs/LmfNfRun.v, on the resources the real load returns for files the real dump wrote, on every run)'),
 ('thm', 'nf_lexicon_ex'), ('thm', 'nf_entry_ex'), ('thm', 'nf_xentry_ex'), ('thm', 'nf_synset_ex'), ('thm', 'nf_sense_ex'), ('thm', 'nf_meta_ex'),
]
