import os, sys
sys.path.insert(0, os.path.dirname(os.path.abspath(__file__)))
from _lmf_common import IMPORTS as _I, SCOPES
IMPORTS = _I + '\n@@RT_IMPORT@@'
HEADER = '''WN-LMF load/dump is a lossless round trip (models: Model/XmlText.v = the serialisers of CPython that wn.lmf.dump uses
   (ElementTree _escape_attrib/_escape_cdata, xml.sax.saxutils.quoteattr) and what an XML parser makes of their output
   (xml_attr_value, xml_char_data: reference decoding, attribute-value and end-of-line normalisation per the XML
   recommendation); Model/Lmf.v = wn.lmf dump and load).  [expat_view] turns the element tree dump builds into the tree expat
   reports for its serialisation; nf_K are the normal forms of the loader's dictionaries (image of load after dump).'''
ITEMS = [
 ('comment', '---- strings: every attribute value and every text survives serialisation and parsing, character for character (all code points, including quotes, <, &, tabs, newlines, CR)'),
 ('thm', 'attr_roundtrip_ET_all'), ('thm', 'attr_roundtrip_quoteattr_all'), ('thm', 'escape_attrib_wellformed'),
 ('thm', 'text_roundtrip_exact'), ('thm', 'text_roundtrip_eol'), ('thm', 'text_roundtrip_all'), ('thm', 'text_roundtrip'),
 ('thm', 'escape_cdata_wellformed'), ('thm', 'norm_ws_idempotent'), ('thm', 'norm_ws_normalize_eol'),
 ('comment', '---- the header dump writes is the header load accepts, for the version asked for'),
 ('thm', 'dump_header_accepted'), ('thm', 'supported_iff'),
 '@@RT_ITEMS@@',
]
