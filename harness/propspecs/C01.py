import os, sys
sys.path.insert(0, os.path.dirname(os.path.abspath(__file__)))
from _add_common import IMPORTS as _I, SCOPES
IMPORTS = _I + '\nRequire Import WnV.Proofs.AddContent WnV.Proofs.Batch.'
HEADER = '''the query API reports exactly the content of every added lexicon.
   The property is the composition of two modelled layers, each tied to the code by its own correspondence:
   (1) document -> rows (Model/Add.v, theorems below: Proofs/AddContent.v): adding a resource appends, for every lexicon that is
       not skipped, exactly one row per declared element, in document order, with the document's values, and changes nothing else;
   (2) rows -> API (Model/Core.v; Properties C04/C09/C10/C11): the API lists exactly the rows of the selected lexicons.
   Vocabulary (Proofs/AddContent.v): [App t d d' vss] = table t of d' is table t of d followed by rows with consecutive fresh
   rowids carrying the cell lists vss, in that order; the *_row functions give the stored cells of a document element
   (coerced to the column types); lookups (ENTRY_QUERY, SYNSET_QUERY, ili_lookup ...) are evaluated in the final database d'.
   Batching: wn._add inserts in batches of BATCH_SIZE; every statement is about the concatenation of the batches.'''
ITEMS = [
 ('comment', '---- batching loses, duplicates and reorders nothing (for the BATCH_SIZE the source has now)'),
 ('thm', 'batches_concat'),
 ('comment', '---- D1: one new lexicons row per lexicon that is not skipped, in document order, with id, label, language, email, license, version, url, citation, logo, metadata'),
 ('thm', 'add_lexicons_rows'), ('thm', 'add_resource_lexicon'), ('thm', 'add_single_lexicon'), ('thm', 'one_lexicon_lexicons'),
 ('comment', '---- D2: exactly the local (non-external) entries, in document order, with id, pos and metadata, owned by the new lexicon'),
 ('thm', 'one_lexicon_entries'), ('thm', 'add_single_lexicon_entries'),
 ('comment', '---- D3: forms: the lemma with rank 0 then the further forms in document order with ranks 1.., with written form, id, script and the normalized form (NULL when equal); an extension adds only its non-external forms to external entries'),
 ('thm', 'one_lexicon_forms'),
 ('comment', '---- D4: exactly the local synsets in document order (ILI resolved through the ilis table, pos, lexicalized, lexfile, metadata); proposed_ilis rows exactly for ili="in" with the ILIDefinition'),
 ('thm', 'one_lexicon_synsets'),
 ('comment', '---- D5: exactly the local senses in document order, linked to their (possibly base-lexicon) entry and synset, entry rank = position among the senses of the entry, synset rank from the declared members'),
 ('thm', 'one_lexicon_senses'),
 ('comment', '---- D6: children and relations: counts, adjpositions, examples, definitions, relations (sense-sense, sense-synset, synset-synset), syntactic behaviours and their sense links correspond one-to-one, in document order, to the declarations (including what an extension attaches to External elements)'),
 ('thm', 'one_lexicon_children'), ('thm', 'ins_insert_sense_relations'), ('thm', 'ins_insert_syntactic_behaviours'),
 ('comment', '---- nothing else changes: rows of other lexicons stay in place (C05), references stay valid'),
 ('thm', 'add_keeps_rows'), ('thm', 'add_lexical_resource_fk_ok'),
 ('comment', '---- non-vacuity: the new rows of a concrete lexicon added to a concrete database'),
 ('thm', 'ex_content'),
]
