import os, sys
sys.path.insert(0, os.path.dirname(os.path.abspath(__file__)))
from _core_common import IMPORTS, SCOPES
HEADER = '''navigation is referentially faithful (model: Model/Core.v).
   Sense.word()/Sense.synset() return the entity the sense row points to; Word.senses()/Synset.senses() list exactly
   the sense rows of the entity inside the scope; composite navigation is the composition; equality/hash keys are
   the database rowids (plus ILI and lexicon for inferred placeholders); translate() goes through the shared ILI.'''
ITEMS = [
 ('comment', '---- entities returned by queries are the rows they claim to be'),
 ('thm', 'Wordnet_senses_entities'), ('thm', 'Word_senses_entities'), ('thm', 'Synset_senses_entities'),
 ('comment', '---- N1: a sense navigates to the entry / synset its row points to'),
 ('thm', 'Sense_word_is_entry'), ('thm', 'Sense_synset_is_synset'),
 ('comment', '---- N2: ... and is listed among the senses of that word / synset; Word.senses / Synset.senses list exactly the sense rows in scope'),
 ('thm', 'sense_in_Word_senses'), ('thm', 'sense_in_Synset_senses'), ('thm', 'sense_in_Word_senses_nondefault'),
 ('thm', 'Word_senses_iff'), ('thm', 'Synset_senses_iff'),
 ('comment', '---- N3: composite navigation is the composition of the single steps'),
 ('thm', 'Word_synsets_def'), ('thm', 'Synset_words_def'), ('thm', 'Synset_lemmas_def'), ('thm', 'Word_lemma_def'),
 ('thm', 'Word_synsets_Ok'), ('thm', 'Synset_words_Ok'), ('thm', 'Synset_lemmas_Ok'), ('thm', 'Word_lemma_first_form'),
 ('comment', '---- N4: equality and hashing keys'),
 ('thm', 'Word_key_eqb_iff'), ('thm', 'Sense_key_eqb_iff'), ('thm', 'Synset_key_eqb_iff'), ('thm', 'Synset_key_eqb_rows'),
 ('thm', 'Synset_key_eqb_inferred'), ('thm', 'unique_list_spec'),
 ('comment', '---- N5: translation goes through the ILI: none without an ILI; otherwise exactly the synsets of the target lexicons with that ILI'),
 ('thm', 'Synset_translate_no_ili'), ('thm', 'synset_without_ili_row'), ('thm', 'Synset_translate_ili'), ('thm', 'Synset_translate_sound'),
 ('thm', 'Sense_translate_def'), ('thm', 'Word_translate_def'),
 ('comment', '---- navigation stays in scope and keeps the Wordnet (shared with C04)'),
 ('thm', 'Sense_word_scope'), ('thm', 'Sense_synset_scope'),
 ('comment', '---- non-vacuity'),
 ('thm', 'db_ok_sample_1'), ('thm', 'db_ok_sample_2'),
]
