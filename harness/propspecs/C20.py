import os, sys
sys.path.insert(0, os.path.dirname(os.path.abspath(__file__)))
from _lmf_common import IMPORTS, SCOPES
HEADER = '''invalid WN-LMF is rejected as a whole (model: Model/Lmf.v written from wn/lmf.py: read_header, the expat handlers
   driven by the per-version element tables regenerated from the source into Gen/LmfTables.v, and the _validate functions).
   [has_unknown version t] = the tree contains an element that the DTD of that version does not allow at that place;
   [has_dup_single version t] = a child that may occur once occurs twice; [missing_id t] = an element that needs an id has none.
   That a rejected document leaves the database unchanged is C06 (the add is one transaction) together with the fact that the
   model's add works on the loaded resource only: load failing means add is never entered.'''
ITEMS = [
 ('comment', '---- the header: accepted exactly when line 1 is the XML declaration and line 2 a DOCTYPE of a supported version; every supported version has an accepted header; otherwise LMFError (or a decoding error)'),
 ('thm', 'read_header_spec'), ('thm', 'read_header_errors'), ('thm', 'supported_iff'),
 ('comment', '---- structure: an element not allowed by the declared version (including elements of other versions), a repeated single child, or a missing id make load fail, wherever they occur in the document'),
 ('thm', 'unknown_element_rejected'), ('thm', 'unknown_element_load_rejected'), ('thm', 'duplicate_single_rejected'),
 ('thm', 'duplicate_single_load_rejected'), ('thm', 'missing_id_rejected'),
 ('thm', 'load_rejects_unknown_element'), ('thm', 'load_rejects_duplicate_single'), ('thm', 'load_rejects_missing_id'),
 ('thm', 'load_rejects_for_version'),
 ('comment', '---- what dump writes is accepted again: its first two lines are a header of the version it was asked to write'),
 ('thm', 'dump_header_accepted'),
 ('comment', '---- non-vacuity: concrete trees with each fault'),
 ('thm', 'has_unknown_ex'), ('thm', 'has_dup_single_ex'), ('thm', 'missing_id_ex'),
]
