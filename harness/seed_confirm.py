"""harness/seed_confirm.py <pending_dir> <pid> <k>
Confirms a seeded change independently in a scratch worktree (outside /repo and /verif):
suite passes with the change, demo fails with it, demo passes without it.  Then runs the
registered quick check with the change applied to /repo and undoes it.  Records all of it
in seeded/<pid>-<k>/meta.json."""
import json, os, shutil, subprocess, sys, tempfile
pend, pid, k = sys.argv[1], sys.argv[2], sys.argv[3]
VERIF = os.path.dirname(os.path.dirname(os.path.abspath(__file__)))
src = os.path.abspath(os.path.join(pend, k))
wt = tempfile.mkdtemp(prefix='wnseed-', dir='/tmp')
os.rmdir(wt)
def sh(cmd, **kw):
    return subprocess.run(cmd, shell=True, capture_output=True, text=True, **kw)
res = {}
try:
    r = sh('git -C /repo worktree add --detach %s HEAD' % wt); assert r.returncode == 0, r.stderr
    env = 'cd %s && PYTHONPATH=%s ' % (wt, wt)
    r = sh(env + '/venv/bin/python %s/demo.py' % src); res['demo_unchanged_rc'] = r.returncode
    r = sh('cd %s && git apply %s/patch.diff' % (wt, src)); res['applies'] = (r.returncode == 0)
    if not res['applies']:
        # the tree moved on (fix commits): retry with fuzz and refresh the stored patch
        r = sh('cd %s && patch -p1 -F3 --no-backup-if-mismatch < %s/patch.diff' % (wt, src))
        res['applies'] = (r.returncode == 0)
        if res['applies']:
            d = sh('cd %s && git diff -- wn' % wt).stdout
            open(os.path.join(src, 'patch.diff'), 'w').write(d)
            res['patch_refreshed'] = True
    if res['applies']:
        r = sh(env + '/venv/bin/python -m pytest -q -p no:cacheprovider -x tests bench 2>&1 | tail -3')
        res['suite_with_change'] = r.stdout.strip().splitlines()[-1] if r.stdout.strip() else r.stderr[-200:]
        r = sh(env + '/venv/bin/python %s/demo.py' % src); res['demo_changed_rc'] = r.returncode
        res['demo_changed_tail'] = (r.stdout + r.stderr)[-400:]
    ok = res.get('applies') and res.get('demo_unchanged_rc') == 0 and res.get('demo_changed_rc', 0) != 0 \
        and 'passed' in res.get('suite_with_change', '') and 'failed' not in res.get('suite_with_change', '')
    res['confirmed'] = bool(ok)
    # run my registered quick check against the changed tree: the scratch worktree (change applied) is what the check is
    # pointed at (VERIF_REPO); /repo itself is not touched
    if ok:
        sh('cd %s && rm -rf _seeded' % wt)
        r = sh('cd %s && VERIF_REPO=%s timeout 1500 ./check %s --tier quick' % (VERIF, wt, pid))
        res['check_rc'] = r.returncode
        res['check_tail'] = r.stdout.strip().splitlines()[-3:]
finally:
    sh('git -C /repo worktree remove --force %s' % wt)
    shutil.rmtree(wt, ignore_errors=True)
    sh('git -C /repo worktree prune')
ok = res.get('confirmed')
meta = json.load(open(os.path.join(src, 'meta.json')))
meta.update({'property': pid, 'confirmation': res,
             'ran': ['scratch worktree: demo.py on unchanged code (must exit 0)', 'git apply patch.diff',
                     'pytest tests bench (must pass)', 'demo.py (must exit non-zero)',
                     'VERIF_REPO=<scratch worktree with the change> ./check %s --tier quick' % pid]})
if ok:
    dst = os.path.join(VERIF, 'seeded', '%s-%s' % (pid, k))
    os.makedirs(dst, exist_ok=True)
    for f in ('patch.diff', 'demo.py'):
        shutil.copy(os.path.join(src, f), dst)
    json.dump(meta, open(os.path.join(dst, 'meta.json'), 'w'), indent=1)
print(json.dumps(res, indent=1))
