"""Case encoding for the LMF model (Model/Lmf.v): dump / load / header cases."""
import addmodel

ERR = {'LMFError': -1, 'WnError': -1, 'AssertionError': -6, 'KeyError': -3}


def tree(el):
    """expat element [name, attrs, text, children] -> L [Sz name; L [L [Sz k; Sz v]]; Sz text; L children]"""
    return [el[0], [[k, v] for k, v in el[1]], el[2], [tree(c) for c in el[3]]]


def dump_case(version, resource, rec):
    inp = [version, addmodel.val(resource)]
    exp = rec['dump'][1] if rec['dump'][0] == 'ok' else [ERR.get(rec['dump'][1], -4)]
    return inp, exp


def load_case(rec):
    """input = L [L header line 1 bytes; L header line 2 bytes; tree]; expected = val resource | L [code]"""
    if rec['tree'][0] != 'ok' or rec['tree'][1] is None:
        return None
    inp = [rec['header'][0], rec['header'][1], tree(rec['tree'][1])]
    exp = addmodel.val(rec['load'][1]) if rec['load'][0] == 'ok' else [ERR.get(rec['load'][1], -4)]
    return inp, exp
