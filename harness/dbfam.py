"""Shared driver of the database-family checks (C04, C09, C10, C11, C12): generate universes,
observe them through the battery, run the requested oracles and the correspondence with Model/Core.v."""
import random
import common
import coremodel
import expect
import dboracles


def crafted_inferred_chain(rng):
    """A selection whose relations come only through an expand lexicon, over ILIs the selection lacks: traversals pass
    through inferred placeholder synsets for more than one hop.  Unselected lexicons hold what a traversal that forgot its
    Wordnet would pick up: fr:1 has another relation from the middle ILI, esx:1 (an extension of the selection that is not
    selected) has a synset for the far ILI."""
    def lex(lid, lang, synsets, ext=None):
        lx = {'id': lid, 'label': lid, 'language': lang, 'email': 'e', 'license': 'l', 'version': '1', 'meta': None,
              'entries': [], 'synsets': synsets}
        if ext:
            lx['extends'] = ext
        return lx

    def ss(sid, ili, rels=()):
        d = {'id': sid, 'ili': ili, 'partOfSpeech': 'n', 'meta': None}
        if rels:
            d['relations'] = [{'target': t, 'relType': ty, 'meta': None} for ty, t in rels]
        return d
    n = rng.choice([3, 4])
    en = [ss('en-%d' % k, 'i8%d' % k, [('hypernym', 'en-%d' % (k + 1))] if k < n else []) for k in range(1, n + 1)]
    # the first synset reaches two different concepts the selection lacks in ONE step (two placeholders, told apart only by
    # their ILI, must both be returned by get_related / hypernyms)
    en[0]['relations'] += [{'target': 'en-3', 'relType': rng.choice(['hypernym', 'similar']), 'meta': None}]
    es = [ss('es-1', 'i81'), ss('es-0', '')]
    fr = [ss('fr-2', 'i82', [('hypernym', 'fr-9'), ('similar', 'fr-9')]), ss('fr-9', 'i89')]
    esx = [ss('esx-3', 'i83', []), {'id': 'es-0', 'external': True,
                                     'relations': [{'target': 'esx-3', 'relType': 'similar', 'meta': None}]}]
    res = [('en:1', {'lmf_version': '1.3', 'lexicons': [lex('en', 'en', en)]}),
           ('es:1', {'lmf_version': '1.3', 'lexicons': [lex('es', 'es', es)]}),
           ('fr:1', {'lmf_version': '1.3', 'lexicons': [lex('fr', 'fr', fr)]}),
           ('esx:1', {'lmf_version': '1.1', 'lexicons': [lex('esx', 'es', esx, {'id': 'es', 'version': '1'})]})]
    cfgs = [{'lexicon': 'es:1', 'expand': 'en:1'}, {'lexicon': 'es:1', 'expand': 'en:1 fr:1'}, {'lexicon': 'es:1 esx:1', 'expand': 'en:1'},
            {'lexicon': 'es:1', 'expand': ''}, {'lexicon': 'es:1', 'expand': '*'}, {}]
    return res, cfgs


def run_family(rep, tier, pid, seed_mul, oracles, n_quick, n_thorough, tweak=None, corr_cap=(40, 600)):
    rng = random.Random(common.seed() * 7919 + seed_mul)
    n = n_quick if tier == 'quick' else n_thorough
    unis = []
    for _ in range(n):
        u = coremodel.gen_case(rng, small=False)
        if tweak:
            tweak(rng, u)
        unis.append(u)
    nsh = common.NPROC
    shards = [s for s in (unis[i::nsh] for i in range(nsh)) if s]
    outs = common.run_impl_parallel('run_battery.py', [{'universes': s} for s in shards])
    stats = {}
    nontriv = set()
    pairs = []
    evals = 0
    for s, o in zip(shards, outs):
        for u, rec in zip(s, o):
            if any(a[1] != 'ok' for a in rec['adds']):
                rep.fail('adding a generated resource failed', {'resources': u['resources']}, {'adds': rec['adds']})
                continue
            uni = expect.Universe(u['resources'])
            for cfg, ob in zip(u['configs'], rec['obs']):
                evals += 1
                case = {'resources': u['resources'], 'config': cfg}
                cx = dboracles.Ctx(uni, rec['lexicons'], ob, cfg)
                for orc in oracles:
                    orc(rep, cx, case, stats)
                if cx.ok and (len(cx.sel) > 1 or cx.exp):
                    nontriv.add(common.canon_hash([str(u['resources'])[:3000], cfg]))
                if len(pairs) < (corr_cap[0] if tier == 'quick' else corr_cap[1]) and not isinstance(cfg.get('lemmatizer'), str):
                    pairs.append(coremodel.to_pair(u, rec, cfg, ob))
    mism, info = common.coq_mismatches('WnV.Model.Core', 'run_core', 'sx_agree_default', pairs, tag=pid.lower(), shard=4,
                                       want_model_out=False)
    if info['errors']:
        rep.broke('correspondence evaluation failed in Coq: ' + '; '.join(info['errors'])[:1500])
    if mism:
        rep.broke('correspondence Model/Core.v vs the query API: %d of %d observations differ (first: config %s)'
                  % (len(mism), len(pairs), str(pairs[mism[0]][0][1])[:300]))
    rep.coverage.update({'evaluations': evals, 'distinct_nontrivial': len(nontriv), 'stats': stats,
                         'traces_validated_against_impl': len(pairs), 'correspondence_mismatches': len(mism),
                         'coq_eval_wall_s': round(info['wall'], 1)})
    rep.samples.append({'resources': [nm for nm, _ in unis[0]['resources']], 'config': unis[0]['configs'][:2]})
    return unis, shards, outs


def run_tables_stream(rep, tier, pid, seed_mul, n_quick, n_thorough, mode='', fuel=False):
    """Second correspondence stream for Model/Core.v: raw table rows inserted directly into a fresh database
    (harness/coretables.py).  Only the model-vs-code tie is evaluated on it (no property oracle)."""
    import coretables
    rng = random.Random(common.seed() * 104729 + seed_mul)
    n = n_quick if tier == 'quick' else n_thorough
    unis = [coretables.gen_universe(rng, mode) for _ in range(n)]
    if fuel:
        unis.append(coretables.fuel_universe())
    nsh = common.NPROC
    shards = [s for s in (unis[i::nsh] for i in range(nsh)) if s]
    outs = common.run_impl_parallel('run_core_tables.py', [{'universes': s} for s in shards])
    pairs = []
    slow = 0
    for s, o in zip(shards, outs):
        pairs += coretables.pairs_for(s, o)
        slow += sum(1 for rec in o if rec.get('too_slow'))
    rep.coverage['table_level_universes_dropped_as_too_slow'] = slow
    mism, info = common.coq_mismatches('WnV.Model.Core', 'run_core', 'sx_agree_default', pairs, tag=pid.lower() + 't', shard=4,
                                       want_model_out=False)
    if info['errors']:
        rep.broke('table-level correspondence evaluation failed in Coq: ' + '; '.join(info['errors'])[:1500])
    if mism:
        rep.broke('table-level correspondence Model/Core.v vs the query API: %d of %d observations differ (first: config %s)'
                  % (len(mism), len(pairs), str(pairs[mism[0]][0][1])[:300]))
    rep.coverage.update({'table_level_traces_validated': len(pairs), 'table_level_mismatches': len(mism),
                         'table_level_coq_wall_s': round(info['wall'], 1)})
    return pairs, mism
