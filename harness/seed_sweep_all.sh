#!/bin/sh
# harness/seed_sweep_all.sh — every seeded change against the quick check of its property, four properties at a time (each
# worker has its own scratch worktree and its own properties, so evidence files and worktrees never collide).
# Evidence is overwritten by these runs: re-run the quick checks on /repo afterwards (harness/sweep_seeds.sh 0).
cd "$(dirname "$0")/.." || exit 1
for p in C01 C02 C03 C04 C05 C06 C07 C08 C09 C10 C11 C12 C13 C14 C15 C16 C17 C18 C19 C20; do echo $p; done |
  xargs -P 4 -I{} sh -c 'ids=$(ls seeded | grep "^{}-" | tr "\n" " "); [ -n "$ids" ] && SWEEP_WT=/tmp/wn-seedsweep-{} python3 harness/seed_sweep.py $ids'
