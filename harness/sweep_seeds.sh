#!/bin/sh
# harness/sweep_seeds.sh [seeds...] — every registered quick check on /repo at several VERIF_SEED values (after a generator
# change shifted the random streams).  Prints one line per (property, seed); evidence is left at the last seed run, so
# re-run seed 0 afterwards (this script does so when 0 is listed last).
cd "$(dirname "$0")/.." || exit 1
SEEDS="${*:-1 2 3 0}"
for s in $SEEDS; do
  for p in C01 C02 C03 C04 C05 C06 C07 C08 C09 C10 C11 C12 C13 C14 C15 C16 C17 C18 C19 C20; do echo "$p $s"; done
done | xargs -P 4 -L 1 sh -c 'VERIF_SEED=$1 timeout 3000 ./check $0 --tier quick > /tmp/sweep_$0_$1.log 2>&1; echo "$0 seed=$1 rc=$? $(tail -n 1 /tmp/sweep_$0_$1.log)"'
