"""Correspondence driver for Model/Export.v: run_export (L [db; A lexicon_rowid; Sz version]) must return exactly the
dictionary wn._export._export_lexicon builds (as a val), for every non-extension lexicon of generated databases."""
import common
import gendoc
import addmodel


def gen_universes(rng, n, versions):
    return [{'resources': gendoc.gen_universe(rng, size=rng.choice([2, 2, 3])), 'versions': versions, 'style_seed': None}
            for _ in range(n)]


def pairs_for(unis, outs):
    pairs, meta = [], []
    for u, rec in zip(unis, outs):
        db = addmodel.project_db(rec['tables'])
        for rowid, v, outcome, d in rec['exports']:
            inp = [db, rowid, v]
            exp = addmodel.val(d) if outcome == 'ok' else [-1 if outcome == 'WnError' else -5]
            pairs.append((inp, exp))
            meta.append({'resources': [nm for nm, _ in u['resources']], 'lexicon_rowid': rowid, 'version': v, 'outcome': outcome})
    return pairs, meta


def run_correspondence(rep, rng, n, versions, tag):
    unis = gen_universes(rng, n, versions)
    nsh = min(common.NPROC, len(unis))
    shards = [unis[i::nsh] for i in range(nsh)]
    outs = common.run_impl_parallel('run_export.py', [{'universes': s} for s in shards])
    pairs, meta = [], []
    for s, o in zip(shards, outs):
        p, m = pairs_for(s, o)
        pairs += p
        meta += m
    mism, info = common.coq_mismatches('WnV.Model.Export', 'run_export', 'sx_agree_default', pairs, tag=tag, shard=6,
                                       want_model_out=False)
    if info['errors']:
        rep.broke('export correspondence evaluation failed in Coq: ' + '; '.join(info['errors'])[:1500])
    if mism:
        rep.broke('correspondence Model/Export.v vs wn._export._export_lexicon: %d of %d exports differ (first: %s)'
                  % (len(mism), len(pairs), meta[mism[0]]))
    rep.coverage.update({'traces_validated_against_impl': len(pairs), 'correspondence_mismatches': len(mism),
                         'coq_eval_wall_s': round(info['wall'], 1)})
    return unis, mism
