"""Drift sentinel for the hand-written models.  Each property names the source files its Gallina model was written
from; the AST hash (comments, formatting and docstrings ignored) of each is compared with the baseline recorded when the
model was last validated (harness/source_baseline.json, `python3 harness/fingerprint.py --update`).  A difference is NOT
a violation: it means the model may no longer describe the code, so the check runs its correspondence and oracle search
several times with fresh seeds (see check.py) and records the changed files in the evidence."""
import ast
import hashlib
import json
import os
import sys

HERE = os.path.dirname(os.path.abspath(__file__))
BASELINE = os.path.join(HERE, 'source_baseline.json')

FILES = {
    'C01': ['wn/_add.py', 'wn/_core.py', 'wn/_queries.py', 'wn/lmf.py', 'wn/schema.sql'],
    'C02': ['wn/lmf.py'],
    'C03': ['wn/_export.py', 'wn/lmf.py', 'wn/_queries.py', 'wn/_add.py'],
    'C04': ['wn/_core.py', 'wn/_queries.py'],
    'C05': ['wn/_add.py', 'wn/schema.sql', 'wn/_queries.py'],
    'C06': ['wn/_add.py', 'wn/_db.py'],
    'C07': ['wn/project.py', 'wn/_add.py', 'wn/lmf.py', 'wn/_util.py'],
    'C08': ['wn/_queries.py', 'wn/_core.py'],
    'C09': ['wn/_core.py', 'wn/_queries.py', 'wn/morphy.py'],
    'C10': ['wn/_core.py', 'wn/_queries.py'],
    'C11': ['wn/_core.py', 'wn/_queries.py'],
    'C12': ['wn/_core.py', 'wn/_queries.py'],
    'C13': ['wn/taxonomy.py', 'wn/_core.py'],
    'C14': ['wn/similarity.py', 'wn/taxonomy.py', 'wn/ic.py'],
    'C15': ['wn/ic.py'],
    'C16': ['wn/_core.py', 'wn/taxonomy.py', 'wn/similarity.py', 'wn/ic.py', 'wn/validate.py', 'wn/_export.py', 'wn/lmf.py'],
    'C17': ['wn/morphy.py', 'wn/_core.py'],
    'C18': ['wn/validate.py', 'wn/constants.py'],
    'C19': ['wn/_add.py', 'wn/project.py', 'wn/_queries.py'],
    'C20': ['wn/lmf.py', 'wn/_add.py'],
}


def _strip_doc(tree):
    for node in ast.walk(tree):
        if isinstance(node, (ast.FunctionDef, ast.AsyncFunctionDef, ast.ClassDef, ast.Module)):
            b = node.body
            if b and isinstance(b[0], ast.Expr) and isinstance(getattr(b[0], 'value', None), ast.Constant) \
                    and isinstance(b[0].value.value, str):
                node.body = b[1:] or [ast.Pass()]
    return tree


def file_hash(path):
    data = open(path, 'rb').read()
    if path.endswith('.py'):
        try:
            data = ast.dump(_strip_doc(ast.parse(data))).encode()
        except SyntaxError:
            pass
    else:
        data = b'\n'.join(ln.strip() for ln in data.splitlines() if ln.strip() and not ln.strip().startswith(b'--'))
    return hashlib.sha1(data).hexdigest()


def current(repo):
    out = {}
    for fs in FILES.values():
        for f in fs:
            if f not in out:
                p = os.path.join(repo, f)
                out[f] = file_hash(p) if os.path.exists(p) else 'missing'
    return out


def changed_for(pid, repo):
    try:
        base = json.load(open(BASELINE))
    except Exception:
        return ['(no baseline)']
    cur = current(repo)
    return [f for f in FILES.get(pid, []) if base.get(f) != cur.get(f)]


if __name__ == '__main__':
    if os.path.realpath(sys.executable) != os.path.realpath('/venv/bin/python') and os.path.exists('/venv/bin/python'):
        os.execv('/venv/bin/python', ['/venv/bin/python'] + sys.argv)     # ast.dump differs between Python versions
    repo = os.environ.get('VERIF_REPO', '/repo')
    if '--update' in sys.argv:
        json.dump(current(repo), open(BASELINE, 'w'), indent=1, sort_keys=True)
        print('baseline written for', len(current(repo)), 'files')
    else:
        for pid in sorted(FILES):
            print(pid, changed_for(pid, repo))
