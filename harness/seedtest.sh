#!/bin/bash
# harness/seedtest.sh <patch.diff> <pid> [tier]  — apply a seeded change to /repo, run the check, undo.
set -u
patch="$1"; pid="$2"; tier="${3:-quick}"
cd /repo || exit 9
if ! git diff --quiet; then echo "/repo has uncommitted changes"; exit 9; fi
git apply "$patch" || { echo "patch does not apply"; exit 8; }
cd /verif
./check "$pid" --tier "$tier" > /dev/shm/seedtest-$$.log 2>&1
rc=$?
git -C /repo checkout -- .
tail -4 /dev/shm/seedtest-$$.log
echo "seedtest: $patch on $pid -> exit $rc"
rm -f /dev/shm/seedtest-$$.log
exit 0
