"""Builds abstract file trees (ideal-codec constructors) as real files and runs wn.project.iterpackages."""
import gzip
import json
import lzma
import os
import shutil
import sys
import tarfile
import tempfile
import iutil
import wn
from wn import project

iutil.assert_repo()
payload = iutil.load_payload()
out = []


def build(node, path):
    """node = ['file', content] | ['dir', [[name, node]...]]; content = ['raw', bytes-list] | ['gz', c] | ['xz', c] | ['tar', [[name,node]]]"""
    if node[0] == 'dir':
        os.makedirs(path)
        for name, n in node[1]:
            build(n, os.path.join(path, name))
    else:
        with open(path, 'wb') as fh:
            fh.write(content_bytes(node[1], path))


def content_bytes(c, path):
    if c[0] == 'raw':
        return bytes(c[1])
    if c[0] == 'gz':
        return gzip.compress(content_bytes(c[1], path))
    if c[0] == 'xz':
        return lzma.compress(content_bytes(c[1], path))
    if c[0] == 'tar':
        tmp = tempfile.mkdtemp(dir='/dev/shm')
        try:
            tp = os.path.join(tmp, 'a.tar')
            with tarfile.open(tp, 'w') as t:
                for name, n in c[1]:
                    p = os.path.join(tmp, 'm_' + name)
                    build(n, p)
                    t.add(p, arcname=name)
            return open(tp, 'rb').read()
        finally:
            shutil.rmtree(tmp, ignore_errors=True)
    raise ValueError(c)


for tree in payload['trees']:
    work = tempfile.mkdtemp(prefix='wnverif-proj-', dir='/dev/shm')
    try:
        root = os.path.join(work, 'root')
        build(tree, root)
        try:
            res = []
            for pk in project.iterpackages(root):
                rf = pk.resource_file()
                res.append([pk.type, list(open(rf, 'rb').read())])
            out.append(['ok', res])
        except wn.Error:
            out.append(['err', 'WnError'])
        except Exception as e:
            out.append(['err', type(e).__name__])
    finally:
        shutil.rmtree(work, ignore_errors=True)
json.dump(out, sys.stdout)
