"""C06 fault enumeration on the real code: progress-handler exceptions at every callback,
corrupted references, denied SQL statements (authorizer), interrupted removals."""
import copy
import json
import sqlite3
import sys
import iutil
import battery
import wn
import wn._db
from wn.util import ProgressHandler

iutil.assert_repo()
payload = iutil.load_payload()
out = []


class Boom(Exception):
    pass


class Interrupt(BaseException):
    """like KeyboardInterrupt: raised from the caller's progress handler but not a subclass of Exception"""


def make_handler(counter, fail_at, exc=Boom):
    class H(ProgressHandler):
        def _tick(self):
            counter[0] += 1
            if fail_at is not None and counter[0] == fail_at:
                raise exc('injected at callback %d' % fail_at)

        def update(self, n=1, force=False):
            super().update(n, force)
            self._tick()

        def flash(self, message):
            self._tick()

        def set(self, **kw):
            self.kwargs.update(**kw)
            self._tick()
    return H


def fresh_dump():
    """logical dump through a NEW connection (committed state only)"""
    con = sqlite3.connect(str(wn.config.database_path))
    outd = {}
    for (t,) in con.execute("SELECT name FROM sqlite_master WHERE type='table' ORDER BY name").fetchall():
        outd[t] = [list(r) for r in con.execute('SELECT rowid, * FROM %s ORDER BY rowid' % t)]
    con.close()
    return json.loads(json.dumps(outd, default=lambda b: b.decode('utf-8') if isinstance(b, bytes) else str(b)))


def do_op(op, handler=None):
    if op[0] == 'add':
        wn.add_lexical_resource(copy.deepcopy(op[1]), progress_handler=handler)
    elif op[0] == 'remove':
        wn.remove(op[1], progress_handler=handler)
    else:
        raise ValueError(op)


def setup(case):
    wn._db.connect()            # creates and initialises the database file
    for op in case['setup']:
        do_op(op)


for case in payload['cases']:
    rec = {'violations': [], 'K': 0, 'A': 0, 'faults': 0, 'kinds': {}}
    target = case['target']
    # clean reference run
    with iutil.FreshDB():
        setup(case)
        cnt = [0]
        acalls = [0]
        conn = wn._db.connect()

        def auth_count(action, a1, a2, dbn, src):
            if action in (sqlite3.SQLITE_INSERT, sqlite3.SQLITE_UPDATE, sqlite3.SQLITE_DELETE):
                acalls[0] += 1
            return sqlite3.SQLITE_OK
        conn.set_authorizer(auth_count)
        trace = []

        def tracer(stmt):
            w = stmt.strip().split(None, 1)[0].upper() if stmt.strip() else ''
            trace.append({'BEGIN': 'B', 'COMMIT': 'C', 'ROLLBACK': 'R', 'INSERT': 'D', 'UPDATE': 'D', 'DELETE': 'D'}.get(w, 's'))
        conn.set_trace_callback(tracer)
        do_op(target, make_handler(cnt, None))
        conn.set_trace_callback(None)
        conn.set_authorizer(None)
        rec['trace'] = ''.join(trace)
        rec['n_lexicons_after'] = len(wn.lexicons())
        rec['K'] = cnt[0]
        rec['A'] = acalls[0]
        final_ref = fresh_dump()
    allowed = []
    if target[0] == 'remove':
        # a removal commits per matched lexicon: the states after removing a prefix of the matched
        # lexicons (each with all its extensions) are the only ones an interruption may leave
        with iutil.FreshDB():
            setup(case)
            matched = [l.specifier() for l in wn.lexicons(lexicon=target[1])]
            for sp in matched:
                if any(l.specifier() == sp for l in wn.lexicons()):
                    wn.remove(sp, progress_handler=None)
                    allowed.append(fresh_dump())
    with iutil.FreshDB():
        setup(case)
        before = fresh_dump()

        def check_after(kind, k, raised):
            nonlocal_before = before
            rec['faults'] += 1
            rec['kinds'][kind] = rec['kinds'].get(kind, 0) + 1
            if not raised:
                rec['violations'].append({'kind': kind, 'at': k, 'what': 'the injected failure did not surface as an exception'})
            after = fresh_dump()
            if after != nonlocal_before and after in allowed:
                rec['kinds']['partial-prefix-ok'] = rec['kinds'].get('partial-prefix-ok', 0) + 1
                return False        # legitimate: earlier lexicons of the specifier were removed completely; rebuild
            if after != nonlocal_before:
                diff = [t for t in after if after[t] != nonlocal_before.get(t)]
                rec['violations'].append({'kind': kind, 'at': k, 'what': 'database changed by a failed operation',
                                          'tables': diff[:6]})
                return False
            try:
                wn.lexicons()
            except Exception as e:
                rec['violations'].append({'kind': kind, 'at': k, 'what': 'library unusable after the failure: %r' % e})
                return False
            return True

        def rebuild():
            iutil.close_pool()
            import os
            p = str(wn.config.database_path)
            if os.path.exists(p):
                os.unlink(p)
            setup(case)

        def verify_followup(kind, k):
            try:
                do_op(target, None)
            except Exception as e:
                rec['violations'].append({'kind': kind, 'at': k, 'what': 'a following valid operation failed: %r' % e})
                rebuild()
                return
            if fresh_dump() != final_ref:
                rec['violations'].append({'kind': kind, 'at': k,
                                          'what': 'a following valid operation does not give the normal result'})
            rebuild()

        # 1. progress-handler exception at every callback
        for k in range(1, rec['K'] + 1):
            cnt = [0]
            raised = False
            try:
                do_op(target, make_handler(cnt, k))
            except Boom:
                raised = True
            except Exception as e:
                rec['violations'].append({'kind': 'handler', 'at': k, 'what': 'unexpected exception %r' % e})
                raised = True
            ok = check_after('handler', k, raised)
            if not ok:
                rebuild()
            elif k % 7 == 0 or k == rec['K']:
                verify_followup('handler', k)
        # 1b. the same with an exception that is not a subclass of Exception (Ctrl-C during the progress bar)
        for k in range(1, rec['K'] + 1):
            cnt = [0]
            raised = False
            try:
                do_op(target, make_handler(cnt, k, Interrupt))
            except Interrupt:
                raised = True
            except Exception as e:
                rec['violations'].append({'kind': 'interrupt', 'at': k, 'what': 'unexpected exception %r' % e})
                raised = True
            ok = check_after('interrupt', k, raised)
            if not ok:
                rebuild()
            elif k % 9 == 0 or k == rec['K']:
                verify_followup('interrupt', k)
        # 2. denied SQL statements
        for j in range(1, rec['A'] + 1):
            acalls = [0]
            denied = [False]
            conn = wn._db.connect()

            def auth(action, a1, a2, dbn, src, j=j):
                if action in (sqlite3.SQLITE_INSERT, sqlite3.SQLITE_UPDATE, sqlite3.SQLITE_DELETE):
                    acalls[0] += 1
                    if acalls[0] == j:
                        denied[0] = True
                        return sqlite3.SQLITE_DENY
                return sqlite3.SQLITE_OK
            conn.set_authorizer(auth)
            raised = False
            try:
                do_op(target, None)
            except Exception:
                raised = True
            finally:
                try:
                    wn._db.connect().set_authorizer(None)
                except Exception:
                    pass
            if not denied[0]:
                # statement caching made this run ask the authorizer fewer times: no fault was injected
                if raised:
                    rec['violations'].append({'kind': 'authorizer', 'at': j, 'what': 'exception without an injected fault'})
                rebuild()
                continue
            ok = check_after('authorizer', j, raised)
            if not ok:
                rebuild()
            elif j % 9 == 0 or j == rec['A']:
                verify_followup('authorizer', j)
        # 3. corrupted variants of the target resource
        for desc, bad in case.get('corrupted', []):
            raised = False
            try:
                do_op(['add', bad], None)
            except Exception:
                raised = True
            ok = check_after('corrupt:' + desc, 0, raised)
            if not ok:
                rebuild()
        verify_followup('corrupt', 0)
    out.append(rec)
json.dump(out, sys.stdout)
