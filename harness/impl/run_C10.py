"""C10, kept objects: a default-mode Wordnet (and the words / synsets obtained from it) created when only part of the
resources is installed, navigated after the rest (extensions of what was there, other lexicons) has been added; the same
navigation from a default-mode Wordnet created afterwards.  Only the navigation calls of C10 are recorded."""
import copy
import json
import sys
import iutil
import battery
import wn

iutil.assert_repo()
payload = iutil.load_payload()
out = []
ref, call, refs = battery.ref, battery.call, battery.refs


def nav_word(x):
    o = {'senses': refs(call(x.senses)), 'synsets': refs(call(x.synsets)), 'sense_nav': []}
    r = call(x.senses)
    if r[0] == 'ok':
        for s in r[1]:
            o['sense_nav'].append(nav_sense(s))
    return o


def nav_sense(s):
    rw, ry = call(s.word), call(s.synset)
    o = {'ref': ref(s), 'word': refs(rw), 'synset': refs(ry)}
    if rw[0] == 'ok':
        r2 = call(rw[1].senses)
        o['in_word'] = (r2[0] == 'ok' and s in r2[1] and s._id in [t._id for t in r2[1]])
    if ry[0] == 'ok':
        r2 = call(ry[1].senses)
        o['in_synset'] = (r2[0] == 'ok' and s in r2[1] and s._id in [t._id for t in r2[1]])
    return o


def nav_synset(y):
    o = {'senses': refs(call(y.senses)), 'words': refs(call(y.words)),
         'lemmas': call(lambda: [str(f) for f in y.lemmas()]), 'sense_nav': []}
    r = call(y.senses)
    if r[0] == 'ok':
        for s in r[1]:
            o['sense_nav'].append(nav_sense(s))
    return o


def observe(words, synsets):
    return {'words': {str(x._id): nav_word(x) for x in words}, 'synsets': {str(y._id): nav_synset(y) for y in synsets}}


for job in payload['jobs']:
    with iutil.FreshDB() as db:
        rec = {}
        ok = True
        for name, res in job['pre']:
            r = call(wn.add_lexical_resource, copy.deepcopy(res), progress_handler=None)
            ok = ok and r[0] == 'ok'
        w0 = wn.Wordnet()
        kept_words, kept_synsets = w0.words(), w0.synsets()
        rec['early'] = observe(kept_words, kept_synsets)      # exercises whatever the objects remember
        for name, res in job['post']:
            r = call(wn.add_lexical_resource, copy.deepcopy(res), progress_handler=None)
            ok = ok and r[0] == 'ok'
        rec['adds_ok'] = ok
        rec['kept'] = observe(kept_words, kept_synsets)
        # the same entities re-obtained from the kept Wordnet after the adds
        rec['kept_wordnet'] = observe(w0.words(), w0.synsets())
        w1 = wn.Wordnet()
        ids_w, ids_y = {x._id for x in kept_words}, {y._id for y in kept_synsets}
        rec['fresh'] = observe([x for x in w1.words() if x._id in ids_w], [y for y in w1.synsets() if y._id in ids_y])
        rec['lexicons'] = [[lx._id, lx.specifier()] for lx in wn.lexicons()]
        out.append(rec)
json.dump(out, sys.stdout)
