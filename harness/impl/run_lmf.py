"""LMF runner: dump of in-memory resources, load / is_lmf / scan_lexicons of documents, and the
expat event tree of each document (built here with xml.parsers.expat, independently of wn)."""
import copy
import json
import os
import sys
import xml.parsers.expat
import iutil
import wn
from wn import lmf

iutil.assert_repo()
payload = iutil.load_payload()
out = []


def expat_tree(data):
    """element = [name, [[attr, value]...], direct text, [children]] with namespace-expanded names"""
    root = ['#doc', [], '', []]
    stack = [root]
    p = xml.parsers.expat.ParserCreate(namespace_separator=' ')

    def start(name, attrs):
        el = [name, [[k, v] for k, v in attrs.items()], '', []]
        stack[-1][3].append(el)
        stack.append(el)

    def end(name):
        stack.pop()

    def chars(d):
        stack[-1][2] += d
    p.StartElementHandler = start
    p.EndElementHandler = end
    p.CharacterDataHandler = chars
    p.ordered_attributes = False
    try:
        p.Parse(data, True)
    except xml.parsers.expat.ExpatError as e:
        return ['err', 'ExpatError']
    return ['ok', root[3][0] if root[3] else None]


def errclass(e):
    if isinstance(e, lmf.LMFError):
        return 'LMFError'
    if isinstance(e, wn.Error):
        return 'WnError'
    return type(e).__name__


import tempfile
d = tempfile.mkdtemp(prefix='wnverif-lmf-', dir='/dev/shm')
try:
    for job in payload['jobs']:
        rec = {}
        if job['kind'] == 'dump':
            p = os.path.join(d, 'dump.xml')
            res = copy.deepcopy(job['resource'])
            try:
                lmf.dump(res, p)
                with open(p, encoding='utf-8') as fh:
                    rec['dump'] = ['ok', fh.read()]
                rec['unchanged'] = (res == job['resource'])
                if job.get('reload'):
                    try:
                        r2 = lmf.load(p, progress_handler=None)
                        rec['reload'] = ['ok', r2]
                        p2 = os.path.join(d, 'dump2.xml')
                        lmf.dump(r2, p2)
                        with open(p2, encoding='utf-8') as fh:
                            rec['redump'] = ['ok', fh.read()]
                    except Exception as e:
                        rec['reload'] = ['err', errclass(e)]
            except Exception as e:
                rec['dump'] = ['err', errclass(e)]
        else:
            p = os.path.join(d, 'doc.xml')
            data = job['text'].encode('utf-8') if isinstance(job['text'], str) else bytes(job['text'])
            with open(p, 'wb') as fh:
                fh.write(data)
            rec['tree'] = expat_tree(data)
            lines = data.split(b'\n', 2)
            rec['header'] = [list(lines[0] + b'\n') if len(lines) > 1 else list(lines[0]),
                             (list(lines[1] + b'\n') if len(lines) > 2 else list(lines[1])) if len(lines) > 1 else []]
            try:
                rec['load'] = ['ok', lmf.load(p, progress_handler=None)]
            except Exception as e:
                rec['load'] = ['err', errclass(e)]
            try:
                rec['is_lmf'] = ['ok', bool(lmf.is_lmf(p))]
            except Exception as e:
                rec['is_lmf'] = ['err', errclass(e)]
            try:
                rec['scan'] = ['ok', lmf.scan_lexicons(p)]
            except Exception as e:
                rec['scan'] = ['err', errclass(e)]
            if job.get('try_add'):
                with iutil.FreshDB():
                    import battery
                    before = battery.dump_tables() if wn._db.connect() else None
                    try:
                        wn.add(p, progress_handler=None)
                        rec['add'] = ['ok', [l.specifier() for l in wn.lexicons()]]
                    except Exception as e:
                        rec['add'] = ['err', errclass(e)]
                    rec['db_unchanged'] = (battery.dump_tables() == before)
        out.append(rec)
finally:
    import shutil
    shutil.rmtree(d, ignore_errors=True)
json.dump(out, sys.stdout)
