"""C03: add generated lexicons, export them in each version, load the export, re-add it to an empty database."""
import json
import os
import shutil
import sys
import tempfile
import iutil
import battery
import canon
import lmfgen
import wn
from wn import lmf

iutil.assert_repo()
payload = iutil.load_payload()
out = []


def state(specs):
    rows = battery.lexicon_rows()
    obs = {}
    for sp in specs:
        obs[sp] = canon.canon_obs(battery.observe({'lexicon': sp, 'expand': ''}, deep=True), rows)
    return {'lexicons': canon.canon_lexrows(rows), 'obs': obs}


for case in payload['cases']:
    work = tempfile.mkdtemp(prefix='wnverif-c03-', dir='/dev/shm')
    rec = {'exports': []}
    try:
        with iutil.FreshDB() as db:
            for name, res in case['resources']:
                battery.add_resource(db, name, res, case.get('style_seed'))
            specs = case['export_sets']
            rec['original'] = state(sorted({s for es in specs for s in es}))
            exported = []
            for es in specs:
                for v in case['versions']:
                    p = os.path.join(work, 'exp_%d.xml' % len(exported))
                    try:
                        lexs = [wn.lexicons(lexicon=s)[0] for s in es]
                        wn.export(lexs, p, version=v)
                        exported.append([es, v, p, None])
                    except Exception as e:
                        exported.append([es, v, None, iutil.errname(e)])
        for es, v, p, err in exported:
            r = {'set': es, 'version': v, 'error': err}
            if p:
                try:
                    r['loaded'] = lmf.load(p, progress_handler=None)
                except Exception as e:
                    r['load_error'] = iutil.errname(e)
                with iutil.FreshDB():
                    try:
                        wn.add(p, progress_handler=None)
                        r['readded'] = state(sorted(es))
                    except Exception as e:
                        r['readd_error'] = iutil.errname(e)
            rec['exports'].append(r)
    finally:
        shutil.rmtree(work, ignore_errors=True)
    out.append(rec)
json.dump(out, sys.stdout)
