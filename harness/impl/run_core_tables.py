"""Implementation-side runner for harness/coretables.py (executed through common.run_impl): fills a fresh wn database directly with the given table rows (no wn.add), then
dumps the tables and observes every configuration with harness/impl/battery.py."""
import json
import sys
import iutil      # noqa: E402
import battery    # noqa: E402
import wn         # noqa: E402
import wn._db     # noqa: E402

iutil.assert_repo()
payload = iutil.load_payload()
out = []
for u in payload['universes']:
    rec = {'obs': []}
    with iutil.FreshDB() as db:
        conn = wn._db.connect()
        conn.execute('PRAGMA foreign_keys = OFF')
        conn.execute('DELETE FROM ili_statuses')
        for table, rows in u['tables'].items():
            for row in rows:
                vals = [(v['blob'].encode('utf-8') if isinstance(v, dict) else v) for v in row]
                conn.execute('INSERT INTO %s VALUES (%s)' % (table, ','.join('?' * len(vals))), vals)
        conn.commit()
        conn.execute('PRAGMA foreign_keys = ON')
        rec['tables'] = battery.dump_tables()
        try:
            # adversarial relation graphs can make relation_paths enumerate exponentially many simple paths:
            # such a universe is dropped from the correspondence (counted), never waited for
            with iutil.time_limit(u.get('time_limit', 8)):
                for cfg in u['configs']:
                    rec['obs'].append(battery.observe(cfg, deep=True, translate_to=u.get('translate_to'),
                                                      searches=u.get('searches')))
        except iutil.TooSlow:
            rec['obs'] = None
            rec['too_slow'] = True
    out.append(rec)
json.dump(out, sys.stdout)
