"""C07: the same resources supplied through every route; canonical (rowid-free) content per route."""
import copy
import gzip
import hashlib
import json
import lzma
import os
import shutil
import sys
import tarfile
import tempfile
import iutil
import battery
import canon
import lmfgen
import wn
from wn import lmf

iutil.assert_repo()
payload = iutil.load_payload()
out = []


def state():
    rows = battery.lexicon_rows()
    obs = {}
    for r in sorted(rows, key=lambda r: (r['id'], r['version'])):
        sp = '%s:%s' % (r['id'], r['version'])
        obs[sp] = canon.canon_obs(battery.observe({'lexicon': sp, 'expand': ''}, deep=True), rows)
    return {'lexicons': canon.canon_lexrows(rows), 'obs': obs}


def sha(path):
    h = hashlib.sha256()
    if os.path.isdir(path):
        for root, dirs, files in sorted(os.walk(path)):
            dirs.sort()
            for f in sorted(files):
                h.update(f.encode())
                h.update(open(os.path.join(root, f), 'rb').read())
    else:
        h.update(open(path, 'rb').read())
    return h.hexdigest()


def mk_package(work, name, text, extras=True):
    d = os.path.join(work, name)
    os.makedirs(d)
    with open(os.path.join(d, name + '.xml'), 'w', encoding='utf-8') as fh:
        fh.write(text)
    if extras:
        open(os.path.join(d, 'README.md'), 'w').write('readme')
        open(os.path.join(d, 'LICENSE'), 'w').write('license')
        open(os.path.join(d, 'citation.bib'), 'w').write('@misc{x}')
    return d


def tar_of(path, dest, mode):
    with tarfile.open(dest, mode) as t:
        t.add(path, arcname=os.path.basename(path))
    return dest


for case in payload['cases']:
    work = tempfile.mkdtemp(prefix='wnverif-c07-', dir='/dev/shm')
    rec = {'routes': {}, 'errors': {}, 'modified': []}
    try:
        texts = [[name, lmfgen.to_xml(res)] for name, res in case['resources']]
        routes = {}
        if len(texts) == 1:
            name, text = texts[0]
            base = name.replace(':', '_')
            p = os.path.join(work, base + '.xml')
            open(p, 'w', encoding='utf-8').write(text)
            routes['xml'] = p
            pg = p + '.gz'
            with gzip.open(pg, 'wb') as fh:
                fh.write(text.encode('utf-8'))
            routes['gz'] = pg
            px = p + '.xz'
            with lzma.open(px, 'wb') as fh:
                fh.write(text.encode('utf-8'))
            routes['xz'] = px
            routes['package'] = mk_package(work, base + '_pkg', text)
            routes['tar_file'] = tar_of(p, os.path.join(work, 'f.tar'), 'w')
            routes['targz_package'] = tar_of(routes['package'], os.path.join(work, 'p.tar.gz'), 'w:gz')
            routes['tarxz_file'] = tar_of(p, os.path.join(work, 'f.tar.xz'), 'w:xz')
        elif case.get('sequential'):
            # a base lexicon and an extension of it: order matters, so only routes that keep the order (file by file, plain,
            # compressed, packaged); the in-memory route below adds them in the same order
            sep = []
            for name, text in texts:
                p = os.path.join(work, name.replace(':', '_') + '.xml')
                open(p, 'w', encoding='utf-8').write(text)
                sep.append(p)
            routes['separately'] = sep
            gz = []
            for p in sep:
                with gzip.open(p + '.gz', 'wb') as fh:
                    fh.write(open(p, 'rb').read())
                gz.append(p + '.gz')
            routes['separately_gz'] = gz
            routes['separately_packages'] = [mk_package(work, os.path.basename(p)[:-4] + '_pkg', open(p, encoding='utf-8').read())
                                             for p in sep]
            # (one file holding the base followed by its extension is not among the routes: the skip decision is taken
            # for the whole file before anything is added, so the extension is skipped — by the letter of the property,
            # its base is not installed — and a second add of the same file then installs it; noted in DESIGN.md E.6)
        else:
            coll = os.path.join(work, 'collection')
            os.makedirs(coll)
            for name, text in texts:
                mk_package(coll, name.replace(':', '_'), text, extras=(hash(name) % 2 == 0))
            open(os.path.join(coll, 'README.md'), 'w').write('collection readme')
            routes['collection'] = coll
            routes['targz_collection'] = tar_of(coll, os.path.join(work, 'c.tar.gz'), 'w:gz')
            routes['tar_collection'] = tar_of(coll, os.path.join(work, 'c.tar'), 'w')
            # reference: every file added separately
            sep = []
            for name, text in texts:
                p = os.path.join(work, name.replace(':', '_') + '.xml')
                open(p, 'w', encoding='utf-8').write(text)
                sep.append(p)
            routes['separately'] = sep
        for rname, path in routes.items():
            with iutil.FreshDB():
                try:
                    paths = path if isinstance(path, list) else [path]
                    before = [sha(p) for p in paths]
                    for p in paths:
                        wn.add(p, progress_handler=None)
                    s1 = state()
                    for p in paths:                     # adding again changes nothing
                        wn.add(p, progress_handler=None)
                    s2 = state()
                    rec['routes'][rname] = s1
                    if s2 != s1:
                        rec['errors'][rname] = 'adding the same source twice changed the database'
                    if [sha(p) for p in paths] != before:
                        rec['modified'].append(rname)
                except Exception as e:
                    rec['errors'][rname] = '%s: %s' % (iutil.errname(e), str(e)[:200])
        # in-memory route
        with iutil.FreshDB():
            try:
                for name, text in texts:
                    p = os.path.join(work, 'mem_' + name.replace(':', '_') + '.xml')
                    open(p, 'w', encoding='utf-8').write(text)
                    r = lmf.load(p, progress_handler=None)
                    r0 = copy.deepcopy(r)
                    wn.add_lexical_resource(r, progress_handler=None)
                    if r != r0:
                        rec['modified'].append('memory:' + name)
                    wn.add_lexical_resource(r, progress_handler=None)
                rec['routes']['memory'] = state()
            except Exception as e:
                rec['errors']['memory'] = '%s: %s' % (iutil.errname(e), str(e)[:200])
        # several lexicons in one file, some of them skipped (already installed / orphan extension):
        # the others must be stored exactly as if supplied alone
        if case.get('multi'):
            combined = {'lmf_version': '1.3', 'lexicons': [r['lexicons'][0] for _n, r in case['multi']]}
            pc = os.path.join(work, 'combined.xml')
            open(pc, 'w', encoding='utf-8').write(lmfgen.to_xml(combined))
            full = None
            with iutil.FreshDB():
                try:
                    wn.add(pc, progress_handler=None)
                    full = state()
                except Exception as e:
                    rec['errors']['combined'] = '%s: %s' % (iutil.errname(e), str(e)[:200])
            for pre in range(len(case['multi'])):
                with iutil.FreshDB():
                    try:
                        name, res = case['multi'][pre]
                        p1 = os.path.join(work, 'pre.xml')
                        open(p1, 'w', encoding='utf-8').write(lmfgen.to_xml(res))
                        wn.add(p1, progress_handler=None)          # one lexicon is already installed
                        wn.add(pc, progress_handler=None)
                        rec['routes']['combined_with_%d_preinstalled' % pre] = state()
                    except Exception as e:
                        rec['errors']['combined_pre_%d' % pre] = '%s: %s' % (iutil.errname(e), str(e)[:200])
            if full is not None:
                rec['routes']['combined'] = full
            # a collection (directory / tar.gz) of which one package is already installed: the others are still stored
            if 'collection' in routes:
                for pre in range(len(case['multi'])):
                    for rname in ('collection', 'targz_collection'):
                        with iutil.FreshDB():
                            try:
                                wn.add(routes['separately'][pre], progress_handler=None)
                                wn.add(routes[rname], progress_handler=None)
                                rec['routes']['%s_with_%d_preinstalled' % (rname, pre)] = state()
                            except Exception as e:
                                rec['errors']['%s_pre_%d' % (rname, pre)] = '%s: %s' % (iutil.errname(e), str(e)[:200])
            # a collection that grows between two adds in one process: the second add must see the new package
            if len(texts) >= 2:
                with iutil.FreshDB():
                    try:
                        grow = os.path.join(work, 'growing')
                        os.makedirs(grow)
                        for j, (name, text) in enumerate(texts):
                            d_ = os.path.join(grow, name.replace(':', '_'))
                            os.makedirs(d_)
                            open(os.path.join(d_, 'README.md'), 'w').write('readme')
                            if j == 0:
                                open(os.path.join(d_, name.replace(':', '_') + '.xml'), 'w', encoding='utf-8').write(text)
                        wn.add(grow, progress_handler=None)
                        for j, (name, text) in enumerate(texts):
                            if j > 0:
                                d_ = os.path.join(grow, name.replace(':', '_'))
                                open(os.path.join(d_, name.replace(':', '_') + '.xml'), 'w', encoding='utf-8').write(text)
                        wn.add(grow, progress_handler=None)
                        rec['routes']['collection_grown_between_two_adds'] = state()
                    except Exception as e:
                        rec['errors']['collection_grown'] = '%s: %s' % (iutil.errname(e), str(e)[:200])
                # a package directory whose resource file is replaced between two adds
                with iutil.FreshDB():
                    try:
                        pk = os.path.join(work, 'swap_pkg')
                        os.makedirs(pk)
                        f0 = os.path.join(pk, 'first.xml')
                        open(f0, 'w', encoding='utf-8').write(texts[0][1])
                        wn.add(pk, progress_handler=None)
                        os.unlink(f0)
                        open(os.path.join(pk, 'second.xml'), 'w', encoding='utf-8').write(texts[1][1])
                        wn.add(pk, progress_handler=None)
                        st = state()
                        want = {texts[0][0], texts[1][0]}
                        if set(st['obs']) != want:
                            rec['errors']['package_swapped'] = 'installed %s, expected %s' % (sorted(st['obs']), sorted(want))
                    except Exception as e:
                        rec['errors']['package_swapped'] = '%s: %s' % (iutil.errname(e), str(e)[:200])
            # the in-memory route with lexicons that are skipped (already installed): the caller's resource is not modified
            for pre in range(len(case['multi'])):
                with iutil.FreshDB():
                    try:
                        wn.add(routes['separately'][pre] if 'separately' in routes else pc, progress_handler=None)
                        r = lmf.load(pc, progress_handler=None)
                        r0 = copy.deepcopy(r)
                        wn.add_lexical_resource(r, progress_handler=None)
                        if r != r0:
                            rec['modified'].append('memory:combined_with_%d_preinstalled' % pre)
                        rec['routes']['memory_combined_with_%d_preinstalled' % pre] = state()
                    except Exception as e:
                        rec['errors']['memory_combined_pre_%d' % pre] = '%s: %s' % (iutil.errname(e), str(e)[:200])
            if case.get('orphan_extension'):
                with iutil.FreshDB():
                    mixed = {'lmf_version': '1.3', 'lexicons': [case['orphan_extension']['lexicons'][0]]
                             + [r['lexicons'][0] for _n, r in case['multi']]}
                    pm = os.path.join(work, 'mixed.xml')
                    open(pm, 'w', encoding='utf-8').write(lmfgen.to_xml(mixed))
                    try:
                        wn.add(pm, progress_handler=None)
                        rec['routes']['combined_after_orphan_extension'] = state()
                    except Exception as e:
                        rec['errors']['mixed'] = '%s: %s' % (iutil.errname(e), str(e)[:200])
                with iutil.FreshDB():
                    try:
                        r = lmf.load(pm, progress_handler=None)
                        r0 = copy.deepcopy(r)
                        wn.add_lexical_resource(r, progress_handler=None)
                        if r != r0:
                            rec['modified'].append('memory:combined_after_orphan_extension')
                        rec['routes']['memory_combined_after_orphan_extension'] = state()
                    except Exception as e:
                        rec['errors']['memory_mixed'] = '%s: %s' % (iutil.errname(e), str(e)[:200])
        # an extension whose base is not installed is skipped as a whole
        if case.get('orphan_extension'):
            with iutil.FreshDB():
                p = os.path.join(work, 'orphan.xml')
                open(p, 'w', encoding='utf-8').write(lmfgen.to_xml(case['orphan_extension']))
                try:
                    wn.add(p, progress_handler=None)
                    tabs = battery.dump_tables()
                    rec['orphan'] = {t: len(rows) for t, rows in tabs.items() if rows and t != 'ili_statuses'}
                except Exception as e:
                    rec['orphan'] = 'raised %s' % iutil.errname(e)
    finally:
        shutil.rmtree(work, ignore_errors=True)
    out.append(rec)
json.dump(out, sys.stdout)
