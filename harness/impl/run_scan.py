"""For each job: write the bytes to a file, call wn.lmf.scan_lexicons; when asked, also dump a resource with wn.lmf.dump
and scan the dumped file (returns the dumped bytes too)."""
import json
import os
import sys
import iutil
import wn
from wn import lmf

iutil.assert_repo()
payload = iutil.load_payload()
out = []
with iutil.FreshDB() as db:
    for k, job in enumerate(payload['jobs']):
        p = os.path.join(db.dir, 'scan_%d.xml' % k)
        if job.get('resource') is not None:
            try:
                lmf.dump(dict(job['resource'], lmf_version=job['version']), p)
            except Exception as e:
                out.append({'dump_error': iutil.errname(e)})
                continue
            data = open(p, 'rb').read()
        else:
            data = bytes(job['bytes'])
            with open(p, 'wb') as fh:
                fh.write(data)
        try:
            infos = lmf.scan_lexicons(p)
            res = ['ok', [[i['id'], i['version'], i.get('label'),
                           ([i['extends']['id'], i['extends']['version']] if i.get('extends') else None)] for i in infos]]
        except lmf.LMFError:
            res = ['err', 'LMFError']
        except Exception as e:
            res = ['err', type(e).__name__]
        out.append({'bytes': list(data), 'result': res})
json.dump(out, sys.stdout)
