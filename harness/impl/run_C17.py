"""C17 implementation runner: builds each lexicon in a fresh database, runs an
initialized and an uninitialized Morphy on every (form, pos) query, and the
lemmatizing Wordnet searches."""
import json
import sys
import iutil
import lmfgen
import wn
from wn.morphy import Morphy

iutil.assert_repo()
payload = iutil.load_payload()
out = []


def canon(res):
    return [[k, sorted(v)] for k, v in res.items()]


def ids(objs):
    return [[type(o).__name__, o.id, o._lexid == 0 or o.lexicon().id] for o in objs]


for grp in payload['groups']:
    g = {'init': [], 'uninit': [], 'search': [], 'init_error': None}
    with iutil.FreshDB() as db:
        lex = lmfgen.simple_lexicon('mlex')
        ss = []
        for i, (pos, lemma, others) in enumerate(grp['words']):
            eid = 'mlex-e%d' % i
            lex['entries'].append({
                'id': eid, 'lemma': {'writtenForm': lemma, 'partOfSpeech': pos},
                'forms': [{'writtenForm': f} for f in others],
                'senses': [{'id': 'mlex-s%d' % i, 'synset': 'mlex-ss%d' % i}]})
            lex['synsets'].append({'id': 'mlex-ss%d' % i, 'ili': '', 'partOfSpeech': pos})
        path = db.write('m.xml', lmfgen.to_xml({'lmf_version': '1.0', 'lexicons': [lex]}))
        iutil.add_quiet(path)
        w = wn.Wordnet('mlex:1')
        plain = wn.Wordnet('mlex:1', normalizer=None)
        un = Morphy()
        try:
            ini = Morphy(w)
        except Exception as e:
            ini = None
            g['init_error'] = iutil.errname(e)
        for form, pos in grp['queries']:
            g['uninit'].append(canon(un(form, pos)))
            g['init'].append(canon(ini(form, pos)) if ini else None)
        # the lemmatizing searches (search_all_forms on/off x normalizer on/off are C09's)
        for which, m in (('uninit', un), ('init', ini)):
            if m is None:
                continue
            lw = wn.Wordnet('mlex:1', lemmatizer=m, normalizer=None)
            for form, pos in grp['search_queries']:
                proposed = m(form, pos) or {pos: {form}}
                rec = {'which': which, 'form': form, 'pos': pos,
                       'proposed': canon(proposed), 'got': {}, 'parts': {}}
                for kind in ('words', 'senses', 'synsets'):
                    rec['got'][kind] = [o.id for o in getattr(lw, kind)(form, pos)]
                    parts = []
                    for p, fs in proposed.items():
                        for f in sorted(fs):
                            parts.append([p, f, [o.id for o in getattr(plain, kind)(f, p)]])
                    rec['parts'][kind] = parts
                g['search'].append(rec)
            # the same searches with the default normalizer: the normalised retry happens only when no proposal found
            # anything, and looks each proposal up under the proposal's own part of speech
            nw = wn.Wordnet('mlex:1', lemmatizer=m)
            for form, pos in grp['search_queries']:
                proposed = m(form, pos) or {pos: {form}}
                g.setdefault('search_norm', []).append({'which': which, 'form': form, 'pos': pos, 'proposed': canon(proposed),
                                                         'got': [o.id for o in nw.words(form, pos)]})
    out.append(g)
json.dump(out, sys.stdout)
