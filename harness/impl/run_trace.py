"""Runs histories of add_lexical_resource / remove / add(ILI file) on a fresh database and
records the full table dump before and after every operation."""
import copy
import json
import os
import sys
import iutil
import battery
import wn

iutil.assert_repo()
payload = iutil.load_payload()
out = []
for h in payload['histories']:
    steps = []
    with iutil.FreshDB() as db:
        wn._db.connect()
        before = battery.dump_tables()
        for op in h['ops']:
            kind = op[0]
            if kind == 'add':
                r = battery.call(wn.add_lexical_resource, copy.deepcopy(op[1]), progress_handler=None)
            elif kind == 'addxml':
                r = battery.call(battery.add_resource, db, op[2], op[1], op[3] if len(op) > 3 else None)
            elif kind == 'remove':
                r = battery.call(wn.remove, op[1], progress_handler=None)
            elif kind == 'ili':
                p = db.write('ili_%d.tsv' % len(steps), op[1])
                r = battery.call(wn.add, p, progress_handler=None)
            else:
                raise ValueError(kind)
            after = battery.dump_tables()
            rec = {'outcome': 'ok' if r[0] == 'ok' else r[1], 'after': after}
            if h.get('lexrows'):
                rec['lexicons'] = battery.lexicon_rows()
            steps.append(rec)
        out.append({'initial': before, 'steps': steps})
json.dump(out, sys.stdout)
