"""Runs histories of add_lexical_resource / remove / add(ILI file) on a fresh database and
records the full table dump before and after every operation."""
import copy
import json
import os
import sys
import iutil
import battery
import wn

iutil.assert_repo()
payload = iutil.load_payload()
out = []
for h in payload['histories']:
    steps = []
    with iutil.FreshDB() as db:
        wn._db.connect()
        before = battery.dump_tables()
        for op in h['ops']:
            kind = op[0]
            if kind == 'add':
                r = battery.call(wn.add_lexical_resource, copy.deepcopy(op[1]), progress_handler=None)
            elif kind == 'addxml':
                r = battery.call(battery.add_resource, db, op[2], op[1], op[3] if len(op) > 3 else None)
            elif kind == 'remove':
                r = battery.call(wn.remove, op[1], progress_handler=None)
            elif kind == 'ili':
                p = db.write('ili_%d.tsv' % len(steps), op[1])
                r = battery.call(wn.add, p, progress_handler=None)
            else:
                raise ValueError(kind)
            after = battery.dump_tables()
            rec = {'outcome': 'ok' if r[0] == 'ok' else r[1], 'after': after}
            if h.get('lexrows'):
                rec['lexicons'] = battery.lexicon_rows()
            steps.append(rec)
        rec_h = {'initial': before, 'steps': steps}
        if h.get('final_configs') is not None:
            import sqlite3
            rec_h['final_lexicons'] = battery.lexicon_rows()
            rec_h['final_obs'] = [battery.observe(c, deep=h.get('deep', True)) for c in h['final_configs']]
            con = sqlite3.connect(str(wn.config.database_path))
            con.execute('PRAGMA foreign_keys = ON')
            rec_h['fk_check'] = [list(map(str, r)) for r in con.execute('PRAGMA foreign_key_check')]
            rec_h['integrity'] = [r[0] for r in con.execute('PRAGMA integrity_check')]
            con.close()
        out.append(rec_h)
json.dump(out, sys.stdout)
