"""Generic runner: for each universe, add the resources (in order), then dump tables, lexicon
rows and the observations for every requested Wordnet configuration."""
import json
import sys
import iutil
import battery
import wn

iutil.assert_repo()
payload = iutil.load_payload()
import wn._add
payload['default_batch_size'] = wn._add.BATCH_SIZE
out = []
for u in payload['universes']:
    rec = {'adds': [], 'obs': []}
    import wn._add
    wn._add.BATCH_SIZE = u.get('batch_size') or payload.get('default_batch_size', 1000)
    with iutil.FreshDB() as db:
        if u.get('churn'):
            # an unrelated lexicon is added, looked at and removed first: the real lexicons then reuse its rowids
            battery.add_resource(db, 'zz_churn', u['churn'], None)
            battery.touch_everything()
            if u.get('churn_bad'):
                # an add that is rejected part-way must leave no trace, not even in how later removals behave
                battery.call(battery.add_resource, db, 'zz_bad', u['churn_bad'], None)
            wn.remove('*', progress_handler=None)
        for i, (name, res) in enumerate(u['resources']):
            r = battery.call(battery.add_resource, db, name, res, u.get('style_seed'))
            rec['adds'].append([name, r[0] if r[0] == 'ok' else r])
            if u.get('interleave'):
                # queries between the adds (default mode and restricted), results discarded
                battery.touch_everything()
        if u.get('want_tables', True):
            rec['tables'] = battery.dump_tables()
        rec['lexicons'] = battery.lexicon_rows()
        for cfg in u.get('configs', []):
            rec['obs'].append(battery.observe(cfg, deep=u.get('deep', True),
                                              translate_to=u.get('translate_to'),
                                              searches=u.get('searches')))
    out.append(rec)
json.dump(out, sys.stdout)
