"""C08 implementation runner: builds a database by a history of adds/removes of tiny
lexicons, then evaluates wn.lexicons() and wn.Wordnet() for every (specifier, lang)."""
import json
import sys
import warnings
import iutil
import wn

iutil.assert_repo()
payload = iutil.load_payload()
out = []


def tiny(i, v, lang):
    return {'lmf_version': '1.3', 'lexicons': [{
        'id': i, 'label': i + ' ' + v, 'language': lang, 'email': 'e', 'license': 'l', 'version': v,
        'meta': None, 'entries': [], 'synsets': []}]}


for db in payload['dbs']:
    with iutil.FreshDB():
        for op in db['history']:
            if op[0] == 'add':
                wn.add_lexical_resource(tiny(op[1], op[2], op[3]), progress_handler=None)
            else:
                wn.remove('%s:%s' % (op[1], op[2]), progress_handler=None)
        rows = sorted((l._id, l.id, l.version, l.language) for l in wn.lexicons())
        res = []
        for spec, lang in db['queries']:
            r = {}
            try:
                r['lexicons'] = [l._id for l in wn.lexicons(lexicon=spec, lang=lang)]
            except Exception as e:
                r['lexicons'] = ['err', iutil.errname(e)]
            try:
                with warnings.catch_warnings():
                    warnings.simplefilter('ignore')
                    w = wn.Wordnet(lexicon=spec, lang=lang)
                r['wordnet'] = [l._id for l in w.lexicons()]
            except Exception as e:
                r['wordnet'] = ['err', iutil.errname(e)]
            res.append(r)
        out.append({'rows': rows, 'res': res})
json.dump(out, sys.stdout)
