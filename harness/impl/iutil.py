"""Helpers for the implementation-side runners (executed by the repository's
interpreter with PYTHONPATH=<source tree>)."""
import json
import os
import shutil
import sys
import tempfile
import warnings

import wn
import wn._db


def assert_repo():
    want = os.path.realpath(os.environ.get('VERIF_REPO', '/repo'))
    got = os.path.realpath(wn.__file__)
    if not got.startswith(want + os.sep):
        raise SystemExit('wn imported from %s, expected under %s' % (got, want))


class FreshDB:
    """A fresh, empty wn database in a private directory (under /dev/shm)."""
    def __init__(self):
        self.dir = None

    def __enter__(self):
        close_pool()
        base = '/dev/shm' if os.path.isdir('/dev/shm') else None
        self.dir = tempfile.mkdtemp(prefix='wnverif-db-', dir=base)
        wn.config.data_directory = self.dir
        return self

    def __exit__(self, *a):
        close_pool()
        shutil.rmtree(self.dir, ignore_errors=True)

    def write(self, name, text):
        p = os.path.join(self.dir, name)
        with open(p, 'w', encoding='utf-8') as fh:
            fh.write(text)
        return p


def close_pool():
    for c in list(wn._db.pool.values()):
        try:
            c.close()
        except Exception:
            pass
    wn._db.pool.clear()


def load_payload():
    with open(sys.argv[1]) as fh:
        return json.load(fh)


def errname(e):
    if isinstance(e, wn.Error):
        return 'WnError'
    return type(e).__name__


def add_quiet(path):
    wn.add(path, progress_handler=None)


class TooSlow(BaseException):
    """raised by time_limit; BaseException so that the battery's `except Exception` clauses do not swallow it"""


class time_limit:
    """with time_limit(seconds): ...  raises TooSlow when the block runs longer (SIGALRM; main thread only)"""
    def __init__(self, seconds):
        self.seconds = seconds

    def __enter__(self):
        import signal

        def handler(signum, frame):
            raise TooSlow()
        self.old = signal.signal(signal.SIGALRM, handler)
        signal.alarm(int(self.seconds))
        return self

    def __exit__(self, *a):
        import signal
        signal.alarm(0)
        signal.signal(signal.SIGALRM, self.old)
        return False
