"""Implementation-side library: adding generated resources, dumping the SQLite tables,
and observing a Wordnet through (nearly) every public query/navigation method."""
import json
import os
import sqlite3
import warnings

import iutil
import lmfgen
import wn
import wn._db


def add_resource(db, name, resource, style_seed=None, route='xml'):
    """Write the resource with the harness's own writer and wn.add() it."""
    import random
    st = lmfgen.Style(random.Random(style_seed)) if style_seed is not None else lmfgen.Style()
    path = db.write(name.replace(':', '_') + '.xml', lmfgen.to_xml(resource, style=st))
    wn.add(path, progress_handler=None)
    return path


def dump_tables():
    """Every table, rows in rowid order, as [rowid, col...] with raw column values
    (metadata stays JSON text, booleans stay 0/1)."""
    path = str(wn.config.database_path)
    wn._db.connect().commit()
    con = sqlite3.connect(path)
    out = {}
    names = [r[0] for r in con.execute("SELECT name FROM sqlite_master WHERE type='table' ORDER BY rowid")]
    for t in names:
        cols = [c[1] for c in con.execute('PRAGMA table_info(%s)' % t)]
        sel = ', '.join(c for c in cols if c != 'rowid')
        rows = []
        for r in con.execute('SELECT rowid, %s FROM %s ORDER BY rowid' % (sel, t)):
            rows.append([(v.decode('utf-8') if isinstance(v, bytes) else v) for v in r])
        out[t] = rows
    con.close()
    return out


def ref(x):
    if x is None:
        return None
    n = type(x).__name__
    if n == 'Word':
        return ['W', x._id]
    if n == 'Sense':
        return ['S', x._id]
    if n == 'Synset':
        return ['Y', x._id, x._ili, x._lexid, x.id]
    if n == 'ILI':
        return ['I', x.id, x.status, x.definition()]
    if n == 'Lexicon':
        return ['L', x._id]
    raise TypeError(n)


def call(f, *a, **kw):
    try:
        return ['ok', f(*a, **kw)]
    except wn.Error:
        return ['err', 'WnError']
    except Exception as e:  # noqa
        return ['err', type(e).__name__]


def refs(r):
    if r[0] != 'ok':
        return r
    v = r[1]
    if isinstance(v, (list, tuple)):
        return ['ok', [ref(x) for x in v]]
    return ['ok', ref(v)]


def relmap(x):
    r = call(x.relation_map)
    if r[0] != 'ok':
        return r
    return ['ok', [[rel.name, rel.source_id, rel.target_id, rel._lexicon, rel.subtype, rel.metadata() or None, ref(t)]
                   for rel, t in r[1].items()]]


def reldict(x, *args):
    r = call(x.relations, *args)
    if r[0] != 'ok':
        return r
    return ['ok', [[k, [ref(t) for t in v]] for k, v in r[1].items()]]


def elex(x):
    """the lexicon an entity reports for itself (attributes only, no rowids)"""
    r = call(x.lexicon)
    if r[0] != 'ok':
        return r
    lx = r[1]
    return ['ok', [lx.id, lx.version, lx.label, lx.language, lx.license, lx.email, lx.url, lx.citation, lx.logo]]


def touch_everything():
    """read-only calls on whatever is installed (default mode and restricted), results discarded: used between
    modifications so that anything the library remembers across calls is exercised"""
    try:
        for x in wn.words():
            x.lexicon()
            for s_ in x.senses():
                s_.examples(); s_.synset().senses(); s_.lexicon(); s_.synset().lexicon(); s_.synset().lexfile()
                s_.frames()
        for lx in wn.lexicons():
            w = wn.Wordnet(lx.specifier())
            w.synsets(); lx.extends(); lx.requires(); lx.extensions()
    except Exception:
        pass


def obs_form(f):
    return [str(f), f.id, f.script, f._id,
            [[t.tag, t.category] for t in f.tags()],
            [[p.value, p.variety, p.notation, p.phonemic, p.audio] for p in f.pronunciations()]]


def obs_word(w, deep=True):
    o = {'ref': ref(w), 'id': w.id, 'pos': w.pos, 'lex': w._lexid, 'elex': elex(w),
         'forms': [obs_form(f) for f in w.forms()], 'lemma': str(w.lemma()),
         'senses': refs(call(w.senses)), 'synsets': refs(call(w.synsets)), 'meta': w.metadata() or None}
    if deep:
        o['derived'] = refs(call(w.derived_words))
    return o


REL_ARGSETS_SENSE = [[], ['antonym'], ['derivation', 'also'], ['xrel'], ['*'], ['nosuch']]
REL_ARGSETS_SYNSET = [[], ['hypernym'], ['hypernym', 'instance_hypernym'], ['similar', 'xrel'], ['*'], ['nosuch']]


def obs_sense(s, deep=True):
    o = {'ref': ref(s), 'id': s.id, 'lex': s._lexid, 'elex': elex(s), 'word': refs(call(s.word)), 'synset': refs(call(s.synset)),
         'examples': s.examples(), 'lexicalized': s.lexicalized(), 'adjposition': s.adjposition(),
         'frames': s.frames(), 'counts': [[int(c), c.metadata() or None] for c in s.counts()],
         'meta': s.metadata() or None}
    if deep:
        o['relmap'] = relmap(s)
        o['rels'] = [[a, refs(call(s.get_related, *a))] for a in REL_ARGSETS_SENSE]
        o['reldict'] = reldict(s)
        o['relsyn'] = [[a, refs(call(s.get_related_synsets, *a))] for a in [[], ['domain_topic'], ['other', 'xrel']]]
        o['closure'] = refs(call(lambda: list(s.closure('antonym', 'derivation', 'also', 'similar', 'pertainym', 'xrel'))))
        r = call(lambda: [list(p) for p in s.relation_paths('derivation', 'also', 'xrel')])
        o['paths'] = ['ok', [[ref(t) for t in p] for p in r[1]]] if r[0] == 'ok' else r
    return o


def obs_synset(y, deep=True):
    ili = call(lambda: y.ili)
    o = {'ref': ref(y), 'id': y.id, 'pos': y.pos, 'lex': y._lexid, 'elex': elex(y),
         'ili': ['ok', ref(ili[1])] if ili[0] == 'ok' else ili,
         'definition': y.definition(), 'examples': y.examples(), 'senses': refs(call(y.senses)),
         'lexicalized': y.lexicalized(), 'lexfile': y.lexfile(), 'meta': y.metadata() or None,
         'words': refs(call(y.words)), 'lemmas': call(lambda: [str(x) for x in y.lemmas()])}
    if deep:
        o['relmap'] = relmap(y)
        o['rels'] = [[a, refs(call(y.get_related, *a))] for a in REL_ARGSETS_SYNSET]
        o['reldict'] = reldict(y)
        o['hypernyms'] = refs(call(y.hypernyms))
        o['hyponyms'] = refs(call(y.hyponyms))
        o['closure'] = refs(call(lambda: list(y.closure('hypernym', 'instance_hypernym', 'similar', 'xrel'))))
        r = call(lambda: [list(p) for p in y.relation_paths('hypernym', 'similar', 'xrel')])
        o['paths'] = ['ok', [[ref(t) for t in p] for p in r[1]]] if r[0] == 'ok' else r
    return o


def mk_wordnet(cfg):
    """cfg: {lexicon, lang, expand ('default' | str), normalizer (bool), search_all_forms, lemmatizer}"""
    kw = {}
    if cfg.get('expand', 'default') != 'default':
        kw['expand'] = cfg['expand']
    if not cfg.get('normalizer', True):
        kw['normalizer'] = None
    if 'search_all_forms' in cfg:
        kw['search_all_forms'] = cfg['search_all_forms']
    with warnings.catch_warnings(record=True) as wlist:
        warnings.simplefilter('always')
        w = wn.Wordnet(lexicon=cfg.get('lexicon'), lang=cfg.get('lang'), **kw)
    lem = cfg.get('lemmatizer')
    if lem == 'morphy':
        from wn.morphy import Morphy
        w.lemmatizer = Morphy()
    elif lem == 'morphy_init':
        from wn.morphy import Morphy
        w.lemmatizer = Morphy(w)
    elif isinstance(lem, dict):
        table = lem
        w.lemmatizer = lambda form, pos=None: {(None if k == '' else k): set(v)
                                              for k, v in table.get(form, {}).items()}
    return w, [str(x.message) for x in wlist]


def observe(cfg, deep=True, translate_to=None, searches=None):
    r = call(mk_wordnet, cfg)
    if r[0] != 'ok':
        return {'ctor': r}
    w, warns = r[1]
    o = {'ctor': ['ok'], 'warnings': warns,
         'lexicons': [x._id for x in w.lexicons()], 'expanded': [x._id for x in w.expanded_lexicons()],
         'default_mode': bool(w._default_mode)}
    words, senses, synsets = w.words(), w.senses(), w.synsets()
    o['words'] = [obs_word(x, deep) for x in words]
    o['senses'] = [obs_sense(x, deep) for x in senses]
    o['synsets'] = [obs_synset(x, deep) for x in synsets]
    # equality and hashing of objects reached by different routes (C10)
    eq = {'same_bad': [], 'diff_bad': [], 'lex_bad': []}
    byw = {x._id: x for x in words}
    bys = {x._id: x for x in senses}
    byy = {x._id: x for x in synsets}

    def same_lexicon(a_, b_, route):
        # the same stored entity reached by navigation and obtained from the Wordnet belongs to one lexicon
        if a_._lexid != b_._lexid:
            eq['lex_bad'].append([route, ref(a_), a_._lexid, b_._lexid])
    for s_ in senses:
        for getter, table, route in ((s_.word, byw, 'Sense.word()'), (s_.synset, byy, 'Sense.synset()')):
            r_ = call(getter)
            if r_[0] == 'ok' and r_[1]._id in table:
                a_, b_ = r_[1], table[r_[1]._id]
                if not (a_ == b_ and hash(a_) == hash(b_) and a_ in {b_} and not (a_ != b_)):
                    eq['same_bad'].append([ref(a_), ref(b_)])
                same_lexicon(a_, b_, route)
    for x in words:
        r_ = call(x.senses)
        if r_[0] == 'ok':
            for a_ in r_[1]:
                b_ = bys.get(a_._id)
                if b_ is not None and not (a_ == b_ and hash(a_) == hash(b_) and a_ in {b_}):
                    eq['same_bad'].append([ref(a_), ref(b_)])
                if b_ is not None:
                    same_lexicon(a_, b_, 'Word.senses()')
    for y in synsets:
        r_ = call(y.senses)
        if r_[0] == 'ok':
            for a_ in r_[1]:
                b_ = bys.get(a_._id)
                if b_ is not None:
                    same_lexicon(a_, b_, 'Synset.senses()')
        r_ = call(y.words)
        if r_[0] == 'ok':
            for a_ in r_[1]:
                b_ = byw.get(a_._id)
                if b_ is not None:
                    same_lexicon(a_, b_, 'Synset.words()')
    allobj = list(words) + list(senses) + list(synsets)
    for i_ in range(len(allobj)):
        for j_ in range(i_ + 1, min(len(allobj), i_ + 6)):
            a_, b_ = allobj[i_], allobj[j_]
            if a_ == b_ or a_ in {b_}:
                eq['diff_bad'].append([ref(a_), ref(b_)])
    o['eqhash'] = eq
    o['ilis'] = refs(call(w.ilis))
    o['ilis_by_status'] = [[st, refs(call(w.ilis, st))] for st in ('presupposed', 'proposed', 'active', 'nosuch')]
    if translate_to:
        tr = []
        for y in synsets:
            for tgt in translate_to:
                tr.append([ref(y), tgt, refs(call(y.translate, **tgt))])
        o['translate_synsets'] = tr
        o['translate_senses'] = [[ref(s), tgt, refs(call(s.translate, **tgt))] for s in senses for tgt in translate_to]
        trw = []
        for x in words:
            for tgt in translate_to:
                r2 = call(x.translate, **tgt)
                if r2[0] == 'ok':
                    r2 = ['ok', [[ref(k), [ref(t) for t in v]] for k, v in r2[1].items()]]
                trw.append([ref(x), tgt, r2])
        o['translate_words'] = trw
    if searches:
        res = []
        for form, pos in searches:
            res.append([form, pos, refs(call(w.words, form, pos)), refs(call(w.senses, form, pos)),
                        refs(call(w.synsets, form, pos))])
        o['searches'] = res
    return o


def lexicon_rows():
    out = []
    for lx in wn.lexicons():
        out.append({'rowid': lx._id, 'id': lx.id, 'version': lx.version, 'label': lx.label, 'language': lx.language,
                    'email': lx.email, 'license': lx.license, 'url': lx.url, 'citation': lx.citation, 'logo': lx.logo,
                    'meta': lx.metadata() or None, 'modified': lx.modified(),
                    'requires': [[k, (v._id if v is not None else None)] for k, v in lx.requires().items()],
                    'extends': (lx.extends()._id if lx.extends() is not None else None),
                    'extensions': [x._id for x in lx.extensions()],
                    'extensions_all': [x._id for x in lx.extensions(depth=-1)]})
    return out
