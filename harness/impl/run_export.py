"""For each universe: add the resources, then call wn._export._export_lexicon for every non-extension lexicon
and version; returns the table dump and the in-memory exported lexicons."""
import json
import sys
import iutil
import battery
import wn
import wn._export
from wn._util import version_info

iutil.assert_repo()
payload = iutil.load_payload()
out = []
for u in payload['universes']:
    with iutil.FreshDB() as db:
        for name, res in u['resources']:
            battery.add_resource(db, name, res, u.get('style_seed'))
        rec = {'tables': battery.dump_tables(), 'exports': []}
        for lx in wn.lexicons():
            if lx.extends() is not None:
                continue
            for v in u['versions']:
                try:
                    d = wn._export._export_lexicon(lx, version_info(v))
                    rec['exports'].append([lx._id, v, 'ok', d])
                except Exception as e:
                    rec['exports'].append([lx._id, v, iutil.errname(e), None])
        out.append(rec)
json.dump(out, sys.stdout)
