"""Implementation runner for the graph family (C13, C14, C15): every graph becomes
one lexicon (synsets g<k>-<i>, hypernym / instance_hypernym / hyponym relations);
many lexicons share a database, each queried through its own restricted Wordnet
without expand lexicons."""
import json
import math
import sys
import warnings
import iutil
import wn
import wn.taxonomy
import wn.similarity
import wn.ic

iutil.assert_repo()
payload = iutil.load_payload()
want = set(payload.get('want', ['tax']))
out = []


def mk_lexicon(k, g):
    lid = 'g%d' % k
    lex = {'id': lid, 'label': lid, 'language': 'en', 'email': 'e', 'license': 'l',
           'version': '1', 'entries': [], 'synsets': [], 'meta': None}
    n = g['n']
    rels = {i: [] for i in range(1, n + 1)}
    for s, t, ty in g['edges']:
        rels[s].append({'target': '%s-%d' % (lid, t), 'relType': ty, 'meta': None})
    for i in range(1, n + 1):
        lex['synsets'].append({'id': '%s-%d' % (lid, i), 'ili': '', 'partOfSpeech': g['pos'][i - 1],
                               'relations': rels[i], 'meta': None})
    for j, (form, members) in enumerate(g.get('words', [])):
        # one entry per (form, pos-of-first-member) with one sense per member synset
        for m in members:
            pos = g['pos'][m - 1]
            eid = '%s-w%d-%d' % (lid, j, m)
            lex['entries'].append({'id': eid, 'meta': None,
                                   'lemma': {'writtenForm': form, 'partOfSpeech': pos},
                                   'senses': [{'id': eid + '-s', 'synset': '%s-%d' % (lid, m), 'meta': None}]})
    return lex


def idx(ss):
    if ss.id == '*ROOT*':
        return 0
    try:
        return int(ss.id.rsplit('-', 1)[1])
    except ValueError:
        return -1            # a synset that does not belong to the graph (e.g. contributed by an unselected extension)


def mk_extension(k, g):
    """an extension of lexicon g<k> that is NOT selected by the queries: it adds a hypernym edge from a node of the graph
    to a synset of its own and one between two nodes of the graph; a Wordnet restricted to g<k> must not see either"""
    lid = 'g%d' % k
    n = g['n']
    a = 1 + (k % n)
    b = 1 + ((k // 2) % n)
    return {'id': 'xg%d' % k, 'label': 'x', 'language': 'en', 'email': 'e', 'license': 'l', 'version': '1', 'meta': None,
            'extends': {'id': lid, 'version': '1'}, 'entries': [],
            'synsets': [{'id': 'xg%d-over' % k, 'ili': '', 'partOfSpeech': g['pos'][a - 1], 'meta': None},
                        {'id': '%s-%d' % (lid, a), 'external': True,
                         'relations': [{'target': 'xg%d-over' % k, 'relType': 'hypernym', 'meta': None}]},
                        ] + ([{'id': '%s-%d' % (lid, b), 'external': True,
                               'relations': [{'target': '%s-%d' % (lid, a), 'relType': 'hypernym', 'meta': None}]}] if b != a else [])}


def call(f, *a, **kw):
    try:
        return ['ok', f(*a, **kw)]
    except wn.Error:
        return ['err', 'WnError']
    except Exception as e:  # noqa
        return ['err', type(e).__name__]


def fl(x):
    """floats -> exact representation (hex) or special names"""
    if isinstance(x, float):
        if math.isinf(x):
            return 'inf' if x > 0 else '-inf'
        if math.isnan(x):
            return 'nan'
        return x.hex()
    return x


for db in payload['dbs']:
    with iutil.FreshDB():
        res = {'lmf_version': '1.3', 'lexicons': [mk_lexicon(g['k'], g) for g in db]}
        wn.add_lexical_resource(res, progress_handler=None)
        exts = [mk_extension(g['k'], g) for g in db if g['k'] % 3 == 0]
        if exts:
            wn.add_lexical_resource({'lmf_version': '1.1', 'lexicons': exts}, progress_handler=None)
        for g in db:
            lid = 'g%d' % g['k']
            w = wn.Wordnet(lid + ':1', expand='')
            n = g['n']
            ss = {i: w.synset('%s-%d' % (lid, i)) for i in range(1, n + 1)}
            rec = {'k': g['k'], 'hyp': {}, 'hypo': {}, 'sr': {}}
            for i in range(1, n + 1):
                rec['hyp'][i] = [idx(x) for x in ss[i].hypernyms()]
                rec['hypo'][i] = [idx(x) for x in ss[i].hyponyms()]
            P = g['qpos']
            rec['vp'] = [idx(x) for x in wn.taxonomy._synsets_for_pos(w, P)]
            if 'tax' in want:
                rec['roots'] = [idx(x) for x in wn.taxonomy.roots(w, P)]
                rec['leaves'] = [idx(x) for x in wn.taxonomy.leaves(w, P)]
                rec['taxdepth'] = call(wn.taxonomy.taxonomy_depth, w, P)
                for sr in (False, True):
                    r = {'nodes': [], 'pairs': []}
                    for i in range(1, n + 1):
                        r['nodes'].append([
                            [[idx(x) for x in p] for p in ss[i].hypernym_paths(simulate_root=sr)],
                            ss[i].min_depth(simulate_root=sr), ss[i].max_depth(simulate_root=sr)])
                    for a in range(1, n + 1):
                        for b in range(1, n + 1):
                            sp = call(ss[a].shortest_path, ss[b], simulate_root=sr)
                            r['pairs'].append([
                                [idx(x) for x in ss[a].common_hypernyms(ss[b], simulate_root=sr)],
                                [idx(x) for x in ss[a].lowest_common_hypernyms(ss[b], simulate_root=sr)],
                                ['ok', [idx(x) for x in sp[1]]] if sp[0] == 'ok' else sp])
                    rec['sr'][str(int(sr))] = r
            if 'sim' in want:
                td = rec.get('taxdepth') or call(wn.taxonomy.taxonomy_depth, w, P)
                rec['sim'] = {}
                for sr in (False, True):
                    rows = []
                    for a in range(1, n + 1):
                        for b in range(1, n + 1):
                            row = {}
                            for name in ('path', 'wup'):
                                r_ = call(getattr(wn.similarity, name), ss[a], ss[b], simulate_root=sr)
                                row[name] = [r_[0], fl(r_[1])]
                            r_ = call(wn.similarity.lch, ss[a], ss[b], g.get('lch_depth', 3), simulate_root=sr)
                            row['lch'] = [r_[0], fl(r_[1])]
                            rows.append(row)
                    rec['sim'][str(int(sr))] = rows
                if g.get('ic'):
                    freq = {p: {(None if k == '' else ('%s-%s' % (lid, k))): float.fromhex(v) if isinstance(v, str) else float(v)
                                for k, v in d.items()} for p, d in g['ic'].items()}
                    rows = []
                    for a in range(1, n + 1):
                        for b in range(1, n + 1):
                            row = {}
                            for name in ('res', 'jcn', 'lin'):
                                r_ = call(getattr(wn.similarity, name), ss[a], ss[b], freq)
                                row[name] = [r_[0], fl(r_[1])]
                            rows.append(row)
                    rec['simic'] = rows
                    rec['icvals'] = {}
                    for i in range(1, n + 1):
                        r2 = call(wn.ic.information_content, ss[i], freq)
                        rec['icvals'][i] = [r2[0], fl(r2[1])]
            if 'ic' in want:
                rec['ic'] = []
                for job in g.get('ic_jobs', []):
                    r_ = call(wn.ic.compute, job['corpus'], w, distribute_weight=job['distribute'],
                              smoothing=job['smoothing'])
                    if r_[0] == 'ok':
                        fr = r_[1]
                        conv = {p: {('' if k is None else k.rsplit('-', 1)[1]): fl(v) for k, v in d.items()}
                                for p, d in fr.items()}
                        synres = {tok: [idx(x) for x in w.synsets(tok)] for tok in sorted(set(job['corpus']))}
                        icv = {}
                        for i in range(1, n + 1):
                            r2 = call(wn.ic.information_content, ss[i], fr)
                            icv[i] = [r2[0], fl(r2[1])]
                        rec['ic'].append(['ok', conv, synres, list(fr), icv])
                    else:
                        rec['ic'].append(r_)
            if 'ic' in want and g.get('ic_load'):
                import os, tempfile
                fd, pth = tempfile.mkstemp(dir='/dev/shm', suffix='.dat')
                with os.fdopen(fd, 'w') as fh:
                    fh.write(g['ic_load'])
                r_ = call(wn.ic.load, pth, w, get_synset_id=lambda offset, pos, _l=lid: '%s-%d' % (_l, offset))
                os.unlink(pth)
                if r_[0] == 'ok':
                    rec['ic_load'] = ['ok', {p: {('' if k is None else k.rsplit('-', 1)[1]): fl(v) for k, v in d.items()}
                                             for p, d in r_[1].items()}]
                else:
                    rec['ic_load'] = r_
            out.append(rec)
json.dump(out, sys.stdout)
