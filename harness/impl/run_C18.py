"""C18 implementation runner: validate() on in-memory lexicons with injected faults,
and whether add_lexical_resource() accepts each lexicon."""
import copy
import io
import contextlib
import json
import sys
import iutil
import wn
from wn import validate as V

iutil.assert_repo()
payload = iutil.load_payload()
out = []
FIELDS = {'count': 1, 'entry': 2, 'synset': 3, 'ili': 4, 'type': 5, 'target': 6, 'dc:type': 7, 'ili_definitin': 8}

for case in payload['cases']:
    lex = case['lex']
    rec = {'reports': [], 'add': None}
    for select in case['selects']:
        try:
            with contextlib.redirect_stdout(io.StringIO()):
                rep = V.validate(copy.deepcopy(lex), select=select, progress_handler=None)
            r = []
            for code, body in rep.items():
                its = []
                for key, ctx in body['items'].items():
                    c = []
                    for f, v in ctx.items():
                        c.append([FIELDS.get(f, 99), v if isinstance(v, (int, str)) else 1])
                    its.append([key, c])
                r.append([code, body['message'], its])
            rec['reports'].append(['ok', r])
        except Exception as e:
            rec['reports'].append(['err', iutil.errname(e), str(e)[:200]])
    if case.get('try_add'):
        with iutil.FreshDB():
            try:
                wn.add_lexical_resource({'lmf_version': '1.3', 'lexicons': [copy.deepcopy(lex)]},
                                        progress_handler=None)
                rec['add'] = ['ok', len(wn.lexicons())]
            except Exception as e:
                rec['add'] = ['err', iutil.errname(e)]
    out.append(rec)
json.dump(out, sys.stdout)
