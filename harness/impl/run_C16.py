"""C16: a transcript of (nearly) every public read-only call on a fixed database, computed twice in
this process; the caller runs this under several PYTHONHASHSEED values and compares the bytes."""
import copy
import hashlib
import io
import contextlib
import json
import os
import sys
import tempfile
import iutil
import battery
import lmfgen
import wn
import wn.taxonomy
import wn.similarity
import wn.ic
from wn import lmf, validate

iutil.assert_repo()
payload = iutil.load_payload()


def fl(x):
    return x.hex() if isinstance(x, float) else x


def call(f, *a, **kw):
    try:
        return ['ok', f(*a, **kw)]
    except wn.Error:
        return ['err', 'WnError']
    except Exception as e:
        return ['err', type(e).__name__]


def ic_jobs(case, reverse):
    # information content through Wordnets that differ only in their expand lexicons: a call must not
    # influence a later one (order of the calls is varied between the two passes)
    jobs = []
    for spec_, exp in case.get('ic_configs', []):
        jobs.append((spec_, exp))
    if reverse:
        jobs = list(reversed(jobs))
    res = {}
    for spec_, exp in jobs:
        w = wn.Wordnet(spec_, expand=exp)
        r = call(wn.ic.compute, case['ic_corpus'], w)
        res['%s|%s' % (spec_, exp)] = [[p, [[k, fl(v)] for k, v in d.items()]] for p, d in r[1].items()] if r[0] == 'ok' else r
        hy = {}
        for y in w.synsets():
            hy[y.id] = [x.id for x in y.hypernyms()]
        res['hyp|%s|%s' % (spec_, exp)] = hy
    return [[k, res[k]] for k in sorted(res)]


def transcript(case, work, reverse=False):
    t = {}
    t['lexicons'] = battery.lexicon_rows()
    cfgs = list(enumerate(case['configs']))
    if reverse:
        cfgs = list(reversed(cfgs))
    obs = {}
    for i, cfg in cfgs:
        obs[i] = battery.observe(cfg, deep=True, translate_to=case.get('translate_to'), searches=case.get('searches'))
    t['obs'] = [obs[i] for i in range(len(case['configs']))]
    t['ic_by_config'] = ic_jobs(case, reverse)
    # taxonomy / similarity / information content on the graph lexicon
    g = case.get('graph')
    if g:
        w = wn.Wordnet(g['spec'], expand='')
        ss = w.synsets()
        tx = {'roots': [s.id for s in wn.taxonomy.roots(w, 'n')], 'leaves': [s.id for s in wn.taxonomy.leaves(w, 'n')],
              'depth': call(wn.taxonomy.taxonomy_depth, w, 'n'), 'pairs': []}
        freq = wn.ic.compute(g['corpus'], w)
        tx['ic_keys'] = [[p, [[k, fl(v)] for k, v in d.items()]] for p, d in freq.items()]
        for a in ss:
            tx['pairs'].append([a.id, [[p.id for p in path] for path in a.hypernym_paths()]])
            for b in ss:
                row = [a.id, b.id]
                for sr in (False, True):
                    r = call(a.shortest_path, b, simulate_root=sr)
                    row.append([r[0], [x.id for x in r[1]] if r[0] == 'ok' else r[1]])
                    row.append([x.id for x in a.common_hypernyms(b, simulate_root=sr)])
                    row.append([x.id for x in a.lowest_common_hypernyms(b, simulate_root=sr)])
                    for name in ('path', 'wup'):
                        r = call(getattr(wn.similarity, name), a, b, simulate_root=sr)
                        row.append([r[0], fl(r[1])])
                    r = call(wn.similarity.lch, a, b, 5, simulate_root=sr)
                    row.append([r[0], fl(r[1])])
                for name in ('res', 'jcn', 'lin'):
                    r = call(getattr(wn.similarity, name), a, b, freq)
                    row.append([r[0], fl(r[1])])
                tx['pairs'].append(row)
        t['taxonomy'] = tx
    # validation reports (keys and item order)
    t['validate'] = []
    for lexd in case.get('validate', []):
        with contextlib.redirect_stdout(io.StringIO()):
            rep = validate.validate(copy.deepcopy(lexd), progress_handler=None)
        t['validate'].append([[code, list(body['items'].items())] for code, body in rep.items()])
    # dump and export bytes
    t['dump'] = []
    for res in case.get('dump', []):
        p = os.path.join(work, 'd.xml')
        lmf.dump(copy.deepcopy(res), p)
        t['dump'].append(hashlib.sha256(open(p, 'rb').read()).hexdigest())
    t['export'] = []
    for spec_, v in case.get('export', []):
        p = os.path.join(work, 'e.xml')
        r = call(wn.export, [wn.lexicons(lexicon=spec_)[0]], p, version=v)
        t['export'].append([spec_, v, r[0], hashlib.sha256(open(p, 'rb').read()).hexdigest() if r[0] == 'ok' else r[1],
                            open(p, encoding='utf-8').read() if r[0] == 'ok' else None])
    return t


out = []
for case in payload['cases']:
    work = tempfile.mkdtemp(prefix='wnverif-c16-', dir='/dev/shm')
    try:
        with iutil.FreshDB() as db:
            for name, res in case['resources']:
                battery.add_resource(db, name, res, None)
            before = battery.dump_tables()
            rf = bool(payload.get('reverse_first'))
            t1 = json.dumps(transcript(case, work, reverse=rf), sort_keys=False, default=str)
            t2 = json.dumps(transcript(case, work, reverse=not rf), sort_keys=False, default=str)
            after = battery.dump_tables()
            rec = {'transcript': t1, 'repeat_equal': t1 == t2, 'db_unchanged': before == after,
                   'sha': hashlib.sha256(t1.encode()).hexdigest()}
            # the same database with a schema this version does not know (an extra index): every call must be refused,
            # the first time and every later time (a call that fails must not change what later calls do)
            import shutil
            import sqlite3
            alt = os.path.join(work, 'altered')
            os.makedirs(alt)
            wn._db.connect().commit()
            iutil.close_pool()
            shutil.copy(str(wn.config.database_path), os.path.join(alt, 'wn.db'))
            con = sqlite3.connect(os.path.join(alt, 'wn.db'))
            con.execute('CREATE INDEX verif_extra_index ON forms (script)')
            con.commit()
            con.close()
            old_dir = wn.config.data_directory
            wn.config.data_directory = alt
            rounds = []
            for _ in range(3):
                r1 = call(wn.synsets)
                r2 = call(lambda: [lx.specifier() for lx in wn.lexicons()])
                r3 = call(wn.words)
                rounds.append([[r1[0], r1[1] if r1[0] != 'ok' else len(r1[1])], r2, [r3[0], r3[1] if r3[0] != 'ok' else len(r3[1])]])
            rec['altered_schema_rounds'] = rounds
            iutil.close_pool()
            wn.config.data_directory = old_dir
            out.append(rec)
    finally:
        import shutil
        shutil.rmtree(work, ignore_errors=True)
json.dump(out, sys.stdout)
