"""Rowid-free canonical form of battery.observe() output, for comparing two databases."""


def canon_obs(ob, lexrows):
    if ob['ctor'][0] != 'ok':
        return {'ctor': ob['ctor']}
    spec = {r['rowid']: '%s:%s' % (r['id'], r['version']) for r in lexrows}
    wid = {w['ref'][1]: [spec.get(w['lex']), w['id']] for w in ob['words']}
    sid = {s['ref'][1]: [spec.get(s['lex']), s['id']] for s in ob['senses']}
    yid = {y['ref'][1]: [spec.get(y['lex']), y['id']] for y in ob['synsets']}

    def R(x):
        if x is None:
            return None
        if x[0] == 'W':
            return ['W'] + wid.get(x[1], ['?', x[1]])
        if x[0] == 'S':
            return ['S'] + sid.get(x[1], ['?', x[1]])
        if x[0] == 'Y':
            return ['Y', spec.get(x[3], '?' if x[1] else None), x[4], x[2]]
        if x[0] == 'I':
            return x
        return x

    def RR(r):
        if r[0] != 'ok':
            return r
        v = r[1]
        if isinstance(v, list) and v and isinstance(v[0], list) and v[0] and v[0][0] in ('W', 'S', 'Y', 'I'):
            return ['ok', [R(x) for x in v]]
        if isinstance(v, list) and v and v[0] in ('W', 'S', 'Y', 'I') and not isinstance(v[0], list):
            return ['ok', R(v)]
        return r

    out = {'lexicons': sorted(spec.get(i) for i in ob['lexicons']), 'expanded': sorted(spec.get(i) for i in ob['expanded']),
           'warnings': bool(ob['warnings']), 'words': {}, 'senses': {}, 'synsets': {}}
    for w in ob['words']:
        k = '%s|%s' % (spec.get(w['lex']), w['id'])
        out['words'][k] = {'pos': w['pos'], 'lemma': w['lemma'],
                           'forms': [[f[0], f[1], f[2], f[4], f[5]] for f in w['forms']],
                           'senses': RR(w['senses']), 'synsets': RR(w['synsets']), 'meta': w['meta'],
                           'derived': RR(w['derived']) if 'derived' in w else None}
    for s in ob['senses']:
        k = '%s|%s' % (spec.get(s['lex']), s['id'])
        d = {'word': RR(s['word']), 'synset': RR(s['synset']), 'examples': s['examples'],
             'lexicalized': s['lexicalized'], 'adjposition': s['adjposition'], 'frames': sorted(s['frames']),
             'counts': s['counts'], 'meta': s['meta']}
        if 'relmap' in s:
            d['relmap'] = s['relmap'] if s['relmap'][0] != 'ok' else sorted(
                [[n, a, b, lx, sub, m, R(t)] for n, a, b, lx, sub, m, t in s['relmap'][1]], key=str)
            d['closure'] = RR(s['closure']) if s['closure'][0] != 'ok' else sorted(map(str, RR(s['closure'])[1]))
        out['senses'][k] = d
    for y in ob['synsets']:
        k = '%s|%s' % (spec.get(y['lex']), y['id'])
        d = {'pos': y['pos'], 'ili': y['ili'], 'definition': y['definition'], 'examples': y['examples'],
             'senses': RR(y['senses']), 'lexicalized': y['lexicalized'], 'lexfile': y['lexfile'], 'meta': y['meta'],
             'words': RR(y['words']), 'lemmas': y['lemmas']}
        if 'relmap' in y:
            d['relmap'] = y['relmap'] if y['relmap'][0] != 'ok' else sorted(
                [[n, a, b, lx, sub, m, R(t)] for n, a, b, lx, sub, m, t in y['relmap'][1]], key=str)
            d['closure'] = RR(y['closure']) if y['closure'][0] != 'ok' else sorted(map(str, RR(y['closure'])[1]))
            d['hypernyms'] = RR(y['hypernyms'])
        out['synsets'][k] = d
    return out


def canon_lexrows(lexrows):
    spec = {r['rowid']: '%s:%s' % (r['id'], r['version']) for r in lexrows}
    out = {}
    for r in lexrows:
        out[spec[r['rowid']]] = {k: r[k] for k in ('label', 'language', 'email', 'license', 'url', 'citation', 'logo', 'meta')}
        out[spec[r['rowid']]]['requires'] = sorted([k, spec.get(v)] for k, v in r['requires'])
        out[spec[r['rowid']]]['extends'] = spec.get(r['extends'])
        out[spec[r['rowid']]]['extensions'] = sorted(spec.get(x) for x in r['extensions'])
        out[spec[r['rowid']]]['extensions_all'] = sorted(spec.get(x) for x in r['extensions_all'])
    return out


def diff(a, b, path=''):
    """first difference between two canonical structures, or None"""
    if type(a) != type(b):
        return '%s: %r vs %r' % (path, a, b)
    if isinstance(a, dict):
        for k in sorted(set(a) | set(b), key=str):
            if k not in a or k not in b:
                return '%s.%s: only on the %s side' % (path, k, 'left' if k in a else 'right')
            d = diff(a[k], b[k], '%s.%s' % (path, k))
            if d:
                return d
        return None
    if isinstance(a, list):
        if len(a) != len(b):
            return '%s: %r vs %r' % (path, a, b)
        for i, (x, y) in enumerate(zip(a, b)):
            d = diff(x, y, '%s[%d]' % (path, i))
            if d:
                return d
        return None
    return None if a == b else '%s: %r vs %r' % (path, a, b)
