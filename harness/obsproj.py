"""Canonical projection of battery.observe() output (and of the database dump and the
Wordnet configuration) onto the wire format of Model/Core.v's [run_core].

NORMATIVE for the Coq model: run_core (L [db; config]) must return exactly the value
project_obs() builds from the implementation's observation (compared with Sx.sx_agree:
collections wrapped by MS() are compared as multisets).

Encoding conventions (Python value -> sx via common.sx): int -> A n, str -> Sz [...],
bool -> A 0/1, list -> L [...].  OPT(x): None -> L [] ; value -> L [x].
"""


def OPT(x):
    return [] if x is None else [x]


def MS(items):
    return [-7, list(items)]


def RES(r, f=lambda v: v):
    """['ok', v] -> f(v);  ['err', 'WnError'] -> -1;  any other error -> -4"""
    if r[0] == 'ok':
        return f(r[1])
    return -1 if r[1] == 'WnError' else -4


def REF(x):
    """entity reference: Word ['W', rowid] -> [1, rowid]; Sense -> [2, rowid];
    Synset ['Y', rowid, ili, lexid, id] -> [3, rowid, OPT(ili), lexid, id]  (an inferred placeholder has rowid 0)"""
    if x[0] == 'W':
        return [1, x[1]]
    if x[0] == 'S':
        return [2, x[1]]
    if x[0] == 'Y':
        return [3, x[1], OPT(x[2]), x[3], x[4]]
    if x[0] == 'I':
        return [4, OPT(x[1]), x[2], OPT(x[3])]
    raise ValueError(x)


def REFS(r):
    return RES(r, lambda v: [REF(x) for x in v])


def REFSET(r):
    return RES(r, lambda v: MS([REF(x) for x in v]))


def REF1(r):
    return RES(r, REF)


# ------------------------------------------------------------------ database
def cell(v):
    if v is None:
        return [0]
    if isinstance(v, bool):
        return [1, int(v)]
    if isinstance(v, int):
        return [1, v]
    return [2, str(v)]


def project_db(tables):
    """tables: {name: [[rowid, col...], ...]} (battery.dump_tables) -> L [ L [name; L rows] ]
    with every cell tagged: [0] NULL, [1, n] integer, [2, str] text (metadata = its JSON text)."""
    return [[name, [[cell(v) for v in row] for row in rows]] for name, rows in tables.items()]


# ------------------------------------------------------------------ configuration
def project_cfg(cfg, norm_table):
    """L [lexicon OPT; lang OPT; expand: 0 = default | [str]; normalizer 0/1; search_all_forms 0/1;
          lemmatizer: 0 = none | L [ L [form; L [ L [pos OPT; L forms] ]] ];
          norm table L [ L [s; normalize_form(s)] ]  (covers every string the model may have to normalise)]"""
    lem = cfg.get('lemmatizer')
    if isinstance(lem, dict):
        lemx = [[form, [[OPT(None if p == '' else p), sorted(fs)] for p, fs in d.items()]] for form, d in lem.items()]
    else:
        lemx = 0
    exp = cfg.get('expand', 'default')
    return [OPT(cfg.get('lexicon')), OPT(cfg.get('lang')), 0 if exp == 'default' else [exp],
            bool(cfg.get('normalizer', True)), bool(cfg.get('search_all_forms', True)), lemx,
            [[a, b] for a, b in norm_table]]


# ------------------------------------------------------------------ observation
def project_meta(m):
    """metadata is compared through its JSON text in the database dump only; the API value is not projected"""
    return 0


def project_form(f):
    form, fid, script, rowid, tags, prons = f
    return [form, OPT(fid), OPT(script), rowid, [[t, c] for t, c in tags],
            [[v, OPT(va), OPT(no), bool(ph), OPT(au)] for v, va, no, ph, au in prons]]


def project_word(w):
    return [REF(w['ref']), w['id'], w['pos'], w['lex'], [project_form(f) for f in w['forms']],
            REFS(w['senses']), REFS(w['synsets']), REFS(w['derived'])]


def project_relmap(r):
    # one entry per distinct Relation (name, source id, target id, lexicon specifier, dc:type) -> target
    return RES(r, lambda v: MS([[name, src, tgt, lexspec, OPT(sub), REF(t)] for name, src, tgt, lexspec, sub, _m, t in v]))


def project_reldict(r):
    return RES(r, lambda v: MS([[k, MS([REF(t) for t in ts])] for k, ts in v]))


def project_sense(s):
    return [REF(s['ref']), s['id'], s['lex'], REF1(s['word']), REF1(s['synset']),
            s['examples'], bool(s['lexicalized']), OPT(s['adjposition']), MS(s['frames']),
            [c for c, _m in s['counts']],
            project_relmap(s['relmap']),
            [[a, REFSET(r)] for a, r in s['rels']],
            project_reldict(s['reldict']),
            [[a, REFSET(r)] for a, r in s['relsyn']],
            REFSET(s['closure']),
            RES(s['paths'], lambda v: MS([[REF(t) for t in p] for p in v]))]


def project_synset(y):
    return [REF(y['ref']), y['id'], y['pos'], y['lex'], RES(y['ili'], lambda v: OPT(None if v is None else REF(v))),
            OPT(y['definition']), y['examples'], REFS(y['senses']), bool(y['lexicalized']), OPT(y['lexfile']),
            REFS(y['words']), RES(y['lemmas']),
            project_relmap(y['relmap']),
            [[a, REFS(r)] for a, r in y['rels']],
            project_reldict(y['reldict']),
            REFS(y['hypernyms']), REFS(y['hyponyms']),
            REFSET(y['closure']),
            RES(y['paths'], lambda v: MS([[REF(t) for t in p] for p in v]))]


def project_obs(o):
    """L [ctor; L lexicon rowids; L expand rowids; default_mode; warned 0/1;
          L words; L senses; L synsets; ilis; L [status; ilis]; L searches; L translations]"""
    if o['ctor'][0] != 'ok':
        return [RES(o['ctor'])]
    out = [1, o['lexicons'], o['expanded'], bool(o['default_mode']), bool(o['warnings']),
           MS([project_word(w) for w in o['words']]),
           MS([project_sense(s) for s in o['senses']]),
           MS([project_synset(y) for y in o['synsets']]),
           REFSET(o['ilis']),
           [[st, REFSET(r)] for st, r in o['ilis_by_status']]]
    out.append([[form, OPT(pos), REFS(rw), REFS(rs), REFS(ry)] for form, pos, rw, rs, ry in o.get('searches', [])])
    tr = []
    for ref, tgt, r in o.get('translate_synsets', []):
        tr.append([REF(ref), OPT(tgt.get('lexicon')), OPT(tgt.get('lang')), REFS(r)])
    for ref, tgt, r in o.get('translate_senses', []):
        tr.append([REF(ref), OPT(tgt.get('lexicon')), OPT(tgt.get('lang')), REFS(r)])
    for ref, tgt, r in o.get('translate_words', []):
        tr.append([REF(ref), OPT(tgt.get('lexicon')), OPT(tgt.get('lang')),
                   RES(r, lambda v: [[REF(k), [REF(t) for t in ts]] for k, ts in v])])
    out.append(tr)
    return out
