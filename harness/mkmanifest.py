"""Writes MANIFEST.json from the table below (kept valid at all times)."""
import json, os
VERIF = os.path.dirname(os.path.dirname(os.path.abspath(__file__)))
PROPS = [json.loads(l) for l in open(os.path.join(VERIF, 'properties.jsonl'))]

# pid -> (technique, level text, level note, design ref)
CLAIMED = {
 'C06': ('Coq proof of atomicity over a model of the sqlite3 connection\'s `with conn:` transaction behaviour, tied to the code by '
         'the statement trace of every clean run (one BEGIN..COMMIT per add, one per removed lexicon); exhaustive fault '
         'enumeration on the real code as the failing-input search',
         'Theorems (closed under the global context): an exception at any point of a block commits nothing, leaves no '
         'transaction open and the connection reusable; for every statement sequence and every failure point k the committed '
         'database is unchanged; a failing statement has the same effect; an interrupted removal leaves exactly a prefix of '
         'the per-lexicon blocks applied, each complete. From the add model (whose result type carries no database on failure): a '
         'sense naming an undeclared synset, a relation with an unknown target and a duplicate entry id each make the add fail, and a '
         'fault in any lexicon of a resource fails the whole call; duplicate synset/sense ids are NOT rejected (no UNIQUE index: '
         'witnesses). What the theorems cannot show (that the code really wraps all '
         'statements of one add in one block, SQLite\'s rollback, the pooled connection) is covered by the trace tie and by '
         'raising at every progress callback, denying every INSERT/UPDATE/DELETE in turn and corrupting single references.',
         'Trusted: Coq kernel + vm_compute; SQLite rollback and Python sqlite3 transaction handling (modelled by Txn.v, '
         'validated by trace shape and fault enumeration); PRAGMA synchronous/journal_mode (crash safety is outside the property).',
         'DESIGN.md section 5, C06'),
 'C07': ('Coq proof over a Gallina model of wn.project.iterpackages on an abstract file tree with ideal codecs (gzip/xz/tar as '
         'constructors); differential correspondence on generated trees built as real files; route equivalence on the real code '
         'by comparing canonical database content',
         'Partial. Theorems (closed under the global context): every route of the property (plain file, .gz, .xz, package directory '
         'with extra files, tar/tar.gz/tar.xz of the file or the package, tar of the gzipped file) yields exactly the one resource; '
         'an archive behaves as its single member and is rejected otherwise; a collection yields the packages of its package '
         'directories; something that is neither WN-LMF nor an ILI file is rejected; over the model of add_lexical_resource '
         '(Model/Add.v, tied to the code by the table-level correspondence of the C01/C05/C19 checks): adding lexicons that '
         'are all installed changes nothing, an extension whose base is missing is skipped as a whole, and what is skipped '
         'depends only on (id, version, extends). Decompression, tar extraction, temporary files, listing order and "the '
         'input is not modified" (no Gallina counterpart: values are immutable) are runtime behaviour decided by the harness '
         '(file hashes, deep copies, canonical content per route, base-then-extension sequences).',
         'Trusted: Coq kernel + vm_compute; gzip/xz/tar codecs and the file system (ideal in the model); lmf header check is a '
         'parameter of the model (its own model is Model/Lmf.v read_header).',
         'DESIGN.md section 5, C07'),
 'C08': ('Coq proof over a Gallina model of find_lexicons (glob matcher for * and ?, specifier splitting, most-recent rule, '
         'language filter) against an independently written "documented selection"; differential correspondence on databases '
         'built by add/remove histories',
         'Theorems (closed under the global context): the matcher is string equality on literal patterns and decides id:*, '
         '*:version, id:version exactly; every non-bare specifier selects exactly the documented lexicons (as sets) and a list '
         'selects the union; a bare id selects exactly the most recently added lexicon with that id (last row); nothing '
         'unmatched is ever selected; wn.Error iff nothing matches (except bare *), wn.lexicons() then returns []. Assumes ids '
         'and versions contain no colon and no glob metacharacter (ids_plain). Character classes follow SQLite (members, ^ inversion, '
         'ranges, unterminated class matches nothing; two naive readings refuted by witnesses) and patterns without [ reduce to the * / ? fragment.',
         'Trusted: Coq kernel + vm_compute; SQLite GLOB as transcribed from sqlite3 patternCompare (validated against SQLite 3.40 on 1.26 million pairs incl. an exhaustive sweep; the oracle matcher is re-checked against SQLite on every run), rowid order '
         '= insertion order, str.split(); correspondence harness.',
         'DESIGN.md section 5, C08'),
 'C14': ('Coq proof over a Gallina model of wn.similarity in two layers (natural-number/synset "parts" + the documented formula '
         'over Q); float layer in Coq primitive floats for bit-exact differential correspondence',
         'Theorems (closed under the global context): path in [0,1], 1 iff identical, 0 iff unconnected, symmetric; wup parts '
         'are (i,j,k) of a lowest common hypernym, value in (0,1], 1 for identical synsets, symmetric; lch parts, symmetry and no '
         'pair above self (argument of the antitone -log); res = maximum IC over common subsumers, symmetric; jcn/lin use the '
         'lowest common hypernym of highest weight and are symmetric; incompatible parts of speech and missing common hypernyms '
         'raise wn.Error. The special cases of jcn/lin and the float formulas themselves are decided by correspondence + oracle.',
         'Trusted: Coq kernel + vm_compute + primitive floats (correspondence only); math.log not modelled (IC values are an input '
         'table); comparison on floats assumed a strict total order on the values that occur; correspondence harness.',
         'DESIGN.md section 5, C14'),
 'C13': ('Coq proof over a Gallina model of relation_paths / wn.taxonomy on an abstract hypernym graph (unbounded size, cycles '
         'and self-loops included); model tied to the code by differential correspondence on every digraph up to the node bound',
         'Theorems (closed under the global context): hypernym_paths = exactly the maximal simple chains, each once; termination '
         'with fuel |V|+2 on every finite graph; min/max depth; common_hypernyms = intersection of ancestor sets; shortest_path is a '
         'genuine undirected hypernym path of length min_c dist(a,c)+dist(b,c), symmetric, wn.Error iff nothing shared, always '
         'connected with simulate_root; lowest_common_hypernyms symmetric and sorted. Partial: "greatest depth" and taxonomy_depth '
         'are proved for acyclic graphs only (cyclic taxonomy_depth is refuted: known finding F12). roots/leaves are exactly the '
         'synsets without hypernyms/hyponyms (order and multiplicity kept); simulate_root appends the root to every path on every '
         'graph and, on acyclic graphs, equals computing in the graph with one node added above all roots (refuted for cyclic '
         'graphs by a witness); with it shortest_path is never an error and minimal over the extended common hypernyms. The agenda '
         'loops of the code refine the recursive model.',
         'Trusted: Coq kernel + vm_compute; the recursive model of the agenda loop (validated exhaustively on all digraphs with '
         '<= 3 (quick) / 4 (thorough) nodes); synset.hypernyms() is the model input; correspondence harness.',
         'DESIGN.md section 5, C13'),
 'C15': ('Coq proof over a Gallina model of wn.ic.compute (rational weights, addition log); differential correspondence on '
         'generated graphs x corpora with exactly representable weights',
         'Theorems (closed under the global context): the agenda loop credits exactly the word synset and its ancestors, once each, '
         'and terminates on cyclic graphs; closed forms of every synset weight and class total (conservation, unknown words '
         'ignored; with distributed weights and one class, total = smoothing + sum of the counts; corpus order irrelevant); monotone up the taxonomy; the root of a single-rooted class weighs the class total (probability 1, information content 0); probability in (0,1]; information content non-negative and antitone for any '
         'antitone -log; ic.load: a synset gets the weight of the last line naming it (0 when none), a class total is the sum of its '
         'ROOT lines (model load_entry, tied to wn.ic.load by the run_load correspondence). The satellite-adjective folding and '
         'the tokenisation of weight-file lines are decided by the oracle on the implementation.',
         'Trusted: Coq kernel + vm_compute; floats modelled as exact rationals (generator restricted to exactly representable '
         'sums, checked with Fraction); math.log abstract; wordnet.synsets(word) is a model input checked by the oracle.',
         'DESIGN.md section 5, C15'),
 'C18': ('Coq proof over a Gallina model of wn.validate (Counter/dict semantics, the eighteen checks, _select_checks), with the '
         'check table and relation inventories regenerated from the source; differential correspondence on fault-injected '
         'lexicons',
         'Theorems (closed under the global context): validate never raises and returns exactly the selected codes in table order, '
         'each bound to its check; for each of the 18 codes the reported keys are exactly the entities satisfying the documented '
         'condition stated declaratively (occurrence counts, dangling references, reverse relations, ...); E101 also with its '
         'exact count context; reported contexts always come from a real entity; the reverse-relation table is an involution. '
         'That E204/E401 lexicons are rejected by add is decided by the oracle on the implementation.',
         'Trusted: Coq kernel + vm_compute; translator of _codes / relation tables; Counter, dict and str.strip semantics '
         'modelled; correspondence harness.',
         'DESIGN.md section 5, C18'),
 'C16': ('Coq theorems that the model functions tied to the code by C13/C14 are order-free (sorted results, symmetric choices); '
         'the runtime part — hash randomisation, repeated calls, read-only calls not influencing later calls — is decided by '
         'running the whole API battery in separate processes under different PYTHONHASHSEED values, with the call order '
         'reversed in every other process and within each process, and comparing transcripts byte for byte',
         'Partial by nature: Gallina functions are deterministic, so the theorems cover what hash-order independence means at the '
         'model level: the taxonomy functions depend on the hypernym relation as a set, not on its listing order — same set of '
         'hypernym paths, and equal min/max depth, common_hypernyms and lowest_common_hypernyms (as lists, sorted), shortest-path '
         'length, taxonomy_depth and roots; only the node list of shortest_path can differ, and only in the choice among equally '
         'short chains to the same turning point (witness; listing order is database content, not hash order). Hash-seed independence of every public result (queries, navigation, relations, closures, searches, '
         'translations, taxonomy, similarity, IC incl. key order, validate item order, dump and export bytes) and purity of '
         'read-only calls are established by differential execution only.',
         'Trusted: Coq kernel; the battery covers the calls listed in the evidence; processes and seeds explored are listed in '
         'the evidence.',
         'DESIGN.md section 5, C16'),
 'C17': ('Coq proof over a Gallina model of Morphy using the rule table regenerated from wn/morphy.py; '
         'model tied to the code by differential correspondence (vm_compute) on generated lexicons/queries',
         'Theorems (closed under the global context) characterise Morphy.__call__ exactly for every rule table, word '
         'inventory, form and pos: initialized => only lemmas of the part of speech, and always the query itself / '
         'exceptional-form lemmas / rule outputs that are lemmas; uninitialized => exactly original + every rule output; '
         'a rule applies iff form = pre ++ suffix with pre non-empty (no full suppletion); a/s share rules; the PWN rules '
         'are in today\'s table. The union-over-proposals clause for Wordnet searches is decided by the direct oracle on '
         'the implementation (its Coq statement lives with C09\'s search model).',
         'Trusted: Coq kernel + vm_compute; translator of DETACHMENT_RULES/PARTS_OF_SPEECH; the correspondence harness; '
         'CPython string/dict/set semantics are modelled, not verified.',
         'DESIGN.md section 5, C17'),
}

CORE_TRUST = ('Trusted: Coq kernel + vm_compute; SQLite semantics as modelled in Model/Tables.v and Model/Query.v (scan orders, '
              'DISTINCT, ORDER BY stability, GLOB-free queries), validated on every run by differential correspondence of the whole '
              'observation battery (wn.add-built databases and table-level adversarial databases); the normalizer is a table of the '
              'strings that occur; Morphy is excluded from the query-layer correspondence (own model, C17); correspondence harness '
              'and document-level oracles (Python).')
CLAIMED.update({
 'C04': ('Coq proof over a Gallina model of the query layer (Model/Tables.v, Model/Query.v, Model/Core.v: Wordnet construction, '
         'primary queries, navigation, relations, expansion) written from wn/_queries.py and wn/_core.py; model tied to the code by '
         'differential correspondence of a full observation battery on generated multi-lexicon databases; a document-level '
         'oracle evaluates the property on the real code',
         'Theorems (closed under the global context): every primary query of a Wordnet returns only entities of its selected '
         'lexicons, bound to that Wordnet; every navigation and relation step from an entity stays in the scope of its receiver '
         '(selection when restricted; own lexicon, its extension bases and extensions in default mode), expanded relation targets '
         'are in scope or inferred placeholders; frame: each lexicon-restricted query returns the same rows on two databases that '
         'agree on the rows of the selected lexicons and the rows they point to — including, since the repair of F22 (found by '
         'this check\'s seeding round and fixed), synsets(form): as a set under the same agreement, as a list when the relevant '
         'form rows also come in the same order (with an example that the order matters). Holds for databases satisfying db_ok (unique '
         'rowids, no lexicon rowid 0, senses resolve), shown to hold on real dumps. Forms/tags/pronunciations contributed by '
         'extensions are outside the theorems: known findings F14, F3 (decided by the oracle with signatures); F14 is also '
         'stated as a machine-checked witness (two databases agreeing on every row of the selected lexicon on which the form '
         'search differs; the frame hypothesis it violates is exactly agree_sense_forms).',
         CORE_TRUST, 'DESIGN.md section 5 C04, Appendix E'),
 'C09': ('Coq proof over the Gallina model of Wordnet.words/senses/synsets (_find_helper, find_entries/find_senses/find_synsets) '
         'written from wn/_core.py and wn/_queries.py; differential correspondence of search batteries (lemmatizer tables with '
         'several pos buckets, normalizer on/off, search_all_forms on/off); document-level oracle on the real code',
         'Theorems (closed under the global context): the search is exactly "exact pass over every lemmatizer bucket, then, only if '
         'that found nothing and a normalizer is set, one normalized pass", de-duplicated in first-occurrence order; the buckets are '
         'the lemmatizer\'s proposals filtered by pos, or the form itself; every result has a form row matching a candidate form '
         '(original or normalized column, lemma only when search_all_forms is off) with the requested pos inside the selection; '
         'one pass is complete for entries, senses and synsets with a matching form. The statement about an empty proposal set '
         '(no form restriction) is part of the theorem. For synsets the sense that links the form to the synset belongs to the '
         'selection (defect F22, found here and fixed). Extension-contributed forms: known finding F14 (with a machine-checked '
         'witness on a concrete pair of databases; lemma-only search does not leak).',
         CORE_TRUST, 'DESIGN.md section 5 C09, Appendix E'),
 'C10': ('Coq proof over the Gallina model of navigation (Sense.word/synset, Word.senses/synsets, Synset.senses/words/lemmas, '
         'translate, entity equality keys) written from wn/_core.py; differential correspondence of the observation battery incl. '
         'two-hop navigation and equality/hash of entities reached by different routes; document-level oracle on the real code',
         'Theorems (closed under the global context): a sense navigates to exactly the entry and synset its row points to (given '
         'the id is unique among the lexicons that can declare it and the entry has a form), and is listed among that word\'s / '
         'synset\'s senses; Word.senses/Synset.senses list exactly the sense rows in scope; composite navigation is the composition '
         'of single steps; equality keys are rowids (ILI+lexicon for placeholders); translate returns nothing without an ILI and '
         'otherwise exactly the target-lexicon synsets sharing the ILI (sound and complete: an iff on rowids), hence symmetrically: '
         'two synsets sharing an ILI translate to each other under selections containing the other\'s lexicon; all steps keep '
         'the Wordnet.',
         CORE_TRUST, 'DESIGN.md section 5 C10, Appendix E'),
 'C11': ('Coq proof over the Gallina model of relation queries, closure and relation_paths (wn/_core.py, wn/_queries.py) plus a '
         'refinement proof that the Python agenda loops (stack for relation_paths, queue for closure) compute the recursive '
         'definitions in the same order; differential correspondence on wn.add-built and table-level databases (duplicate '
         'relation rows, dc:type variants, cycles, self-loops, a corpus case that refuted an earlier fuel bound)',
         'Theorems (closed under the global context): a (relation, target) pair is reported exactly when a relation row of a '
         'requested type declared by an in-scope lexicon links source and an in-scope target; get_related/relations/relation_map are '
         'projections of those pairs; Relation equality includes dc:type; closure terminates within the model\'s fuel, repeats no '
         'identifier, lists only reachable entities and is exact when identifiers are unique; relation_paths terminates (fuel bound '
         'proved sufficient) and yields only non-extendable simple chains; the agenda loops refine the recursion and terminate on '
         'every finite graph.',
         CORE_TRUST, 'DESIGN.md section 5 C11, Appendix E'),
 'C12': ('Coq proof over the Gallina model of Wordnet construction (expand defaults from dependencies) and '
         'Synset._iter_expanded_relations written from wn/_core.py; differential correspondence on generated ILI-sharing lexicon '
         'families and table-level databases in expand mode; document-level oracle on the real code',
         'Theorems (closed under the global context): the expand set is the explicit argument or, by default for a restricted '
         'Wordnet, the installed dependencies of the selection (a warning exactly when one is missing), empty for "" ; with no '
         'expand lexicons or no ILI only local relations are returned; relations = local ++ expanded; an expanded relation exists '
         'exactly when a synset of an expand lexicon with the same ILI has it, its target mapped to the in-scope synsets sharing '
         'the target ILI or else one inferred placeholder. Proved as membership (order is decided by correspondence).',
         CORE_TRUST, 'DESIGN.md section 5 C12, Appendix E'),
})

CLAIMED.update({
 'C03': ('Coq proof over a Gallina model of wn._export (_export_lexicon and everything it calls, _precheck) written from '
         'wn/_export.py on top of the query model; tied to the code by differential correspondence of the exported dictionaries on '
         'generated databases (versions 1.0/1.1/1.3, databases holding extensions); the round trip itself (export, load, add to an '
         'empty database, compare observations and the loaded document) is decided on the real code by the oracle',
         'Partial. Theorems (closed under the global context) cover the export step: clashing identifier sets are refused exactly; '
         'every entry of the lexicon is exported once, in order, with id, pos, lemma (rank-0 form), forms in rank order and its senses '
         'in entry-rank order, every synset once; subcat (>= 1.1) lists exactly the linked behaviours that have an id and 1.0 frames '
         'list exactly the linked senses; the ili attribute is the ILI id / "in" for a proposed ILI / "" otherwise (under '
         'ili_ids_ok; refuted without it by a witness); members are the senses in synset-rank order; lexicon attributes, metadata '
         'and dependencies, forms with script/tags/pronunciations, sense and synset attributes, examples, counts, definitions, '
         'ILI definitions and the three kinds of relations are copied row by row from the rows the exported lexicon owns (exact '
         'selection stated; four naive readings refuted by witnesses). Not proved in Coq: the composition of export with dump '
         '(C02), load (C02) and add (C01) into "re-import gives the same database" — decided end to end by the round-trip oracle '
         'on the real code. Known finding F18 (frames without id).',
         'Trusted: Coq kernel + vm_compute; SQLite semantics as modelled in Model/Tables.v, Model/Query.v and the three extra queries '
         'in Model/Export.v (scan order of find_syntactic_behaviours checked against EXPLAIN QUERY PLAN by the model author, '
         'validated by correspondence); JSON metadata decoded by the harness (injective code in the model); correspondence harness '
         'and round-trip oracle (Python).',
         'DESIGN.md section 5 C03, Appendix E'),
})

ADD_TRUST = ('Trusted: Coq kernel + vm_compute; translator of wn/schema.sql (tables, columns, foreign keys and ON DELETE actions, '
             'unique indexes, via SQLite introspection) into Gen/Schema.v; SQLite semantics as modelled in Model/Rel.v (rowid '
             'allocation, INSERT OR IGNORE, upserts, cascades driven by the generated schema), validated on every run by '
             'comparing the complete table dump after every operation of generated histories with the model\'s tables, row for '
             'row; JSON metadata decoded by the harness; correspondence harness and history oracle (Python).')
CLAIMED.update({
 'C05': ('Coq proof over a Gallina model of wn._add (add_lexical_resource, remove, add of an ILI file) on a relational layer whose '
         'schema is regenerated from wn/schema.sql; model tied to the code by row-for-row comparison of all tables after every '
         'operation of generated add/remove/ILI histories; a history oracle on the real code compares the final database with a '
         'fresh database holding just the installed lexicons',
         'Theorems (closed under the global context): deleting any row under the schema\'s cascade rules never leaves a dangling '
         'reference; wn.remove deletes each selected lexicon with exactly its transitive extensions, leaves no row referring to a '
         'removed lexicon, leaves every row outside the cascade closure unchanged (up to the SET NULL columns = dependency links of '
         'other lexicons) and raises wn.Error when nothing matches; add keeps every existing row of every table in place (only '
         'pending dependency links may be resolved), keeps references valid, is a no-op for installed lexicons and for extensions '
         'whose base is missing, and what is skipped depends only on (id, version, extends); adding a new non-extension lexicon and '
         'then removing it restores every content table exactly (incl. the dependency links of other lexicons; only the shared '
         'lookup tables keep what was added), after which all hypotheses hold again and the lexicon is offered for adding again; '
         'the dependency links are resolved exactly at all times: the provider_rowid of every dependency row is the rowid of the '
         'installed lexicon with that id and version and NULL when there is none, an invariant preserved by every add (back-fill '
         'when the provider arrives later, resolution at insertion) and every remove (SET NULL / CASCADE), so it does not depend '
         'on the order of the history. Partial: "equals what adding just the '
         'installed lexicons to an empty database gives" is the composition of these facts with the content theorems of C01 and is '
         'decided as a whole by the history oracle; for specifier lists matching several lexicons exactness is proved per '
         'lexicon. Known finding F3 (tags/pronunciations of extensions survive removal: no owner column).',
         ADD_TRUST, 'DESIGN.md section 5 C05, Appendix E'),
 'C19': ('Coq proof over the Gallina model of wn._ili.load (text layer: universal newlines, line-end stripping, tab '
         'splitting; Model/IliFile.v) and wn._add._add_ili (status inventory, upsert of ILI rows) written from wn/_ili.py and '
         'wn/_add.py; tied to the code by row-for-row comparison of the tables after loading generated index files given to the '
         'model as raw text (several files, LF and CR LF line ends, missing final line end, definitions containing Unicode line separators, '
         'permuted orders, short rows, repeated ids, lexicons before and after); oracle on the real code',
         'Theorems (closed under the global context): loading an index touches no table but ilis and ili_statuses; a listed ILI '
         'ends with the status and definition of its last line (NULL when the field is missing), keeping rowid and metadata; '
         'unlisted ILIs are unchanged and new rows appear only for listed ids that were absent; loading the same index again '
         'is the identity on the database; statuses only grow by those of the file. Holds for ilis tables with distinct ids '
         '(ilis_ok, preserved by add_ili and shown on a model-built database). File recognition (is_ili, header variants) is '
         'proved with C07\'s project model. The synsets table, proposed ILIs and every content table are unchanged, and every ILI '
         'row a synset points to keeps its rowid, id and metadata (synset_keeps_ili). Text layer: rows written one per line '
         'with tab-separated fields are read back exactly, for LF, CR LF and CR line ends, whatever other code points the '
         'fields contain (U+2028, U+0085, form feed, ...).',
         ADD_TRUST, 'DESIGN.md section 5 C19, Appendix E'),
})

LMF_TRUST = ('Trusted: Coq kernel + vm_compute; translator of the per-version element/attribute tables, DOCTYPE map and DC '
             'namespace of wn/lmf.py into Gen/LmfTables.v; expat (tokenisation, well-formedness, entity decoding, attribute-value '
             'and end-of-line normalisation) is not modelled: the model starts from the element tree expat reports, and the '
             'harness obtains that tree with its own expat run; xml.etree serialisation and quoteattr are modelled exactly '
             '(byte-for-byte against real dumps); correspondence harness, document generator/mutator and oracles (Python).')
CLAIMED.update({
 'C20': ('Coq proof over Gallina models of wn.lmf.load (read_header, the expat handlers driven by the per-version tables '
         'regenerated from the source, the _validate functions) and of wn.lmf.scan_lexicons (hand-written scanners equivalent to '
         'its two regular expressions, plus _unescape_attribute and UTF-8 decoding), written from wn/lmf.py; tied to the code by '
         'differential correspondence on generated documents, single-fault mutations and crafted raw files (loaded resource / scan '
         'result or error class must agree); an oracle on the real code checks that every mutated document is rejected by load '
         'and by add with the database unchanged, and that scan_lexicons agrees with load on accepted documents',
         'Theorems (closed under the global context): the header is accepted exactly for the XML declaration followed by a DOCTYPE '
         'of a supported version, and dump always writes such a header; an element the declared version does not allow (incl. '
         'elements of other versions), a repeated single child or a missing id anywhere in the document makes load fail; so does '
         'every omission the _validate functions assert (the six Lexicon attributes, Lemma/writtenForm/partOfSpeech, synset of a '
         'Sense, ili of a Synset, target/relType, id/version of Requires and Extends, subcategorizationFrame, Tag category), a '
         'Count that int() rejects, External* elements outside an extension, an ExternalForm without id and a root that is not '
         'LexicalResource — one boolean fault predicate per requirement at exactly the visited positions, for every version '
         '(Proofs/LmfRequired.v; its 64 minimal documents, rejected and accepted neighbours, are re-run against the real '
         'load and add on every check); for every '
         'file dump writes, scan_lexicons returns exactly the id, version, label and extension base of every lexicon in order, '
         'whatever other attribute values, texts and metadata contain (the start-tag tokenisation and unescaping are exact); '
         'comments and CDATA sections contribute nothing; a start tag without id or version never yields a list. Partial: '
         'ill-formed XML is expat\'s domain (not modelled); "scan = load" is proved for dump-written files (scan_dump composed with C02\'s round trip) '
         'and decided by the oracle for other valid files. "Database unchanged" is C06\'s atomicity theorem plus the fact that '
         'add starts from the loaded resource. The proofs uncovered defects F21/F21b of scan_lexicons (fixed).',
         LMF_TRUST, 'DESIGN.md section 5 C20, Appendix E'),
})

CLAIMED.update({
 'C01': ('Coq proof over the Gallina model of wn._add.add_lexical_resource (document -> rows) composed INSIDE Coq with the '
         'query-layer model (rows -> API) through a bridge between the two table representations; the add model is tied to the '
         'code by row-for-row comparison of all tables after every add, the query model by the observation battery; a '
         'document-level oracle on the real code compares every API answer with the generated document (per lexicon scope and in '
         'default mode, with queries interleaved between adds and a churn of rowids)',
         'Theorems (closed under the global context), for every database, normaliser table and resource: batching loses nothing; '
         'one lexicons row per lexicon that is not skipped, in document order, with all attributes; for each such lexicon exactly '
         'its local entries, forms (lemma rank 0, then document order), synsets (ILI resolved, proposed ILIs with their '
         'definition), senses (entry rank, synset rank from members) and children/relations/frames rows, one per declaration, in '
         'document order, cell by cell; nothing else changes. Capstone (composition): after adding a resource with one new '
         'non-extension lexicon to any consistent database, a Wordnet restricted to it lists through synsets(), words() and '
         'senses() exactly the document\'s synsets, entries and senses in document order with their ids, parts of speech and forms '
         '(lemma first, then the further forms with id and script), every sense navigates to the word and synset the document '
         'names, Word.senses() and Synset.senses() give document order resp. the declared member order, and every sense and synset '
         'reports the document\'s examples, counts, frames, adjposition, lexicalized flag, first definition, ILI (real or proposed) '
         'and lexfile, Synset.words()/lemmas() follow the member order, get_related (one relation type) lists the document\'s '
         'targets in order, each once; for an extension adding a sense or examples to base elements the base word/sense/synset '
         'shows them; each hypothesis is shown necessary '
         'by a witness, and hypotheses and conclusions are evaluated on databases recorded from the implementation. Partial: '
         'tags, pronunciations and all metadata incl. relation dc:type (the bridge drops metadata cells), several new lexicons '
         'at once and default mode are covered row-wise (document -> rows) and by the oracle on the real code, not by a composed '
         'theorem. Known finding F3.',
         ADD_TRUST, 'DESIGN.md section 5 C01, Appendix E'),
})

CLAIMED.update({
 'C02': ('Coq proof over Gallina models of wn.lmf.dump and wn.lmf.load and of the CPython serialisers dump relies on '
         '(ElementTree escaping, quoteattr), written from wn/lmf.py with the per-version tables regenerated from the source; tied '
         'to the code by differential correspondence (dumped file byte for byte; loaded resource exactly, incl. key order) and by '
         'evaluating the theorems\' normal-form hypothesis, inside Coq, on the resources the real load returns for files the real '
         'dump wrote; the round trip itself is also run on the real code (load, dump in every version, reload, redump)',
         'Theorems (closed under the global context): every attribute value and every text survives serialisation and parsing '
         'character for character (all code points; CR in text becomes LF, which whitespace normalisation absorbs); for every '
         'element kind (Tag, Pronunciation, Requires/Extends, SyntacticBehaviour 1.0/1.1, Example, Definition, ILIDefinition, '
         'relations, Count, Lemma, Form, Sense, Synset, LexicalEntry and their External variants, Lexicon/LexiconExtension) and for '
         'whole documents: load (dump R) = R exactly, for every resource R in the loader\'s normal form, every supported version, '
         'every indentation; dump is total on normal forms and writes header ++ root ++ lexicon texts. The model of what expat '
         'reports for a serialised element (expat_view: names namespace-expanded, values decoded) is justified by the string-level '
         'theorems and validated by correspondence; expat itself is not modelled. "dump(load(F)) reloads equal" for files not '
         'written by dump is decided by the oracle; documents outside the normal form (empty optional attributes, explicit '
         'defaults) are an interpretation point (DESIGN.md).',
         LMF_TRUST, 'DESIGN.md section 5 C02, Appendix E'),
})

NOT_YET = 'not covered yet in this round: model, theorems and correspondence are planned (DESIGN.md sections 5 and 9) but no sound check is registered, so nothing is claimed'

def main():
    checks = []
    na = []
    for p in PROPS:
        pid = p['id']
        if pid in CLAIMED:
            tech, text, note, ref = CLAIMED[pid]
            checks.append({
                'property_id': pid,
                'quick_cmd': './check %s --tier quick' % pid,
                'thorough_cmd': './check %s --tier thorough' % pid,
                'evidence_file': 'evidence/%s.json' % pid,
                'replay_cmd_template': './check %s --replay {path}' % pid,
                'engine': 'coq-proof+correspondence',
                'level_claimed': {'category': 'proof', 'text': text, 'design_ref': ref},
                'level_note': note,
                'technique': tech,
            })
        else:
            na.append({'property_id': pid, 'reason': NOT_YET})
    m = {
        'version': 1,
        'setup_cmd': './setup.sh',
        'hooks': {
            'guard': 'WN_VERIF',
            'enable': 'no source hooks are needed: checks drive /repo from outside (PYTHONPATH=/repo, wn.config.data_directory, '
                      'sqlite3 trace callback/authorizer, progress_handler argument, module attribute BATCH_SIZE, PYTHONHASHSEED)',
            'baseline_off_cmd': 'cd /repo && /venv/bin/python -m pytest -ra -q -p no:cacheprovider --timeout=900 --continue-on-collection-errors',
            'source_commits': [],
            'add_only': True,
        },
        'engines': [{
            'name': 'coq-proof+correspondence', 'path': 'check',
            'serves_properties': sorted(CLAIMED),
            'kind_free_text': 'Coq 8.16 theorems over hand-written Gallina models; generated tables (translator) + differential '
                              'correspondence evaluated by vm_compute; direct oracle search on the implementation for failing inputs',
        }],
        'checks': checks,
        'not_applicable': na,
        'notes': 'See DESIGN.md. Every check regenerates coq/Gen from /repo, rebuilds, audits Print Assumptions, runs the '
                 'correspondence and the oracle search, and writes evidence/<id>.json.',
    }
    json.dump(m, open(os.path.join(VERIF, 'MANIFEST.json'), 'w'), indent=1)

if __name__ == '__main__':
    main()
