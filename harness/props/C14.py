"""C14 — similarity metrics equal their formulas, are symmetric and bounded."""
import math
import random
import struct
import common
import graphs as G

TRUSTED = [
    'modelled, not verified: math.log (information-content values are an input table of the model; Leacock-Chodorow is compared '
    'through the argument of the logarithm); IEEE-754 division/addition/multiplication are Coq primitive floats (bit exact); '
    'the theorems are about the natural-number parts and the rational formulas, the float layer only ties them to the code',
]
CLS = {'n': 0, 'v': 1, 'a': 2, 's': 2, 'r': 3}
ICPOS = {'n': 'n', 'v': 'v', 'a': 'a', 's': 'a', 'r': 'r'}


def fx(v):
    """float (hex string or special) -> wire encoding of Model/SimilarityFloat.v"""
    if v == 'inf':
        return [1, 0]
    if v == '-inf':
        return [1, 1]
    if v == 'nan':
        return [2]
    x = float.fromhex(v) if isinstance(v, str) else float(v)
    if x == 0:
        return [0, 1 if math.copysign(1, x) < 0 else 0, 0, 0]
    fr, ex = math.frexp(abs(x))
    return [0, 1 if x < 0 else 0, int(fr * (1 << 53)), ex - 53]


def gen(rng, tier):
    gs = []
    k = 0
    specs = []
    for n in range(1, 4):
        for edges in G.all_digraphs(n):
            if n < 3 or tier != 'quick' or rng.random() < 0.5:
                specs.append((n, edges))
    for _ in range(120 if tier == 'quick' else 2500):
        n = rng.randint(4, 7 if tier == 'quick' else 9)
        specs.append((n, G.random_edges(rng, n, rng.choice(['forest', 'dag', 'diamond', 'diamond', 'cyclic', 'sparse']))))
    specs.append((6, [(1, 3), (1, 4), (2, 3), (2, 5), (5, 4), (3, 6), (4, 6)]))     # two LCS at different distances (F7)
    specs.append((6, [(1, 3), (1, 4), (2, 3), (2, 4), (4, 5), (5, 6)]))               # common subsumers at different depths (F13)
    for n, edges in specs:
        g = G.mk_graph(k, n, edges, rng, pos_mode=rng.choice(['n', 'n', 'v', 'as', 'as', 'nv']))
        g['lch_depth'] = rng.choice([3, 3, 1, 7, 0, -1])
        if rng.random() < 0.75:
            ic = {p: {'': 0.0} for p in 'nvar'}
            style = rng.choice(['arbitrary', 'descendants'])
            adj = G.adj_of(n, g['plain_edges'])
            for i in range(1, n + 1):
                p = ICPOS.get(g['pos'][i - 1])
                if p is None:
                    continue
                if style == 'arbitrary':
                    wgt = rng.choice([0.5, 1.0, 1.5, 2.0, 3.0, 4.0, 6.0, 10.0])
                else:
                    wgt = float(sum(1 for j in range(1, n + 1) if i in G.reach_set(adj, j)))
                ic[p][str(i)] = wgt
            for p in 'nvar':
                tot = sum(v for kk, v in ic[p].items() if kk != '')
                ic[p][''] = float(max(tot, 1.0)) if style == 'arbitrary' else float(max([v for kk, v in ic[p].items() if kk] + [1.0]))
            g['ic'] = ic
        gs.append(g)
        k += 1
    return gs


def oracle(rep, g, rec, stats):
    n = g['n']
    edges = g['plain_edges']
    adj = G.adj_of(n, edges)
    cyc = G.has_cycle(n, edges)
    reach = {i: G.reach_set(adj, i) for i in range(1, n + 1)}
    dist = {i: G.bfs_dist(adj, i) for i in range(1, n + 1)}
    chains = {i: G.maximal_simple_chains(adj, i) for i in range(1, n + 1)}
    cls = {i: CLS.get(g['pos'][i - 1], -1) for i in range(1, n + 1)}
    mdepth0 = {i: max([len(p) for p in chains[i]] + [0]) for i in range(1, n + 1)}
    mdepth0[0] = 0
    mind_sr = {i: min(len(p) for p in chains[i]) + 1 for i in range(1, n + 1)}
    case0 = {'graph_k': g['k'], 'n': n, 'edges': edges, 'pos': g['pos'], 'typed_edges': g['edges'],
             'lch_depth': g['lch_depth'], 'ic': g.get('ic')}

    def splen(a, b, sr):
        if a == b:
            return 0
        if b == 0:      # distance to the simulated root
            return mind_sr[a]
        c = [dist[a][x] + dist[b][x] for x in reach[a] & reach[b]]
        if sr:
            c.append(mind_sr[a] + mind_sr[b])
        return min(c) if c else None

    nontrivial = False
    for sr in (False, True):
        rows = rec['sim'][str(int(sr))]
        vals = {}
        pi = 0
        for a in range(1, n + 1):
            for b in range(1, n + 1):
                row = rows[pi]
                pi += 1
                case = dict(case0, a=a, b=b, simulate_root=sr)
                compat = cls[a] == cls[b]
                d = splen(a, b, sr)
                # ---- path
                got = row['path']
                if not compat:
                    for name in ('path', 'wup', 'lch'):
                        if row[name] != ['err', 'WnError']:
                            rep.fail('incompatible parts of speech do not raise wn.Error', case, {name: row[name]})
                    continue
                exp = 1 / (d + 1) if d is not None else 0.0
                if got[0] != 'ok' or float.fromhex(got[1]) != exp:
                    rep.fail('path is not 1/(shortest path length + 1) (0 when unconnected)', case,
                             {'got': got, 'expected': exp, 'distance': d})
                elif not (0.0 <= exp <= 1.0) or ((exp == 1.0) != (a == b)):
                    rep.fail('path outside [0,1] or 1 for different synsets', case, {'got': got})
                vals[('path', a, b)] = got
                # ---- wup
                common_ = (reach[a] & reach[b]) | ({0} if sr else set())
                got = row['wup']
                if not common_:
                    if got != ['err', 'WnError']:
                        rep.fail('wup without a common hypernym does not raise wn.Error', case, {'got': got})
                elif got[0] != 'ok':
                    rep.fail('wup raises although a common hypernym exists', case, {'got': got})
                else:
                    v = float.fromhex(got[1])
                    if a == b:
                        cands = {a}
                    else:
                        dd = {c: (mdepth0[c] + (1 if (sr and c != 0) else 0)) for c in common_}
                        top = max(dd.values())
                        cands = {c for c in common_ if dd[c] == top}
                    adm = set()
                    for c in (cands if not cyc else common_):
                        i, j = splen(a, c, sr), splen(b, c, sr)
                        kk = mdepth0[c] + 1
                        if i is not None and j is not None:
                            adm.add((2 * kk) / (i + j + 2 * kk))
                    if v not in adm:
                        rep.fail('wup is not 2k/(i+j+2k) for a lowest common hypernym', case,
                                 {'got': v, 'admissible': sorted(adm), 'lowest_common_hypernyms': sorted(cands)})
                    if not (0 < v <= 1) or (a == b and v != 1.0):
                        rep.fail('wup outside (0,1] or not 1 for identical synsets', case, {'got': v})
                    if len(adm) > 1:
                        nontrivial = True
                vals[('wup', a, b)] = got
                # ---- lch
                got = row['lch']
                md = g['lch_depth']
                if d is None or md <= 0:
                    if got != ['err', 'WnError']:
                        rep.fail('lch without a path (or with max_depth <= 0) does not raise wn.Error', case, {'got': got})
                else:
                    exp = -math.log((d + 1) / (2 * md))
                    if got[0] != 'ok' or float.fromhex(got[1]) != exp:
                        rep.fail('lch is not -log((p+1)/(2d))', case, {'got': got, 'expected': exp})
                vals[('lch', a, b)] = got
        for (name, a, b), v in vals.items():
            if vals.get((name, b, a), v) != v:
                rep.fail('%s is not symmetric' % name, dict(case0, a=a, b=b, simulate_root=sr),
                         {'ab': v, 'ba': vals.get((name, b, a))})
            if name in ('path', 'wup', 'lch') and v[0] == 'ok':
                s_ = vals.get((name, a, a))
                if s_ and s_[0] == 'ok' and float.fromhex(v[1]) > float.fromhex(s_[1]):
                    rep.fail('%s scores a pair higher than a synset with itself' % name,
                             dict(case0, a=a, b=b, simulate_root=sr), {'pair': v, 'self': s_})
    # ---- IC-based metrics
    if g.get('ic'):
        ic = g['ic']
        icval = {}
        for i in range(1, n + 1):
            p = ICPOS.get(g['pos'][i - 1])
            icval[i] = -math.log(ic[p][str(i)] / ic[p][''])
            r = rec['icvals'][str(i)]
            if r[0] != 'ok' or float.fromhex(r[1]) != icval[i]:
                rep.fail('information_content is not -log(freq/N)', dict(case0, synset=i), {'got': r, 'expected': icval[i]})
        wgt = {i: ic[ICPOS[g['pos'][i - 1]]][str(i)] for i in range(1, n + 1)}
        rows = rec['simic']
        vals = {}
        pi = 0
        for a in range(1, n + 1):
            for b in range(1, n + 1):
                row = rows[pi]
                pi += 1
                case = dict(case0, a=a, b=b)
                if cls[a] != cls[b]:
                    for name in ('res', 'jcn', 'lin'):
                        if row[name] != ['err', 'WnError']:
                            rep.fail('incompatible parts of speech do not raise wn.Error', case, {name: row[name]})
                    continue
                common_ = reach[a] & reach[b]
                mixed = any(cls[c] != cls[a] for c in common_)
                if not common_:
                    for name in ('res', 'jcn', 'lin'):
                        if row[name] != ['err', 'WnError']:
                            rep.fail('%s without a common hypernym does not raise wn.Error' % name, case, {'got': row[name]})
                    continue
                if mixed:
                    continue        # hypernym edge across parts of speech: outside the quantifier (KeyError)
                exp = max(icval[c] for c in common_)
                got = row['res']
                if got[0] != 'ok' or float.fromhex(got[1]) != exp:
                    rep.fail('res is not the maximum information content over common subsumers', case,
                             {'got': got, 'expected': exp, 'common': sorted(common_)})
                if len({icval[c] for c in common_}) > 1:
                    nontrivial = True
                if a == b:
                    cands = {a}
                else:
                    top = max(mdepth0[c] for c in common_)
                    cands = {c for c in common_ if mdepth0[c] == top}
                if not cyc:
                    wtop = max(wgt[c] for c in cands)
                    ic0s = {icval[c] for c in cands if wgt[c] == wtop}
                    ic1, ic2 = icval[a], icval[b]
                    ej = set()
                    el = set()
                    for ic0 in ic0s:
                        if ic1 == ic2 == ic0 == 0:
                            ej.add(0.0)
                        elif ic1 + ic2 == 2 * ic0:
                            ej.add(float('inf'))
                        else:
                            ej.add(1 / (ic1 + ic2 - 2 * ic0))
                        el.add(0.0 if (ic1 == 0 or ic2 == 0) else 2 * ic0 / (ic1 + ic2))
                    for name, es in (('jcn', ej), ('lin', el)):
                        got = row[name]
                        gv = None
                        if got[0] == 'ok':
                            gv = float('inf') if got[1] == 'inf' else (float.fromhex(got[1]) if isinstance(got[1], str) else float(got[1]))
                        if gv not in es:
                            rep.fail('%s is not its documented formula on IC(c1), IC(c2), IC(lowest common hypernym of highest weight)' % name,
                                     case, {'got': got, 'expected': sorted(es)})
                for name in ('res', 'jcn', 'lin'):
                    vals[(name, a, b)] = row[name]
        for (name, a, b), v in vals.items():
            if vals.get((name, b, a), v) != v:
                rep.fail('%s is not symmetric' % name, dict(case0, a=a, b=b), {'ab': v, 'ba': vals.get((name, b, a))})
    return nontrivial or cyc or any(len(adj[i]) >= 2 for i in range(1, n + 1))


def decode_lch(got, md):
    """impl lch float -> the argument (p+1)/(2d) it is the -log of (searched among admissible p)"""
    if got[0] != 'ok':
        return {'WnError': -1, 'KeyError': -3}.get(got[1], -4)
    f = float.fromhex(got[1])
    for p in range(0, 80):
        x = (p + 1) / (2 * md)
        if -math.log(x) == f:
            return fx(x)
    return [2]


def enc(got):
    if got[0] != 'ok':
        return {'WnError': -1, 'KeyError': -3}.get(got[1], -4)
    return fx(got[1])


def to_pairs(g, rec):
    n = g['n']
    graph = [[i, rec['hyp'][str(i)]] for i in range(1, n + 1)]
    tbl = [[i, CLS.get(g['pos'][i - 1], -1)] for i in range(1, n + 1)]
    V = list(range(1, n + 1))
    ict = []
    if g.get('ic') and all(rec['icvals'][str(i)][0] == 'ok' for i in V):
        for i in V:
            ict.append([i, fx(g['ic'][ICPOS[g['pos'][i - 1]]][str(i)]), fx(rec['icvals'][str(i)][1])])
    out = []
    for sr in (False, True):
        rows = rec['sim'][str(int(sr))]
        impl = []
        for pi, row in enumerate(rows):
            r = [enc(row['path']), enc(row['wup']), decode_lch(row['lch'], g['lch_depth'])]
            if ict and not sr:
                ir = rec['simic'][pi]
                r += [enc(ir['res']), enc(ir['jcn']), enc(ir['lin'])]
            else:
                r += [-9, -9, -9]
            impl.append(r)
        out.append(([graph, tbl, V, sr, g['lch_depth'], ict if not sr else []], impl))
    return out


def run(rep, tier, build, replay=None):
    rng = random.Random(common.seed() * 7919 + 14)
    gs = gen(rng, tier)
    shards = common.shard_dbs(gs, 48)
    outs = common.run_impl_parallel('run_graph.py', [{'dbs': s, 'want': ['sim']} for s in shards])
    byk = {rec['k']: rec for o in outs for rec in o}
    stats = {}
    pairs = []
    nontriv = set()
    for g in gs:
        if oracle(rep, g, byk[g['k']], stats):
            nontriv.add(common.canon_hash([g['plain_edges'], g['pos'], g.get('ic')]))
        pairs += to_pairs(g, byk[g['k']])
    mism, info = common.coq_mismatches('WnV.Model.SimilarityFloat', 'run_similarity', 'agree_similarity', pairs,
                                       tag='c14', shard=100)
    if info['errors']:
        rep.broke('correspondence evaluation failed in Coq: ' + '; '.join(info['errors'])[:1500])
    if mism:
        ex = [{'input': pairs[i][0], 'impl': pairs[i][1]} for i in mism[:2]]
        rep.broke('correspondence Model/Similarity.v vs wn.similarity: %d of %d cases differ; first: %s; model says: %s'
                  % (len(mism), len(pairs), ex, info.get('model_outputs', '')[:2500]))
    rep.coverage.update({
        'evaluations': len(pairs),
        'distinct_nontrivial': len(nontriv),
        'rule': 'all digraphs on 1-2 nodes, a sample (quick) or all (thorough) on 3 nodes, random forests/DAGs/diamonds/cyclic/sparse '
                'graphs up to 7 (quick) / 9 nodes, each one lexicon in a real database; all ordered pairs x simulate_root x '
                'lch depth in {3,1,7,0,-1} x IC weights (arbitrary positive dyadic, or descendant counts); parts of speech '
                'n, v, a+s mixed, n+v mixed; non-trivial = distinct graphs with branching, cycles, several admissible LCS or '
                'several IC values among the common subsumers',
        'graphs': len(gs),
        'traces_validated_against_impl': len(pairs),
        'correspondence_mismatches': len(mism),
        'coq_eval_wall_s': round(info['wall'], 1),
        'stats': stats,
    })
    g = gs[-1]
    rep.samples.append({'edges': g['plain_edges'], 'pos': g['pos'], 'ic': g.get('ic'),
                        'impl_first_rows': byk[g['k']]['sim']['0'][:3]})
