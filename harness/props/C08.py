"""C08 — lexicon specifiers and language codes select exactly the documented lexicons."""
import random
import common

TRUSTED = [
    'modelled, not verified: SQLite GLOB (*, ?, character classes as in sqlite3 patternCompare; the model was validated against SQLite itself on 1.26 million pairs and the oracle\'s own matcher is re-checked against SQLite on every run), '
    'rowid allocation (a later add gets a larger rowid), str.split(); the lexicons table in rowid order is the model input '
    '(the oracle derives "most recently added" from the add/remove history instead)',
]
IDS = ['ab', 'abc', 'a', 'x-y', 'omw-en', 'omw-fr', 'b']
VERSIONS = ['1', '1.0', '2', '1.3+omw', '2020-rc', '10']
LANGS = ['en', 'fr', 'de']


def glob(p, s):
    """independent matcher for SQLite GLOB: *, ? and [...] classes (^ inversion, ranges, ] first is a member,
    an unterminated class matches nothing); checked against sqlite3 itself in selfcheck_glob()"""
    if not p:
        return not s
    if p[0] == '*':
        return any(glob(p[1:], s[i:]) for i in range(len(s) + 1))
    if not s:
        return False
    if p[0] == '?':
        return glob(p[1:], s[1:])
    if p[0] == '[':
        c = s[0]
        i = 1
        invert = False
        seen = False
        prior = None
        if i < len(p) and p[i] == '^':
            invert = True
            i += 1
        if i < len(p) and p[i] == ']':
            seen = (c == ']')
            i += 1
        while i < len(p) and p[i] != ']':
            if p[i] == '-' and i + 1 < len(p) and p[i + 1] != ']' and prior is not None:
                i += 1
                if prior <= c <= p[i]:
                    seen = True
                prior = None
            else:
                if c == p[i]:
                    seen = True
                prior = p[i]
            i += 1
        if i >= len(p) or seen == invert:
            return False
        return glob(p[i + 1:], s[1:])
    return p[0] == s[0] and glob(p[1:], s[1:])


def selfcheck_glob(rng, n=3000):
    """the oracle's matcher against SQLite's GLOB on random pairs (so that the oracle itself is not trusted blindly)"""
    import sqlite3
    con = sqlite3.connect(':memory:')
    bad = []
    alpha = 'abc:-^][*?1'
    for _ in range(n):
        pat = ''.join(rng.choice(alpha) for _ in range(rng.randint(0, 7)))
        st = ''.join(rng.choice('abc:-^]1') for _ in range(rng.randint(0, 6)))
        if bool(con.execute('SELECT ? GLOB ?', (st, pat)).fetchone()[0]) != glob(pat, st):
            bad.append((pat, st))
    return bad


def documented(installed, spec, lang):
    """installed: list of (id, version, lang) in order of addition (oldest first).
    Returns the set of (id, version) selected, per docs/guides/lexicons.rst."""
    sel = set()
    for word in (spec if spec else '*').split():
        cand = [x for x in installed if lang is None or x[2] == lang]
        if word == '*':
            sel |= {(i, v) for i, v, _ in cand}
        elif ':' not in word and not any(c in word for c in '*?['):
            same = [(i, v) for i, v, _ in cand if i == word]
            if same:
                sel.add(same[-1])                       # the most recently added one
        else:
            pat = word if ':' in word else word + ':*'
            sel |= {(i, v) for i, v, _ in cand if glob(pat, i + ':' + v)}
    return sel


def gen_db(rng, nq):
    universe = [(i, v) for i in IDS for v in VERSIONS]
    history = []
    installed = []
    langof = {}
    for _ in range(rng.randint(3, 11)):
        if installed and rng.random() < 0.22:
            x = rng.choice(installed)
            installed.remove(x)
            history.append(['remove', x[0], x[1]])
        else:
            i = rng.choice(IDS[:4]) if rng.random() < 0.6 else rng.choice(IDS)
            v = rng.choice(VERSIONS)
            if any((i, v) == (a, b) for a, b, _ in installed):
                continue
            lang = langof.setdefault(i, rng.choice(LANGS)) if rng.random() < 0.8 else rng.choice(LANGS)
            installed.append((i, v, lang))
            history.append(['add', i, v, lang])
    words = ['*', '*:*', 'zz', 'zz:*', 'ab:9', '?', '??', 'a*', 'a?', 'a?:1', '*:1*', '?b:*', 'omw-*:1.3+omw',
             'omw-*', '*-*:*', 'ab*:?', '*:1', '*:2', '*.0', '*:*+*',
             'ab[cd]:*', 'a[b]', '[ax]*', 'a[^b]*:*', '*:[12]*', 'ab[', 'ab[c', '[a-b]:*', '[a-b]*:[0-9]', 'x[-]y:*', 'a[]b]:1',
             '[^o]*:1', 'omw-[ef][nr]:*', '*:1.[0-3]*', '[b-a]:*']
    for i in IDS:
        words += [i, i + ':*']
    for i, v, _ in installed:
        words += [i + ':' + v, '*:' + v, i + ':' + v[0] + '*']
    queries = [[None, None], ['', None], [None, 'en'], ['*', 'zz'], ['*', None], ['*', 'fr']]
    for _ in range(nq):
        k = rng.choice([1, 1, 1, 2, 2, 3])
        sep = rng.choice([' ', ' ', '  ', '\t'])
        spec = sep.join(rng.choice(words) for _ in range(k))
        if rng.random() < 0.1:
            spec = ' ' + spec + ' '
        queries.append([spec, rng.choice([None, None, None, 'en', 'fr', 'de', 'zz'])])
    return {'history': history, 'queries': queries, 'installed': installed}


def run(rep, tier, build, replay=None):
    rng = random.Random(common.seed() * 7919 + 8)
    bad = selfcheck_glob(random.Random(common.seed() + 88), 3000 if tier == 'quick' else 40000)
    if bad:
        rep.broke('the oracle\'s GLOB matcher disagrees with SQLite on %d pairs, e.g. %r' % (len(bad), bad[:3]))
    ndb, nq = (40, 70) if tier == 'quick' else (600, 200)
    dbs = [gen_db(rng, nq) for _ in range(ndb)]
    # corpus: the design's witnesses (ab:1 before ab:2; a prefix id)
    dbs.insert(0, {'history': [['add', 'ab', '1', 'en'], ['add', 'ab', '2', 'en'], ['add', 'abc', '1', 'en']],
                   'installed': [('ab', '1', 'en'), ('ab', '2', 'en'), ('abc', '1', 'en')],
                   'queries': [['ab', None], ['ab abc:*', None], ['a?:1', None], ['a?:*', None], ['ab:*', None],
                               ['*:1', None], ['abc', 'en'], ['ab', 'fr'], ['zz', None], ['*', None], [None, None]]})
    nsh = common.NPROC
    shards = [s for s in (dbs[i::nsh] for i in range(nsh)) if s]
    outs = common.run_impl_parallel('run_C08.py', [{'dbs': s} for s in shards])
    pairs = []
    nontriv = set()
    nq_total = 0
    for s, o in zip(shards, outs):
        for db, res in zip(s, o):
            rows = res['rows']
            byid = {r[0]: (r[1], r[2]) for r in rows}
            if sorted(byid.values()) != sorted((i, v) for i, v, _ in db['installed']):
                rep.fail('installed lexicons differ from the add/remove history', {'history': db['history']},
                         {'db': rows})
                continue
            lexs = [[r[0], r[1], r[2], r[3]] for r in rows]
            for (spec, lang), r in zip(db['queries'], res['res']):
                nq_total += 1
                case = {'history': db['history'], 'lexicon': spec, 'lang': lang}
                exp = documented(db['installed'], spec, lang)
                # wn.lexicons(): never an error
                got = r['lexicons']
                if got and got[0] == 'err':
                    rep.fail('wn.lexicons() raised', case, {'got': got})
                elif {byid[x] for x in got} != exp:
                    rep.fail('wn.lexicons() does not select the documented lexicons', case,
                             {'got': sorted(byid[x] for x in got), 'expected': sorted(exp)})
                # Wordnet(): an error iff nothing matches (except the bare '*' without lang)
                gw = r['wordnet']
                star = (spec in (None, '', '*')) and lang is None
                if gw and gw[0] == 'err':
                    if gw[1] != 'WnError' or exp or star:
                        rep.fail('Wordnet() raised although lexicons match (or raised something else than wn.Error)',
                                 case, {'got': gw, 'expected': sorted(exp)})
                elif {byid[x] for x in gw} != exp:
                    rep.fail('Wordnet() does not select the documented lexicons', case,
                             {'got': sorted(byid[x] for x in gw), 'expected': sorted(exp)})
                elif not exp and not star:
                    rep.fail('Wordnet() with a request matching no lexicon did not raise wn.Error', case, {'got': gw})
                if 0 < len(exp) < len(rows):
                    nontriv.add(common.canon_hash([sorted(byid.values()), spec, lang]))
                pairs.append(([lexs, [] if spec is None else [spec], [] if lang is None else [lang]],
                              [(-1 if (gw and gw[0] == 'err') else gw),
                               ([] if (got and got[0] == 'err') else got)]))
    mism, info = common.coq_mismatches('WnV.Model.Spec', 'run_spec', 'agree_spec', pairs, tag='c08', shard=400)
    if info['errors']:
        rep.broke('correspondence evaluation failed in Coq: ' + '; '.join(info['errors'])[:1500])
    if mism:
        ex = [{'input': pairs[i][0], 'impl': pairs[i][1]} for i in mism[:3]]
        rep.broke('correspondence Model/Spec.v vs wn._queries.find_lexicons: %d of %d cases differ; first: %s; model says: %s'
                  % (len(mism), len(pairs), ex, info.get('model_outputs', '')[:1500]))
    rep.coverage.update({
        'evaluations': len(pairs),
        'distinct_nontrivial': len(nontriv),
        'rule': 'databases built by random add/remove histories over ids {ab, abc, a, x-y, omw-en, omw-fr, b} (prefix ids) x versions '
                '{1, 1.0, 2, 1.3+omw, 2020-rc, 10} x languages; specifier strings of 1-3 words from *, id, id:version, id:*, '
                '*:version and globs with * and ?, joined by spaces/tabs, plus None and the empty string; lang in {None, en, fr, '
                'de, zz}; both wn.lexicons() and wn.Wordnet(); non-trivial = distinct (database, specifier, lang) selecting a '
                'proper non-empty subset',
        'databases': len(dbs),
        'traces_validated_against_impl': len(pairs),
        'correspondence_mismatches': len(mism),
        'coq_eval_wall_s': round(info['wall'], 1),
    })
    rep.samples.append({'history': dbs[1]['history'], 'query': dbs[1]['queries'][8],
                        'impl': outs[1 % len(outs)][0]['res'][8] if outs else None})
