"""C02 — WN-LMF load/dump is a lossless round trip in every supported version."""
import copy
import random
import common
import gendoc
import lmfgen
import lmfmodel

TRUSTED = [
    'modelled, not verified: expat (tokenisation, namespace expansion, attribute-value normalisation, entity decoding) — the '
    'model of load starts from the element tree expat reports; xml.etree serialisation and quoteattr are modelled to the character',
]
GATED_LEX = ['logo', 'requires', 'frames']


def strip_gated(res):
    """remove what only WN-LMF >= 1.1 (or only 1.0) can express, for cross-version comparison"""
    r = copy.deepcopy(res)
    r.pop('lmf_version', None)
    for lx in r['lexicons']:
        for k in GATED_LEX:
            lx.pop(k, None)
        for e in lx.get('entries', []):
            e.pop('frames', None)
            for f in ([e['lemma']] if e.get('lemma') else []) + e.get('forms', []):
                f.pop('pronunciations', None)
                f.pop('id', None) if not f.get('external') else None
            for s in e.get('senses', []):
                s.pop('subcat', None)
        for ss in lx.get('synsets', []):
            ss.pop('members', None)
            ss.pop('lexfile', None)
    return r


def texts_of(x):
    """all 'text' and 'writtenForm' strings of a resource description, whitespace-normalised as the loader does"""
    out = []
    if isinstance(x, dict):
        for k, v in x.items():
            if k in ('text', 'writtenForm') and isinstance(v, str):
                out.append(' '.join(v.split()) if k == 'text' else v)
            else:
                out += texts_of(v)
    elif isinstance(x, (list, tuple)):
        for v in x:
            out += texts_of(v)
    return out


def is_ext(res):
    return any(lx.get('extends') for lx in res['lexicons'])


def run(rep, tier, build, replay=None):
    rng = random.Random(common.seed() * 7919 + 2)
    n = 50 if tier == 'quick' else 800
    jobs = []
    meta = []
    for _ in range(n):
        u = gendoc.gen_universe(rng, size=rng.choice([2, 3, 4]))
        for name, res in u:
            text = lmfgen.to_xml(res, style=lmfgen.Style(random.Random(rng.randrange(1 << 30))))
            jobs.append({'kind': 'load', 'text': text})
            meta.append(('load0', name, res))
    outs = common.run_impl_parallel('run_lmf.py', [{'jobs': jobs[i::common.NPROC]} for i in range(common.NPROC)])
    loaded = [None] * len(jobs)
    for i in range(common.NPROC):
        for j, rec in enumerate(outs[i]):
            loaded[i + j * common.NPROC] = rec
    # second stage: dump every loaded resource (the loader's normal form) in every version, reload, redump
    jobs2 = []
    meta2 = []
    for (kind, name, res), rec in zip(meta, loaded):
        if rec['load'][0] != 'ok':
            rep.fail('a structurally valid generated document is not loadable', {'resource': res}, {'got': rec['load']})
            continue
        r0 = rec['load'][1]
        # what load returns carries the document's texts and written forms, character for character (after the
        # whitespace normalisation the loader documents); compared with the generated description, not with wn's own output
        want = sorted(texts_of(res))
        got = sorted(texts_of(r0))
        if want != got:
            bad = [t for t in want if t not in got][:1] or [t for t in got if t not in want][:1]
            rep.fail('load() does not return the texts of the document', {'resource': res},
                     {'a_text_that_differs': (bad[0][:80] + '...(%d chars)' % len(bad[0])) if bad else None,
                      'n_expected': len(want), 'n_got': len(got)})
        for v in ('1.0', '1.1', '1.2', '1.3'):
            if v == '1.0' and is_ext(r0):
                continue        # a lexicon extension is not something 1.0 can express
            jobs2.append({'kind': 'dump', 'resource': dict(r0, lmf_version=v), 'reload': True})
            meta2.append((r0, v))
    outs2 = common.run_impl_parallel('run_lmf.py', [{'jobs': jobs2[i::common.NPROC]} for i in range(common.NPROC)])
    nontriv = set()
    pairs = []
    nf_pairs = []
    k = 0
    for i in range(common.NPROC):
        for j, rec in enumerate(outs2[i]):
            r0, v = meta2[i + j * common.NPROC]
            case = {'resource': r0, 'dump_version': v}
            k += 1
            if rec['dump'][0] != 'ok':
                rep.fail('dump() of a loaded resource raised', case, {'got': rec['dump']})
                continue
            if not rec.get('unchanged', True):
                rep.fail('dump() modified the in-memory resource', case, {})
            if rec['reload'][0] != 'ok':
                rep.fail('a file written by dump() is not accepted by load()', case, {'got': rec['reload']})
                continue
            r1 = rec['reload'][1]
            same_version = (v == r0['lmf_version']) or (v != '1.0' and r0['lmf_version'] != '1.0')
            if same_version:
                a, b = dict(r0, lmf_version=v), r1
            else:
                a, b = strip_gated(r0), strip_gated(r1)
            if a != b:
                rep.fail('load(dump(R)) differs from R' + ('' if same_version else ' on the fields both versions can express'),
                         case, {'first_difference': first_diff(a, b)})
            if rec['redump'][0] != 'ok' or rec['redump'][1] != rec['dump'][1]:
                rep.fail('dump(load(dump(R))) is not byte-identical to dump(R)', case,
                         {'first_difference': first_diff(rec['dump'][1], rec['redump'][1])})
            nontriv.add(common.canon_hash([r0, v]))
            pairs.append(lmfmodel.dump_case(v, dict(r0, lmf_version=v), rec))
            if len(nf_pairs) < (120 if tier == 'quick' else 2500):
                import addmodel
                nf_pairs.append(([v, addmodel.val(r1)], 1))
    run_correspondence(rep, pairs, [lmfmodel.load_case(r) for r in loaded])
    # the hypothesis of the round-trip theorems (normal form nf_resource) holds for what the real load returns for files
    # the real dump wrote: evaluated in Coq on this run's resources
    mism, info = common.coq_mismatches('WnV.Proofs.LmfNfRun', 'run_nf', 'sx_agree_default', nf_pairs, tag='c02nf', shard=20,
                                       want_model_out=False)
    if info['errors']:
        rep.broke('normal-form evaluation failed in Coq: ' + '; '.join(info['errors'])[:1500])
    if mism:
        rep.broke('the normal form nf_resource of the round-trip theorems (Proofs/LmfRoundTrip.v) does not hold for %d of %d '
                  'resources returned by load(dump(R)) of the implementation: the theorems no longer describe what load returns'
                  % (len(mism), len(nf_pairs)))
    rep.coverage['normal_form_hypothesis_checked_on'] = len(nf_pairs)
    rep.coverage['normal_form_hypothesis_failures'] = len(mism)
    rep.coverage.update({
        'evaluations': k + len(jobs),
        'distinct_nontrivial': len(nontriv),
        'rule': 'generated universes (plain lexicons, dependencies, extensions with external entries/lemmas/forms/senses/synsets, '
                'pronunciations, tags, counts, entry-level frames (1.0) or lexicon-level frames with subcat (1.1+), every optional '
                'attribute present or absent, metadata everywhere, XML-special / control / non-BMP characters) are written by the '
                'harness writer, loaded (= the loader\'s normal form R), then for each version 1.0-1.3: dump, load, dump again; '
                'explicit default values (lexicalized="true", phonemic="true") and empty optional attributes are not generated '
                '(interpretation point, DESIGN.md); non-trivial = distinct (resource, version)',
    })
    rep.samples.append({'resource_lexicon_ids': [lx['id'] for lx in meta2[0][0]['lexicons']], 'version': meta2[0][1]})


def run_correspondence(rep, dump_pairs, load_pairs):
    import os
    if not os.path.exists(os.path.join(common.COQ, 'Model', 'Lmf.v')):
        rep.notes.append('Model/Lmf.v not built yet: correspondence skipped')
        return
    load_pairs = [p for p in load_pairs if p is not None]
    for name, fn, pairs in (('dump', 'run_dump', dump_pairs), ('load', 'run_load', load_pairs)):
        mism, info = common.coq_mismatches('WnV.Model.Lmf', fn, 'sx_agree_default', pairs, tag='c02' + name, shard=25)
        if info['errors']:
            rep.broke('correspondence evaluation failed in Coq: ' + '; '.join(info['errors'])[:1500])
        if mism:
            rep.broke('correspondence Model/Lmf.v (%s) vs wn.lmf: %d of %d cases differ; first input: %s'
                      % (name, len(mism), len(pairs), str(pairs[mism[0]][0])[:1500]))
        rep.coverage['traces_validated_against_impl_' + name] = len(pairs)
        rep.coverage['correspondence_mismatches_' + name] = len(mism)


def first_diff(a, b, path=''):
    if type(a) != type(b):
        return '%s: %r vs %r' % (path, a, b)
    if isinstance(a, dict):
        for k in list(a) + [k for k in b if k not in a]:
            if k not in a or k not in b:
                return '%s.%s: %s' % (path, k, 'missing on the right' if k in a else 'missing on the left')
            d = first_diff(a[k], b[k], path + '.' + str(k))
            if d:
                return d
        return None
    if isinstance(a, list):
        if len(a) != len(b):
            return '%s: lengths %d vs %d' % (path, len(a), len(b))
        for i, (x, y) in enumerate(zip(a, b)):
            d = first_diff(x, y, '%s[%d]' % (path, i))
            if d:
                return d
        return None
    if isinstance(a, str) and a != b:
        i = next((i for i, (x, y) in enumerate(zip(a, b)) if x != y), min(len(a), len(b)))
        return '%s: at %d: %r vs %r' % (path, i, a[max(0, i - 30):i + 30], b[max(0, i - 30):i + 30])
    return None if a == b else '%s: %r vs %r' % (path, a, b)
