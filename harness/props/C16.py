"""C16 — results are a function of database content and arguments only."""
import json
import random
import common
import gendoc
import coremodel
import graphs as G

TRUSTED = [
    'hash randomisation and repeated calls within one process are runtime facts no Gallina model exhibits: the battery is run '
    'in separate processes under different PYTHONHASHSEED values and twice within each process, and the transcripts must be '
    'byte-identical (partial: the proved part is the order-independence of the model functions in C13/C14)',
]


def first_diff(a, b):
    i = next((i for i, (x, y) in enumerate(zip(a, b)) if x != y), min(len(a), len(b)))
    return {'at': i, 'left': a[max(0, i - 150):i + 80], 'right': b[max(0, i - 150):i + 80]}


def graph_lexicon(rng):
    n = rng.randint(4, 7)
    edges = G.random_edges(rng, n, rng.choice(['diamond', 'dag', 'cyclic', 'forest']))
    edges += [(1, 3), (1, 4), (2, 3), (2, 5), (5, 4), (3, 6), (4, 6)] if n >= 6 and rng.random() < 0.5 else []
    lid = 'gr'
    lex = {'id': lid, 'label': 'graph', 'language': 'en', 'email': 'e', 'license': 'l', 'version': '1', 'meta': None,
           'entries': [], 'synsets': []}
    for i in range(1, n + 1):
        rels = [{'target': '%s-%d' % (lid, t), 'relType': 'hypernym', 'meta': None} for s, t in sorted(set(edges)) if s == i]
        rels += [{'target': '%s-%d' % (lid, s), 'relType': 'hyponym', 'meta': None} for s, t in sorted(set(edges)) if t == i]
        lex['synsets'].append({'id': '%s-%d' % (lid, i), 'ili': '', 'partOfSpeech': 'n', 'relations': rels, 'meta': None})
        lex['entries'].append({'id': '%s-w%d' % (lid, i), 'meta': None,
                               'lemma': {'writtenForm': 'word%d' % (i % 3), 'partOfSpeech': 'n'},
                               'senses': [{'id': '%s-w%d-s' % (lid, i), 'synset': '%s-%d' % (lid, i), 'meta': None}]})
    return ('gr:1', {'lmf_version': '1.3', 'lexicons': [lex]}), ['word0', 'word1', 'word1', 'word2', 'zzz']


def morphy_lexicon():
    """words whose lemma exists for several parts of speech, and inflected forms that several rules map onto them: with a
    Morphy lemmatizer and no pos the order of the proposals becomes the order of the results"""
    lid = 'mo'
    lex = {'id': lid, 'label': 'morphy', 'language': 'en', 'email': 'e', 'license': 'l', 'version': '1', 'meta': None,
           'entries': [], 'synsets': []}
    k = 0
    for form, poses, extra in (('fast', 'nvar', []), ('glass', 'nv', []), ('base', 'nva', []), ('basis', 'n', ['bases']),
                               ('leave', 'vn', []), ('leaf', 'n', ['leaves']), ('well', 'ranv', ['better']),
                               ('good', 'an', ['better', 'best']), ('hard', 'ar', [])):
        for pos in poses:
            k += 1
            ssid = '%s-s%d' % (lid, k)
            lex['synsets'].append({'id': ssid, 'ili': '', 'partOfSpeech': pos, 'relations': [], 'meta': None})
            lex['entries'].append({'id': '%s-e%d' % (lid, k), 'meta': None,
                                   'lemma': {'writtenForm': form, 'partOfSpeech': pos},
                                   'forms': [{'writtenForm': f} for f in extra],
                                   'senses': [{'id': '%s-e%d-1' % (lid, k), 'synset': ssid, 'meta': None}]})
    forms = ['fast', 'fasts', 'fasted', 'faster', 'fastest', 'glasses', 'bases', 'leaves', 'better', 'best', 'wells', 'harder',
             'basing', 'leaving', 'nosuch']
    return ('mo:1', {'lmf_version': '1.3', 'lexicons': [lex]}), forms


def run(rep, tier, build, replay=None):
    rng = random.Random(common.seed() * 7919 + 16)
    ncases = 4 if tier == 'quick' else 40
    seeds = [0, 1, 2, 3, 7, 11] if tier == 'quick' else list(range(0, 24))
    cases = []
    for _ in range(ncases):
        u = gendoc.gen_universe(rng, size=3, force={'dep', 'ext'})
        (gname, gres), corpus = graph_lexicon(rng)
        names = [n for n, _ in u]
        v10 = gendoc.gen_lexicon(rng, 'old', '1', 'en', ['i1', 'i2'], '1.1', size=5)    # frames with subcat: exported to 1.0
        # several dependencies: the order of the expand lexicons must not depend on the hash seed
        multi = gendoc.gen_lexicon(rng, 'dd', '1', 'en', ['i1', 'i2', 'i3'], '1.1', size=2,
                                   requires=[{'id': 'ba', 'version': '1'}, {'id': 'bb', 'version': '1'},
                                             {'id': 'old', 'version': '1'}, {'id': 'gr', 'version': '1'}])
        # a lexicon that has its taxonomy only through ILI expansion: ta has the hypernym chain, tb shares the ILIs
        def tl(lid, rel):
            lx = {'id': lid, 'label': lid, 'language': 'en', 'email': 'e', 'license': 'l', 'version': '1', 'meta': None,
                  'entries': [], 'synsets': []}
            for i in (1, 2, 3):
                rels = [{'target': '%s-%d' % (lid, i + 1), 'relType': 'hypernym', 'meta': None}] if (rel and i < 3) else []
                lx['synsets'].append({'id': '%s-%d' % (lid, i), 'ili': 'i9%d' % i, 'partOfSpeech': 'n', 'relations': rels,
                                      'meta': None})
                lx['entries'].append({'id': '%s-w%d' % (lid, i), 'meta': None,
                                      'lemma': {'writtenForm': 'tw%d' % i, 'partOfSpeech': 'n'},
                                      'senses': [{'id': '%s-w%d-s' % (lid, i), 'synset': '%s-%d' % (lid, i), 'meta': None}]})
            return (lid + ':1', {'lmf_version': '1.3', 'lexicons': [lx]})
        (mname, mres), mforms = morphy_lexicon()
        res = u + [(gname, gres), ('old:1', {'lmf_version': '1.1', 'lexicons': [v10]}),
                   ('dd:1', {'lmf_version': '1.1', 'lexicons': [multi]}), tl('ta', True), tl('tb', False), (mname, mres)]
        cfgs = coremodel.configs_for(rng, names, small=False)[:5] + [{'lexicon': 'dd:1'}, {'lexicon': 'old:1 dd:1'},
                                                                    {'lexicon': 'mo:1', 'lemmatizer': 'morphy'},
                                                                    {'lexicon': 'mo:1', 'lemmatizer': 'morphy_init'}]
        cases.append({'resources': res, 'configs': cfgs,
                      'searches': [[rng.choice(coremodel.SEARCH_FORMS), rng.choice([None, 'n', 'v'])] for _ in range(8)]
                      + [[f, None] for f in mforms] + [[f, 'v'] for f in mforms[:4]],
                      'translate_to': [{'lexicon': rng.choice(names)}, {'lang': 'en'}],
                      'graph': {'spec': 'gr:1', 'corpus': corpus},
                      'ic_configs': [['tb:1', 'ta:1'], ['tb:1', ''], ['ta:1', '']],
                      'ic_corpus': ['tw1', 'tw1', 'tw2', 'tw3', 'nothing'],
                      'validate': [r['lexicons'][0] for n_, r in res if not r['lexicons'][0].get('extends')][:4],
                      'dump': [r for n_, r in res][:4],
                      'export': [[n_, v] for n_, r in res if not r['lexicons'][0].get('extends') for v in ('1.0', '1.1')]})
    from concurrent.futures import ThreadPoolExecutor
    with ThreadPoolExecutor(max_workers=common.NPROC) as ex:
        # every other process issues the calls in the opposite order (a call must not influence a later one)
        results = list(ex.map(lambda s: common.run_impl('run_C16.py', {'cases': cases, 'reverse_first': seeds.index(s) % 2 == 1},
                                                        hashseed=s), seeds))
    nontriv = set()
    for ci, case in enumerate(cases):
        ref = results[0][ci]
        cs = {'resources': [n_ for n_, _ in case['resources']], 'configs': case['configs'], 'documents': case['resources']}
        for s, r in zip(seeds, results):
            rec = r[ci]
            if not rec['repeat_equal']:
                rep.fail('the same calls repeated in one process give different results', dict(cs, PYTHONHASHSEED=s), {})
            rounds = rec.get('altered_schema_rounds')
            if rounds and any(r_ != rounds[0] for r_ in rounds[1:]):
                rep.fail('on a database whose schema is not the expected one, the same read-only calls give different results '
                         'the first time and later (a refused call changed what later calls do)', dict(cs, PYTHONHASHSEED=s),
                         {'rounds': rounds})
            if not rec['db_unchanged']:
                rep.fail('read-only calls changed the database', dict(cs, PYTHONHASHSEED=s), {})
            if rec['sha'] != ref['sha']:
                rep.fail('results differ between processes (PYTHONHASHSEED / order of the read-only calls)', dict(cs, seeds=[seeds[0], s]),
                         first_diff(ref['transcript'], rec['transcript']))
                break
        nontriv.add(common.canon_hash(cs['resources'] + [str(case['configs'])]))
    rep.coverage.update({
        'evaluations': len(cases) * len(seeds) * 2,
        'distinct_nontrivial': len(nontriv),
        'rule': 'databases with plain, dependent (several dependencies), second-version and extension lexicons plus a hypernym '
                'graph lexicon with words; the battery = full observation of 9 Wordnet configurations (two with a Morphy lemmatizer, initialized and not, over a lexicon whose lemmas exist for several parts of speech, searched without pos) (every query, navigation, '
                'relation, closure, path, search and translation call), taxonomy and similarity for all synset pairs with and '
                'without simulate_root, ic.compute (incl. key order) and IC metrics, validate reports (item order), dump bytes and '
                'export bytes in 1.0 and 1.1; run under PYTHONHASHSEED in %s and twice per process; transcripts compared as bytes; '
                'non-trivial = distinct databases' % seeds,
        'transcript_bytes': len(results[0][0]['transcript']),
    })
    rep.samples.append({'resources': [n_ for n_, _ in cases[0]['resources']], 'seeds': seeds,
                        'transcript_head': results[0][0]['transcript'][:300]})
