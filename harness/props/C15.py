"""C15 — information-content weights are conserved, counted once and monotone."""
import math
import random
from fractions import Fraction
import common
import graphs as G

TRUSTED = [
    'modelled, not verified: IEEE-754 addition/division (weights are exact rationals in the model; the generator '
    'only produces weights and sums that are exactly representable, which the harness checks with fractions.Fraction), '
    'math.log (an arbitrary antitone function with nlog 1 = 0 in the theorems), collections.Counter, '
    'wordnet.synsets(word) (an input of the model; its result is checked by the oracle against the declared words)',
    'ic.load: the model takes tokenised lines (synset number, class, exact rational weight, ROOT flag); splitting the text '
    'lines and float() are done by the harness and checked only by the oracle on the implementation',
]
CLS = {'n': 0, 'v': 1, 'a': 2, 's': 2, 'r': 3}
ICPOS = {'n': 0, 'v': 1, 'a': 2, 'r': 3}
FORMS = ['alpha', 'beta', 'gamma', 'delta', 'stone fruit', 'epsilon', 'zeta', 'eta', 'hot dog', 'theta']


def gen(rng, tier):
    gs = []
    k = 0
    shapes = [
        (4, [(1, 2), (1, 3), (2, 4), (3, 4)]),                                   # diamond
        (6, [(1, 2), (1, 3), (2, 4), (3, 4), (4, 5), (4, 6), (5, 6)]),          # deeper convergence
        (3, [(1, 2), (2, 3), (3, 1)]),                                           # cycle
        (3, [(1, 1), (1, 2)]),                                                   # self loop
        (5, [(1, 2), (2, 3), (4, 5)]),                                           # two trees
    ]
    n_random = 70 if tier == 'quick' else 8000
    specs = [(n, e, None) for n, e in shapes]
    for _ in range(n_random):
        n = rng.randint(2, 8)
        specs.append((n, G.random_edges(rng, n, rng.choice(['forest', 'dag', 'diamond', 'cyclic', 'sparse'])), None))
    for n, edges, _ in specs:
        pm = rng.choice(['n', 'n', 'v', 'as', 'as', 'r', 'nv', 'x'])
        g = G.mk_graph(k, n, edges, rng, pos_mode=pm if pm not in ('x',) else 'n')
        if pm == 'x':
            g['pos'] = [rng.choice(['n', 'n', 'x', 'u']) for _ in range(n)]
        # words: each form belongs to 1, 2 or 4 synsets (so count/num is dyadic)
        words = []
        forms = rng.sample(FORMS, rng.randint(1, min(5, len(FORMS))))
        for f in forms:
            m = rng.choice([1, 1, 2, 2, 3, 4])
            members = rng.sample(range(1, n + 1), min(m, n))
            words.append([f, members])
        if rng.random() < 0.4:
            # two words that differ only in case (May / may): a corpus token must be credited to its own word, which the
            # exact lookup finds before any normalisation
            f0 = words[0][0]
            if f0.lower() == f0 and f0.capitalize() != f0 and f0.capitalize() not in [w_[0] for w_ in words]:
                others = [i_ for i_ in range(1, n + 1) if i_ not in words[0][1]] or list(range(1, n + 1))
                words.append([f0.capitalize(), rng.sample(others, 1)])
        g['words'] = words
        jobs = []
        for _ in range(2 if tier == 'quick' else 3):
            corpus = []
            for f, members in words:
                if rng.random() < 0.8:
                    num = len(members)
                    c = rng.randint(1, 4) * (num if num == 3 else 1)
                    corpus += [f] * c
            corpus += ['unknownword'] * rng.randint(0, 2) + ['no such thing'] * rng.randint(0, 1)
            if words and rng.random() < 0.3:
                corpus += [words[0][0].upper()] * 2        # found through the normalizer
            rng.shuffle(corpus)
            jobs.append({'corpus': corpus, 'distribute': rng.random() < 0.6,
                         'smoothing': rng.choice([0.0, 1.0, 1.0, 0.5])})
        g['ic_jobs'] = jobs
        # a WordNet::Similarity style weights file
        lines = ['wnver::abc']
        for i in range(1, n + 1):
            if g['pos'][i - 1] in ICPOS and rng.random() < 0.7:
                # the spellings float() accepts, exponents included (same number of choices as before: the stream is unchanged)
                wt = rng.choice(['1', '2.5', '12', '2.5e-1', '1e+02'])
                lines.append('%d%s %s%s' % (i, g['pos'][i - 1], wt, ' ROOT' if rng.random() < 0.3 else ''))
        if k % 3 == 0 and len(lines) > 1:
            # the same synset listed twice (no random draw: the stream of the other choices stays as it was):
            # the later weight replaces the earlier one, and each ROOT line adds to the total
            lines.append(lines[1].split()[0] + ' 3' + (' ROOT' if k % 2 == 0 else ''))
        if k % 5 == 0:
            # synset number 1 listed under a part of speech that is not its own (again no random draw): the weight belongs
            # to freq[that pos], synset 1's own entry is untouched, and as a ROOT line it adds to that pos's total
            lines.append('1%s 7 ROOT' % ('v' if g['pos'][0] != 'v' else 'n'))
        g['ic_load'] = '\n'.join(lines) + '\n'
        gs.append(g)
        k += 1
    return gs


def frac(hexs):
    if hexs in ('inf', '-inf', 'nan'):
        return None
    return Fraction(float.fromhex(hexs))


def oracle(rep, g, rec, stats, pairs, load_pairs=None):
    n = g['n']
    adj = G.adj_of(n, g['plain_edges'])
    reach = {i: G.reach_set(adj, i) for i in range(1, n + 1)}
    cls = {i: CLS.get(g['pos'][i - 1], -1) for i in range(1, n + 1)}
    words_ = [(f, sorted(set(m))) for f, m in g['words']]

    def lookup(tok):
        """wordnet.synsets(token) per the documented search: forms equal to the token, or whose (different) normalised form
        equals it; only if nothing is found, the same with the normalised token"""
        def one(q):
            out = []
            for f, m in words_:
                if f == q or (f.lower() != f and f.lower() == q):
                    out += [x for x in m if x not in out]
            return sorted(out)
        r = one(tok)
        return r if r else one(tok.lower())

    class _Members(dict):
        def get(self, k, default=None):
            return lookup(k)
    members = _Members()
    mixed = any(cls[t] != cls[s] for s in range(1, n + 1) for t in reach[s])
    nontrivial = False
    for job, res in zip(g['ic_jobs'], rec['ic']):
        case = {'graph_k': g['k'], 'n': n, 'edges': g['plain_edges'], 'pos': g['pos'], 'words': g['words'],
                'corpus': job['corpus'], 'distribute': job['distribute'], 'smoothing': job['smoothing']}
        counts = {}
        for tok in job['corpus']:
            counts[tok] = counts.get(tok, 0) + 1
        if res[0] != 'ok':
            # KeyError is what the code does when a hypernym edge leaves the part-of-speech class
            # (outside the property's quantifier); anything else is a failure
            touched = any(cls[s] >= 0 and any(cls[t] != cls[s] for t in reach[s])
                          for tok in counts for s in members.get(tok, []))
            if not (res[1] == 'KeyError' and touched):
                rep.fail('ic.compute raised', case, {'got': res})
            else:
                stats['keyerror_cases'] = stats.get('keyerror_cases', 0) + 1
                pairs.append((model_input(g, rec, job, {t: members.get(t, []) for t in counts}, counts), -3))
            continue
        _, conv, synres, keyorder, icv = res
        sm = Fraction(job['smoothing'])
        # wordnet.synsets(word): declared members (case-insensitively through the normalizer)
        for tok in counts:
            if sorted(synres[tok]) != members.get(tok, []):
                rep.fail('wordnet.synsets(word) is not the declared synsets of the word', case,
                         {'token': tok, 'got': synres[tok], 'expected': members.get(tok, [])})
        # expected weights from the property text
        expF = {i: sm for i in range(1, n + 1) if cls[i] >= 0}
        expT = {c: sm for c in range(4)}
        exact = True
        for tok, c in counts.items():
            ss = members.get(tok, [])
            if not ss:
                continue
            wt = Fraction(c, len(ss)) if job['distribute'] else Fraction(c)
            if Fraction(float(wt)) != wt:
                exact = False
            for s in ss:
                if cls[s] < 0:
                    continue
                expT[cls[s]] += wt
                for t in reach[s]:
                    if t in expF:
                        expF[t] += wt
        got = {}
        gotT = {}
        keys_ok = set(conv) == set(ICPOS)
        if not keys_ok:
            rep.fail('ic.compute does not return one mapping per IC part of speech (satellite adjectives folded into a)',
                     case, {'keys': sorted(conv)})
            continue
        for p, d in conv.items():
            for kk, v in d.items():
                if kk == '':
                    gotT[ICPOS[p]] = frac(v)
                else:
                    got[int(kk)] = (ICPOS[p], frac(v))
        for i in expF:
            if i not in got or got[i][0] != cls[i]:
                rep.fail('a synset is missing from (or filed under the wrong part of speech in) the weights', case,
                         {'synset': i, 'pos': g['pos'][i - 1]})
        if set(got) - set(expF):
            rep.fail('synsets outside the IC parts of speech appear in the weights', case,
                     {'extra': sorted(set(got) - set(expF))})
        bad = [(i, str(got[i][1]), str(expF[i])) for i in expF if i in got and got[i][1] != expF[i]]
        badT = [(c, str(gotT.get(c)), str(expT[c])) for c in range(4) if gotT.get(c) != expT[c]]
        if (bad or badT) and exact:
            rep.fail('ic.compute weights differ from smoothing + sum of word weights over the synset and its ancestors (once each)',
                     case, {'synsets (id, got, expected)': bad[:6], 'totals (class, got, expected)': badT})
        elif (bad or badT):
            # inexact float sums: compare approximately
            for i, gv, ev in bad:
                if abs(float(Fraction(gv)) - float(Fraction(ev))) > 1e-9 * max(1.0, float(Fraction(ev))):
                    rep.fail('ic.compute weights differ (beyond float rounding)', case, {'synset': i, 'got': gv, 'expected': ev})
            stats['inexact_jobs'] = stats.get('inexact_jobs', 0) + 1
        # consequences stated by the property, checked on the implementation's own numbers
        if not mixed:
            for t in expF:
                for u in adj[t]:
                    if u in got and t in got and got[t][1] > got[u][1]:
                        rep.fail('weight decreases going up the taxonomy', case, {'hyponym': t, 'hypernym': u})
            if sm > 0:
                for t in expF:
                    if t not in got:
                        continue
                    pr = got[t][1] / gotT[cls[t]]
                    if not (0 < pr <= 1):
                        rep.fail('synset probability outside (0,1]', case, {'synset': t, 'p': str(pr)})
                    r = icv[str(t)]
                    if r[0] != 'ok':
                        rep.fail('information_content raised', case, {'synset': t, 'got': r})
                    else:
                        v = float.fromhex(r[1]) if r[1] not in ('inf', '-inf', 'nan') else float('nan')
                        if not (v >= 0 or v == 0):
                            rep.fail('information content is negative', case, {'synset': t, 'ic': r[1]})
                        if v != -math.log(float(got[t][1]) / float(gotT[cls[t]])):
                            rep.fail('information_content is not -log(freq/N)', case, {'synset': t, 'ic': r[1]})
                        for u in adj[t]:
                            ru = icv[str(u)]
                            if ru[0] == 'ok' and float.fromhex(ru[1]) > v:
                                rep.fail('information content is larger for a hypernym than for its hyponym', case,
                                         {'hyponym': t, 'hypernym': u})
        if any(len(reach[s]) > 2 for tok in counts for s in members.get(tok, [])):
            nontrivial = True
        # every exactly representable job goes to the model, whether or not the oracle above agreed: a change of compute()
        # then shows as a broken correspondence as well as an oracle failure
        if exact and all(i in got for i in expF) and all(c in gotT for c in range(4)):
            impl = [[[i, got[i][1].numerator, got[i][1].denominator] for i in sorted(expF)],
                    [[c, gotT[c].numerator, gotT[c].denominator] for c in range(4)]]
            pairs.append((model_input(g, rec, job, synres, counts), impl))
    # load()
    if 'ic_load' in rec:
        res = rec['ic_load']
        case = {'graph_k': g['k'], 'file': g['ic_load'], 'pos': g['pos']}
        if res[0] != 'ok':
            rep.fail('ic.load raised on a well-formed weights file', case, {'got': res})
        else:
            expF = {}
            expT = {c: Fraction(0) for c in range(4)}
            for ln in g['ic_load'].splitlines()[1:]:
                parts = ln.split()
                i, p, wt = int(parts[0][:-1]), parts[0][-1], Fraction(parts[1])
                expF[(ICPOS[p], i)] = wt
                if len(parts) > 2:
                    expT[ICPOS[p]] += wt
            gotF = {}
            gotT = {}
            for p, d in res[1].items():
                for kk, v in d.items():
                    if kk == '':
                        gotT[ICPOS[p]] = frac(v)
                    else:
                        gotF[(ICPOS[p], int(kk))] = frac(v)
            for key_, v in gotF.items():
                if v != expF.get(key_, Fraction(0)):
                    rep.fail('ic.load does not give a listed synset the file\'s weight (or an unlisted one 0)', case,
                             {'synset': key_, 'got': str(v)})
            for key_ in expF:
                if key_ not in gotF:
                    rep.fail('ic.load drops a listed synset', case, {'synset': key_})
            # correspondence case for Model/Ic.v run_load: the table of the wordnet's synsets and the tokenised lines
            tbl = [[i, CLS.get(g['pos'][i - 1], -1)] for i in range(1, g['n'] + 1)]
            mlines = []
            for ln in g['ic_load'].splitlines()[1:]:
                parts = ln.split()
                wt = Fraction(parts[1])
                mlines.append([int(parts[0][:-1]), ICPOS.get(parts[0][-1], -1), wt.numerator, wt.denominator,
                               len(parts) > 2])
            byid = {i: v for (c_, i), v in gotF.items() if CLS.get(g['pos'][i - 1], -1) == c_}
            implL = [[[i, byid[i].numerator, byid[i].denominator] for i, c_ in tbl if c_ >= 0 and i in byid],
                     [[c_, gotT.get(c_, Fraction(-1)).numerator, gotT.get(c_, Fraction(-1)).denominator]
                      for c_ in range(4)]]
            if load_pairs is not None:
                load_pairs.append(([tbl, mlines], implL))
            if gotT != expT:
                rep.fail('ic.load totals are not the sums of the ROOT lines', case,
                         {'got': {k_: str(v) for k_, v in gotT.items()}, 'expected': {k_: str(v) for k_, v in expT.items()}})
    return nontrivial


def model_input(g, rec, job, synres, counts):
    n = g['n']
    graph = [[i, rec['hyp'][str(i)]] for i in range(1, n + 1)]
    tbl = [[i, CLS.get(g['pos'][i - 1], -1)] for i in range(1, n + 1)]
    sm = Fraction(job['smoothing'])
    corpus = []
    seen = []
    for tok in job['corpus']:            # Counter order = first occurrence
        if tok not in seen:
            seen.append(tok)
            corpus.append([counts[tok], list(synres[tok])])
    return [graph, tbl, job['distribute'], [sm.numerator, sm.denominator], corpus]


def run(rep, tier, build, replay=None):
    rng = random.Random(common.seed() * 7919 + 15)
    gs = gen(rng, tier)
    shards = common.shard_dbs(gs, 24)
    outs = common.run_impl_parallel('run_graph.py', [{'dbs': s, 'want': ['ic']} for s in shards])
    byk = {rec['k']: rec for o in outs for rec in o}
    stats = {}
    pairs = []
    load_pairs = []
    nontriv = set()
    for g in gs:
        if oracle(rep, g, byk[g['k']], stats, pairs, load_pairs):
            nontriv.add(common.canon_hash([g['plain_edges'], g['words'], g['pos']]))
    mism, info = common.coq_mismatches('WnV.Model.Ic', 'run_ic', 'agree_ic', pairs, tag='c15', shard=150)
    if info['errors']:
        rep.broke('correspondence evaluation failed in Coq: ' + '; '.join(info['errors'])[:1500])
    if mism:
        ex = [{'input': pairs[i][0], 'impl': pairs[i][1]} for i in mism[:2]]
        rep.broke('correspondence Model/Ic.v vs wn.ic.compute: %d of %d cases differ; first: %s; model says: %s'
                  % (len(mism), len(pairs), ex, info.get('model_outputs', '')[:2000]))
    mismL, infoL = common.coq_mismatches('WnV.Model.Ic', 'run_load', 'agree_ic', load_pairs, tag='c15l', shard=300)
    if infoL['errors']:
        rep.broke('correspondence evaluation (ic.load) failed in Coq: ' + '; '.join(infoL['errors'])[:1500])
    if mismL:
        ex = [{'input': load_pairs[i][0], 'impl': load_pairs[i][1]} for i in mismL[:2]]
        rep.broke('correspondence Model/Ic.v run_load vs wn.ic.load: %d of %d cases differ; first: %s; model says: %s'
                  % (len(mismL), len(load_pairs), ex, infoL.get('model_outputs', '')[:2000]))
    rep.coverage.update({
        'load_evaluations': len(load_pairs),
        'load_correspondence_mismatches': len(mismL),
        'evaluations': len(pairs),
        'distinct_nontrivial': len(nontriv),
        'rule': 'hypernym graphs (diamond, deeper convergence, cycle, self-loop, forest + random forests/DAGs/diamonds/cyclic/'
                'sparse up to 8 nodes) with words attached to 1-4 synsets; corpora = multisets of known, ambiguous, multi-word, '
                'upper-cased and unknown tokens x distribute_weight x smoothing in {0, 0.5, 1}; plus one weights file per graph '
                'for ic.load; non-trivial = distinct (graph, words) where a corpus word synset has at least two ancestors',
        'graphs': len(gs),
        'jobs': sum(len(g['ic_jobs']) for g in gs),
        'traces_validated_against_impl': len(pairs),
        'correspondence_mismatches': len(mism),
        'stats': stats,
        'coq_eval_wall_s': round(info['wall'], 1),
    })
    g = gs[0]
    rep.samples.append({'edges': g['plain_edges'], 'words': g['words'], 'job': g['ic_jobs'][0],
                        'impl': byk[g['k']]['ic'][0][:2]})
