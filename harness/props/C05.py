"""C05 — database content depends only on which lexicons are installed."""
import copy
import random
import common
import gendoc
import expect
import canon
from props.C08 import documented

TRUSTED = [
    'the oracle simulates which lexicons are installed from the operation history alone and compares the final database with a '
    'fresh database holding just those lexicons; SQLite foreign-key enforcement and cascades are exercised, not modelled, here '
    '(they are modelled generically from the schema in Model/Add.v)',
]
ILI_FILES = ['ILI\tstatus\tdefinition\ni1\tactive\tfirst\ni2\tdeprecated\t\ni9\tactive\tnine\n',
             'ili\tstatus\ni3\tprovisional\ni1\tactive\n']


def simulate(history, universe):
    """installed lexicons (id, version, lang) in order of addition, per the property's reading of add/remove"""
    res = dict(universe)
    installed = []
    outcomes = []
    ever_removed_ext = False
    for op in history:
        if op[0] == 'add':
            for lx in res[op[1]]['lexicons']:
                key = (lx['id'], lx['version'])
                if any((i, v) == key for i, v, _ in installed):
                    continue
                b = lx.get('extends')
                if b and not any((i, v) == (b['id'], b['version']) for i, v, _ in installed):
                    continue
                installed.append((lx['id'], lx['version'], lx['language']))
            outcomes.append('ok')
        elif op[0] == 'remove':
            sel = documented(installed, op[1], None)
            if not sel and op[1].strip() != '*':
                outcomes.append('WnError')
                continue
            # plus every extension, transitively
            gone = set(sel)
            changed = True
            while changed:
                changed = False
                for name, r in universe:
                    for lx in r['lexicons']:
                        b = lx.get('extends')
                        k = (lx['id'], lx['version'])
                        if b and (b['id'], b['version']) in gone and k not in gone and any((i, v) == k for i, v, _ in installed):
                            gone.add(k)
                            changed = True
            if any(next((lx for _n, r in universe for lx in r['lexicons'] if (lx['id'], lx['version']) == k), {}).get('extends')
                   for k in gone):
                ever_removed_ext = True
            installed = [x for x in installed if (x[0], x[1]) not in gone]
            outcomes.append('ok')
        elif op[0] == 'badadd':
            outcomes.append('WnError')       # rejected as a whole: nothing is installed
        else:
            outcomes.append('ok')
    return installed, outcomes, ever_removed_ext


def broken_resource(rng):
    """a lexicon that add() rejects part-way through (a sense relation whose target does not exist): the failed add must
    not influence what later operations do"""
    lx = gendoc.gen_lexicon(rng, 'qq', '1', 'en', ['i1', 'i2'], '1.1', size=3)
    senses = [s_ for e in lx['entries'] for s_ in e.get('senses', [])]
    senses[-1].setdefault('relations', []).append({'target': 'qq-no-such-sense', 'relType': 'antonym', 'meta': None})
    return {'lmf_version': '1.1', 'lexicons': [lx]}


def gen_history(rng, tier, scenario=None):
    scenario = scenario or rng.choice(['random', 'random', 'provider_swap', 'ext_cycle', 'readd', 'failed_add', 'dep_on_ext'])
    force = {'provider_swap': {'dep', 'v2'}, 'ext_cycle': {'ext'}, 'readd': {'ext', 'dep'},
             'dep_on_ext': {'ext', 'dep'}}.get(scenario)
    u = gendoc.gen_universe(rng, size=2, ext_forms=True, force=force)
    names = [n for n, _ in u]
    if scenario == 'dep_on_ext':
        # a lexicon that requires a lexicon *extension*; the dependent is installed before, between or after base and
        # extension, and the extension is removed and added again: the provider link must name the extension itself
        bb = dict(u)['bb:1']['lexicons'][0]
        bb['requires'] = [r_ for r_ in bb.get('requires', []) if r_['id'] != 'xa'] + [{'id': 'xa', 'version': '1'}]
        rng.shuffle(bb['requires'])
        hist = rng.choice([[['add', 'bb:1'], ['add', 'ba:1'], ['add', 'xa:1']],
                           [['add', 'ba:1'], ['add', 'bb:1'], ['add', 'xa:1']],
                           [['add', 'ba:1'], ['add', 'xa:1'], ['add', 'bb:1'], ['remove', 'xa:1'], ['add', 'xa:1']]])
        if rng.random() < 0.4:
            hist = hist + [['remove', 'xa:1']]
        return u, hist
    if scenario == 'provider_swap':
        hist = [['add', 'ba:1'], ['add', 'bb:1'], ['remove', 'ba:1'], ['add', 'ba:2']]
        if rng.random() < 0.5:
            hist += [['add', 'ba:1']]
        return u, hist
    if scenario == 'ext_cycle':
        hist = [['add', n] for n in names] + [['remove', 'xa:1']]
        if rng.random() < 0.6:
            hist += [['add', 'xa:1']]
        if rng.random() < 0.4:
            hist += [['remove', 'ba:1'], ['add', 'ba:1']]
        return u, hist
    if scenario == 'failed_add':
        first = names[0]
        hist = [['add', first], ['badadd', broken_resource(rng)], ['remove', first]] + [['add', n] for n in names[1:]]
        if rng.random() < 0.5:
            hist += [['add', first]]
        return u, hist
    if scenario == 'readd':
        hist = [['add', n] for n in names] + [['remove', rng.choice(names)], ['add', rng.choice(names)]] \
            + [['remove', 'ba:*'], ['add', 'ba:1'], ['add', 'xa:1']]
        return u, hist
    hist = []
    for _ in range(rng.randint(3, 10 if tier == 'quick' else 25)):
        r = rng.random()
        if r < 0.08:
            hist.append(['badadd', broken_resource(rng)])
        elif r < 0.55:
            hist.append(['add', rng.choice(names)])
        elif r < 0.9:
            n = rng.choice(names)
            i, v = n.split(':')
            hist.append(['remove', rng.choice([n, n, i, i + ':*', '*:' + v, i[0] + '*', i[0] + '?:' + v, n + ' ' + rng.choice(names),
                                               'zz:1', '*'])])
        else:
            hist.append(['ili', rng.choice(ILI_FILES)])
    return u, hist


def corpus_f3():
    """corpus history (runs first, every time): the witness of known finding F3 — an extension attaches a tag and a
    pronunciation to the lemma of a base entry and is then removed"""
    def lex(lid, **kw):
        d = {'id': lid, 'label': lid, 'language': 'en', 'email': 'e', 'license': 'l', 'version': '1', 'meta': None,
             'entries': [], 'synsets': []}
        d.update(kw)
        return d
    base = lex('fb', entries=[{'id': 'fb-e1', 'meta': None,
                               'lemma': {'writtenForm': 'cat', 'partOfSpeech': 'n', 'tags': [{'text': 'sg', 'category': 'number'}]},
                               'senses': [{'id': 'fb-e1-s1', 'synset': 'fb-s1', 'meta': None}]}],
               synsets=[{'id': 'fb-s1', 'ili': '', 'partOfSpeech': 'n', 'meta': None}])
    ext = lex('fx', extends={'id': 'fb', 'version': '1'},
              entries=[{'id': 'fb-e1', 'external': True,
                        'lemma': {'external': True, 'tags': [{'text': 'pl', 'category': 'number'}],
                                  'pronunciations': [{'text': 'kat', 'notation': 'ipa'}]}}])
    u = [('fb:1', {'lmf_version': '1.1', 'lexicons': [base]}), ('fx:1', {'lmf_version': '1.1', 'lexicons': [ext]})]
    return u, [['add', 'fb:1'], ['add', 'fx:1'], ['remove', 'fx:1']]


def strip_children(c):
    c = copy.deepcopy(c)
    kids = {}
    for k, y in c.get('synsets', {}).items():
        # the shared ILI inventory (status, definition of existing ILIs) is not per-lexicon content
        if y['ili'][0] == 'ok' and y['ili'][1] is not None and y['ili'][1][1] is not None:
            y['ili'] = ['ok', ['I', y['ili'][1][1]]]
    for k, w in c.get('words', {}).items():
        kids[k] = [[f[3], f[4]] for f in w['forms']]
        w['forms'] = [f[:3] for f in w['forms']]
    return c, kids


def audit_tables(rep, tables, schema, case, step):
    rowids = {t: {r[0] for r in rows} for t, rows in tables.items()}
    for t, cols, fks, _u in schema:
        names = ['rowid'] + [c[0] for c in cols if c[0] != 'rowid']
        for col, parent, pcol, _act in fks:
            if col not in names:
                continue
            ci = names.index(col)
            for r in tables.get(t, []):
                if r[ci] is not None and r[ci] not in rowids.get(parent, set()):
                    rep.fail('dangling reference left in the database', dict(case, step=step),
                             {'table': t, 'column': col, 'row': r, 'parent': parent})
                    return


def run(rep, tier, build, replay=None):
    rng = random.Random(common.seed() * 7919 + 5)
    if build.probe is None:
        rep.broke('no probe of the source tree (schema needed for the audit)')
        return
    schema = build.probe['SCHEMA']
    n = 48 if tier == 'quick' else 700
    cases = [corpus_f3(), gen_history(rng, tier, 'dep_on_ext')] + [gen_history(rng, tier) for _ in range(n - 2)]
    hs = []
    fresh = []
    sims = []
    for u, hist in cases:
        res = dict(u)
        installed, outcomes, rem_ext = simulate(hist, u)
        sims.append((installed, outcomes, rem_ext))
        uni = expect.Universe([(n_, res[n_]) for n_ in ['%s:%s' % (i, v) for i, v, _ in installed]])
        cfgs = [{'lexicon': ' '.join(reversed(uni.chain(sp))), 'expand': ''} for sp in uni.order] + [{}]
        ops = []
        for op in hist:
            if op[0] == 'add':
                ops.append(['add', res[op[1]]])
            elif op[0] == 'badadd':
                ops.append(['add', op[1]])
            else:
                ops.append(op)
        hs.append({'ops': ops, 'final_configs': cfgs, 'lexrows': True, 'deep': True})
        fresh.append({'ops': [['add', res['%s:%s' % (i, v)]] for i, v, _ in installed],
                      'final_configs': cfgs, 'lexrows': False, 'deep': True})
    nsh = common.NPROC
    outs = common.run_impl_parallel('run_trace.py', [{'histories': hs[i::nsh]} for i in range(nsh)])
    outs2 = common.run_impl_parallel('run_trace.py', [{'histories': fresh[i::nsh]} for i in range(nsh)])
    recs = [None] * n
    recs2 = [None] * n
    for i in range(nsh):
        for j, r in enumerate(outs[i]):
            recs[i + j * nsh] = r
        for j, r in enumerate(outs2[i]):
            recs2[i + j * nsh] = r
    nontriv = set()
    stats = {}
    for (u, hist), (installed, outcomes, rem_ext), rec, rec2 in zip(cases, sims, recs, recs2):
        case = {'universe': [n_ for n_, _ in u], 'history': hist, 'resources': dict(u)}
        got_out = [s['outcome'] for s in rec['steps']]
        if got_out != outcomes:
            rep.fail('an operation of the history had an unexpected outcome', case, {'got': got_out, 'expected': outcomes})
            continue
        for k, s in enumerate(rec['steps']):
            audit_tables(rep, s['after'], schema, case, k)
        if rec['fk_check'] or rec['integrity'] != ['ok']:
            rep.fail('foreign-key or integrity check fails on the final database', case,
                     {'fk': rec['fk_check'][:5], 'integrity': rec['integrity'][:3]})
        got_inst = sorted('%s:%s' % (r['id'], r['version']) for r in rec['final_lexicons'])
        exp_inst = sorted('%s:%s' % (i, v) for i, v, _ in installed)
        if got_inst != exp_inst:
            rep.fail('the installed lexicons are not those the history leaves (a removal takes the lexicon and all its '
                     'extensions, nothing else)', case, {'got': got_inst, 'expected': exp_inst})
            continue
        la, lb = canon.canon_lexrows(rec['final_lexicons']), canon.canon_lexrows(rec2['final_lexicons'])
        d = canon.diff(la, lb)
        if d:
            rep.fail('lexicon attributes or dependency links (requires/extends/extensions) differ from a fresh database '
                     'with the same lexicons', case, {'difference': d})
        for ca, cb, cfg in zip(rec['final_obs'], rec2['final_obs'], hs[0]['final_configs'] if False else
                               [None] * len(rec['final_obs'])):
            a, ka = strip_children(canon.canon_obs(ca, rec['final_lexicons']))
            b, kb = strip_children(canon.canon_obs(cb, rec2['final_lexicons']))
            d = canon.diff(a, b)
            if d:
                rep.fail('observable content differs from a fresh database holding the installed lexicons', case,
                         {'difference': d})
                break
            d2 = canon.diff(ka, kb)
            if d2:
                if rem_ext:
                    rep.known('F3', 'tags/pronunciations an extension attached to forms of its base survive the removal of '
                              'the extension (tables tags/pronunciations have no lexicon column)', case, {'difference': d2})
                    stats['F3'] = stats.get('F3', 0) + 1
                else:
                    rep.fail('form tags/pronunciations differ from a fresh database holding the installed lexicons', case,
                             {'difference': d2})
                break
        if any(op[0] == 'remove' for op in hist) and installed:
            nontriv.add(common.canon_hash(hist + [case['universe']]))
    import addmodel
    pb = {'run_add': [], 'run_remove': [], 'run_add_ili': []}
    clean = [(h, rec) for (h, rec), (_u, hist) in zip(zip(hs, recs), cases) if not any(op[0] == 'badadd' for op in hist)]
    for h, rec in clean[:(14 if tier == 'quick' else 200)]:
        for fn, ps in addmodel.trace_pairs(h['ops'], rec).items():
            pb[fn] += ps
    addmodel.run_correspondence(rep, common, pb, 'c05')
    rep.coverage.update({
        'evaluations': n,
        'distinct_nontrivial': len(nontriv),
        'rule': 'histories of 3-%d operations add(resource) / add(a resource that is rejected part-way) / remove(specifier: id:version, id, id:*, *:version, globs, lists, '
                'unknown, *) / add(ILI file) over generated universes (bases, dependent lexicon, second version reusing ids, '
                'extension, extension of the extension, unrelated lexicon), starting from an empty database; after every step '
                'a generic foreign-key audit of all tables; at the end PRAGMA foreign_key_check/integrity_check, the installed '
                'set against a simulation of the history, and the full per-lexicon observation + dependency links against a '
                'fresh database with just the installed lexicons; non-trivial = distinct histories with a removal that leave '
                'lexicons installed' % (10 if tier == 'quick' else 25),
        'stats': stats,
    })
    rep.samples.append({'universe': cases[0][0] and [n_ for n_, _ in cases[0][0]], 'history': cases[0][1]})
