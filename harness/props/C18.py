"""C18 — the validator always produces a report and each check is exact."""
import random
import common

TRUSTED = [
    'modelled, not verified: collections.Counter, dict update/insertion order, str.strip(), itertools.chain; the check table '
    '(codes, function names, docstrings) and the relation inventories are regenerated from the source on every run',
]
SYN_RELS = ['hypernym', 'hyponym', 'instance_hypernym', 'similar', 'antonym', 'also', 'mero_part', 'holo_part',
            'domain_topic', 'has_domain_topic', 'bogus_rel', 'eq_synonym', 'causes', 'is_caused_by']
SEN_RELS = ['antonym', 'derivation', 'also', 'similar', 'domain_topic', 'other', 'bogus_rel', 'pertainym', 'hypernym',
            'exemplifies', 'is_exemplified_by']
POS = ['n', 'v', 'a', 's', 'r']
TEXTS = ['a thing', 'another thing', '', ' ', '\t', 'a thing', 'to do', 'x', '　', 'a  thing']


def gen_lex(rng, size):
    lid = rng.choice(['vx', 'lex', 'e1'])
    ns = rng.randint(1, size)
    ne = rng.randint(0, size)
    ssids = ['%s-ss%d' % (lid, i) for i in range(ns)]
    if rng.random() < 0.3 and ns > 1:
        ssids[rng.randrange(ns)] = rng.choice(ssids)            # duplicate synset id
    sense_ids = []
    entries = []
    for i in range(ne):
        eid = '%s-e%d' % (lid, i) if rng.random() < 0.9 else rng.choice([lid, '%s-e0' % lid, ssids[0]])
        senses = []
        for j in range(rng.choice([0, 1, 1, 2, 3])):
            sid = '%s-s%d' % (eid, j) if rng.random() < 0.9 else rng.choice(sense_ids + [eid, 'dup-s'])
            sense_ids.append(sid)
            tgt = rng.choice(ssids) if rng.random() < 0.85 else rng.choice(['%s-missing' % lid, eid])
            senses.append({'id': sid, 'synset': tgt, 'relations': [], 'meta': None})
        forms = []
        for j in range(rng.choice([0, 0, 1, 2])):
            f = {'writtenForm': 'form%d' % j}
            if rng.random() < 0.5:
                f['id'] = rng.choice(['%s-f%d' % (eid, j), eid, 'dupform', ''])
            forms.append(f)
        entries.append({'id': eid, 'lemma': {'writtenForm': rng.choice(['cat', 'dog', 'run', 'w%d' % i]),
                                             'partOfSpeech': rng.choice(POS)},
                        'forms': forms, 'senses': senses, 'meta': None})
    all_ids = ssids + sense_ids + [e['id'] for e in entries]
    for e in entries:
        for s in e['senses']:
            for _ in range(rng.choice([0, 0, 1, 2, 3])):
                t = rng.choice(sense_ids + ssids) if rng.random() < 0.85 else rng.choice(['nowhere', s['id']])
                if rng.random() < 0.12:
                    t = s['id']
                r = {'target': t, 'relType': rng.choice(SEN_RELS), 'meta': None}
                if rng.random() < 0.25:
                    r['meta'] = {'type': rng.choice(['t1', 't2', ''])}
                s['relations'].append(r)
                if rng.random() < 0.2:
                    s['relations'].append(dict(r))                # redundant relation
    synsets = []
    ilis = ['i1', 'i2', 'i3', 'in', '', 'i1']
    for i, sid in enumerate(ssids):
        ss = {'id': sid, 'ili': rng.choice(ilis), 'meta': None, 'relations': []}
        if rng.random() < 0.9:
            ss['partOfSpeech'] = rng.choice(POS[:3])
        if rng.random() < 0.35:
            ss['ili_definition'] = {'text': rng.choice(TEXTS), 'meta': None}
        if rng.random() < 0.7:
            ss['definitions'] = [{'text': rng.choice(TEXTS), 'meta': None} for _ in range(rng.choice([1, 1, 2]))]
        if rng.random() < 0.5:
            ss['examples'] = [{'text': rng.choice(TEXTS), 'meta': None} for _ in range(rng.choice([1, 2]))]
        for _ in range(rng.choice([0, 1, 1, 2, 3])):
            t = rng.choice(ssids) if rng.random() < 0.85 else rng.choice(['gone', sid] + sense_ids[:1])
            r = {'target': t, 'relType': rng.choice(SYN_RELS), 'meta': None}
            if rng.random() < 0.2:
                r['meta'] = {'type': rng.choice(['t1', 't2'])}
            ss['relations'].append(r)
            if rng.random() < 0.15:
                ss['relations'].append(dict(r))
        if rng.random() < 0.3:
            # a members attribute (WN-LMF >= 1.1): it only ranks senses; whether a synset is empty is decided by the senses'
            # synset attributes, whatever this list names
            ss['members'] = rng.sample(sense_ids, min(len(sense_ids), rng.choice([1, 2]))) if sense_ids and rng.random() < 0.8 \
                else ['no-such-sense']
        synsets.append(ss)
    # sometimes make relations reciprocal so that W404 has misses and hits
    frames = []
    for j in range(rng.choice([0, 0, 1, 2, 3])):
        fr = {'subcategorizationFrame': 'frame %d' % j}
        if rng.random() < 0.7:
            fr['id'] = rng.choice(['fr%d' % j, 'fr0', lid, ''])
        frames.append(fr)
    lex = {'id': lid, 'label': 'l', 'language': 'en', 'email': 'e', 'license': 'l', 'version': '1', 'meta': None,
           'entries': entries, 'synsets': synsets, 'frames': frames}
    if rng.random() < 0.1:
        lex.pop('frames')
    if rng.random() < 0.05:
        lex.pop('entries')
    return lex


# ---------------------------------------------------------------- independent conditions
def expected(lex, rev, srel, ssrel, synrel):
    ents = lex.get('entries', [])
    syns = lex.get('synsets', [])
    senses = [(e, s) for e in ents for s in e.get('senses', [])]
    sense_ids = [s['id'] for _, s in senses]
    ssid_list = [ss['id'] for ss in syns]
    ex = {}
    allids = [lex['id']] + [f['id'] for e in ents for f in e.get('forms', []) if f.get('id')] \
        + [fr['id'] for fr in lex.get('frames', []) if fr.get('id')] + [e['id'] for e in ents] + sense_ids + ssid_list
    ex['E101'] = {(x, (('count', allids.count(x)),)) for x in set(allids) if allids.count(x) > 1}
    ex['W201'] = {(e['id'], ()) for e in ents if not e.get('senses')}
    w202 = {}
    for e in ents:
        tg = [s['synset'] for s in e.get('senses', [])]
        for s in e.get('senses', []):
            if tg.count(s['synset']) > 1:
                w202[s['id']] = (('entry', e['id']), ('synset', s['synset']))
    ex['W202'] = set(w202.items())
    pairs = [(e['lemma']['writtenForm'], s['synset']) for e, s in senses]
    w203 = {}
    seen = []
    for p in pairs:
        if p not in seen:
            seen.append(p)
    for f, sy in seen:
        if pairs.count((f, sy)) > 1:
            w203[f] = (('synset', sy),)
    ex['W203'] = set(w203.items())
    e204 = {}
    for _, s in senses:
        if s['synset'] not in ssid_list:
            e204[s['id']] = (('synset', s['synset']),)
    ex['E204'] = set(e204.items())
    used = {s['synset'] for _, s in senses}
    ex['W301'] = {(ss['id'], ()) for ss in syns if ss['id'] not in used}
    real = [ss['ili'] for ss in syns if ss['ili'] and ss['ili'] != 'in']
    w302 = {}
    for ss in syns:
        if ss['ili'] and ss['ili'] != 'in' and real.count(ss['ili']) > 1:
            w302[ss['id']] = (('ili', ss['ili']),)
    ex['W302'] = set(w302.items())
    ex['W303'] = {(ss['id'], ()) for ss in syns if ss['ili'] == 'in' and 'ili_definition' not in ss}
    ex['W304'] = {(ss['id'], (('ili_definitin', 1),)) for ss in syns
                  if ss['ili'] and ss['ili'] != 'in' and 'ili_definition' in ss}
    ex['W305'] = {(ss['id'], ()) for ss in syns if any(not d['text'].strip() for d in ss.get('definitions', []))}
    ex['W306'] = {(ss['id'], ()) for ss in syns if any(not d['text'].strip() for d in ss.get('examples', []))}
    alldefs = [d['text'] for ss in syns for d in ss.get('definitions', [])]
    ex['W307'] = {(ss['id'], ()) for ss in syns if any(alldefs.count(d['text']) > 1 for d in ss.get('definitions', []))}
    srels = [(s, r) for _, s in senses for r in s.get('relations', [])]
    ssrels = [(ss, r) for ss in syns for r in ss.get('relations', [])]

    def lastctx(pairs_):
        d = {}
        for k, v in pairs_:
            d[k] = v
        return set(d.items())
    rc = lambda r: (('type', r['relType']), ('target', r['target']))   # noqa
    ex['E401'] = lastctx([(s['id'], rc(r)) for s, r in srels if r['target'] not in sense_ids and r['target'] not in ssid_list]
                         + [(ss['id'], rc(r)) for ss, r in ssrels if r['target'] not in ssid_list])
    ex['W402'] = lastctx([(s['id'], rc(r)) for s, r in srels
                          if (r['target'] in sense_ids and r['relType'] not in srel)
                          or (r['target'] in ssid_list and r['relType'] not in ssrel)]
                         + [(ss['id'], rc(r)) for ss, r in ssrels if r['relType'] not in synrel])
    keys = [(x['id'], r['relType'], r['target'], (r.get('meta') or {}).get('type')) for x, r in srels + ssrels]
    order = []
    for k in keys:
        if k not in order:
            order.append(k)
    ex['W403'] = lastctx([(k[0], (('type', k[1]), ('target', k[2])) + ((('dc:type', k[3]),) if k[3] else ()))
                          for k in order if keys.count(k) > 1])
    regular = []
    for s, r in srels:
        if r['target'] in sense_ids:
            regular.append((s['id'], r['relType'], r['target']))
    for ss, r in ssrels:
        regular.append((ss['id'], r['relType'], r['target']))
    reg = []
    for t in regular:
        if t not in reg:
            reg.append(t)
    ex['W404'] = lastctx([(tgt, (('type', rev[typ]), ('target', src))) for src, typ, tgt in reg
                          if typ in rev and (tgt, rev[typ], src) not in reg])
    pos = {}
    for ss in syns:
        pos[ss['id']] = ss.get('partOfSpeech')
    ex['W501'] = lastctx([(ss['id'], rc(r)) for ss, r in ssrels
                          if r['relType'] == 'hypernym' and r['target'] in pos and ss.get('partOfSpeech') != pos[r['target']]])
    ex['W502'] = lastctx([(x['id'], rc(r)) for x, r in srels + ssrels if x['id'] == r['target']])
    return ex


FNAME = {1: 'count', 2: 'entry', 3: 'synset', 4: 'ili', 5: 'type', 6: 'target', 7: 'dc:type', 8: 'ili_definitin'}


def lex_to_model(lex):
    def rel(r):
        m = r.get('meta') or {}
        return [r['target'], r['relType'], ([m['type']] if 'type' in m else [])]
    ents = []
    for e in lex.get('entries', []):
        ents.append([e['id'], e['lemma']['writtenForm'], [f.get('id') or '' for f in e.get('forms', [])],
                     [[s['id'], s['synset'], [rel(r) for r in s.get('relations', [])]] for s in e.get('senses', [])]])
    syns = []
    for ss in lex.get('synsets', []):
        syns.append([ss['id'], ss['ili'], ([ss['partOfSpeech']] if 'partOfSpeech' in ss else []),
                     'ili_definition' in ss, [d['text'] for d in ss.get('definitions', [])],
                     [d['text'] for d in ss.get('examples', [])], [rel(r) for r in ss.get('relations', [])]])
    return [lex['id'], ents, syns, [fr.get('id') or '' for fr in lex.get('frames', [])], bool(lex.get('extends'))]


def run(rep, tier, build, replay=None):
    rng = random.Random(common.seed() * 7919 + 18)
    if build.probe is None:
        rep.broke('no probe of the source tree')
        return
    pr = build.probe
    codes = [c for c, _, _ in pr['VALIDATE_CODES']]
    docs = {c: d for c, _, d in pr['VALIDATE_CODES']}
    rev = dict(pr['REVERSE_RELATIONS'])
    n = 260 if tier == 'quick' else 5000
    cases = []
    for i in range(n):
        lex = gen_lex(rng, rng.choice([2, 3, 4, 6]))
        sels = [['E', 'W']]
        sels.append(rng.sample(codes, rng.randint(0, 4)) + rng.choice([[], ['E'], ['W'], ['X']]))
        cases.append({'lex': lex, 'selects': sels, 'try_add': True})
    # corpus: the W501 KeyError witness (F10) and an extension
    cases.insert(0, {'lex': {'id': 'x', 'label': 'x', 'language': 'en', 'email': 'e', 'license': 'l', 'version': '1',
                             'meta': None, 'entries': [],
                             'synsets': [{'id': 'x-1', 'ili': '', 'partOfSpeech': 'n', 'meta': None,
                                          'relations': [{'target': 'x-missing', 'relType': 'hypernym', 'meta': None}]}]},
                     'selects': [['E', 'W'], ['W501']], 'try_add': True})
    nsh = common.NPROC
    shards = [s for s in (cases[i::nsh] for i in range(nsh)) if s]
    outs = common.run_impl_parallel('run_C18.py', [{'cases': s} for s in shards])
    pairs = []
    hits = {}
    nontriv = set()
    for s, o in zip(shards, outs):
        for case, rec in zip(s, o):
            lex = case['lex']
            exp = expected(lex, rev, set(pr['SENSE_RELATIONS']), set(pr['SENSE_SYNSET_RELATIONS']),
                           set(pr['SYNSET_RELATIONS']))
            for sel, r in zip(case['selects'], rec['reports']):
                cs = {'lexicon': lex, 'select': sel}
                if r[0] != 'ok':
                    rep.fail('validate() raised instead of returning a report', cs, {'got': r})
                    pairs.append(([lex_to_model(lex), sel], -1))
                    continue
                want = [c for c in codes if c in sel or c[0] in sel]
                got_codes = [c for c, _, _ in r[1]]
                if got_codes != want:
                    rep.fail('the report does not contain exactly the selected checks', cs,
                             {'got': got_codes, 'expected': want})
                for code, msg, its in r[1]:
                    if msg != docs.get(code):
                        rep.fail('check message differs from its documented message', cs, {'code': code, 'got': msg})
                    g = {(k, tuple((FNAME.get(f, '?'), v) for f, v in c)) for k, c in its}
                    if code in exp and g != exp[code]:
                        rep.fail('check %s does not list exactly the entities satisfying its documented condition' % code,
                                 cs, {'spurious': sorted(map(str, g - exp[code]))[:5],
                                      'missed': sorted(map(str, exp[code] - g))[:5]})
                    if its:
                        hits[code] = hits.get(code, 0) + 1
                pairs.append(([lex_to_model(lex), sel],
                              [[code, [[k, [[f, v] for f, v in c]] for k, c in its]] for code, _, its in r[1]]))
            if rec['add'] is not None and (exp['E204'] or exp['E401']) and rec['add'][0] == 'ok':
                rep.fail('a lexicon with missing synsets / relation targets (E204, E401) is accepted by add',
                         {'lexicon': lex}, {'add': rec['add']})
            if sum(1 for c in exp if exp[c]) >= 2:
                nontriv.add(common.canon_hash(lex))
    mism, info = common.coq_mismatches('WnV.Model.Validate', 'run_validate', 'agree_validate', pairs, tag='c18', shard=60)
    if info['errors']:
        rep.broke('correspondence evaluation failed in Coq: ' + '; '.join(info['errors'])[:1500])
    if mism:
        ex = [{'input': pairs[i][0], 'impl': pairs[i][1]} for i in mism[:2]]
        rep.broke('correspondence Model/Validate.v vs wn.validate: %d of %d cases differ; first: %s; model says: %s'
                  % (len(mism), len(pairs), ex, info.get('model_outputs', '')[:2500]))
    rep.coverage.update({
        'evaluations': len(pairs),
        'distinct_nontrivial': len(nontriv),
        'rule': 'loadable non-extension lexicons of up to 6 entries / 6 synsets with injected faults of every kind (duplicate ids '
                'across kinds, dangling synset and relation references, empty synsets, repeated/spurious ILIs and ILI definitions, '
                'blank and repeated definitions/examples, self-loops, redundant and unreciprocated relations, invalid relation '
                'types, part-of-speech clashes, missing optional lists) x select = all / random subsets of codes and categories; '
                'each lexicon is also handed to add_lexical_resource; non-trivial = distinct lexicons on which at least two '
                'checks have items',
        'check_hit_counts': hits,
        'traces_validated_against_impl': len(pairs),
        'correspondence_mismatches': len(mism),
        'coq_eval_wall_s': round(info['wall'], 1),
    })
    rep.samples.append({'lexicon': cases[1]['lex'], 'select': cases[1]['selects'][1]})
