"""C11 — relation queries return exactly the declared relations; closures terminate."""
import common
import dbfam
import dboracles

TRUSTED = ['expected relations are computed from the generated documents; SQLite query planning (scan orders) is modelled in '
           'Model/Query.v and validated by correspondence']


def tweak(rng, u):
    # relations are this property's subject: no expand lexicons (that is C12's)
    u['interleave'] = True          # queries between the adds: nothing remembered from them may survive a later add
    for c in u['configs']:
        c['expand'] = ''


def run(rep, tier, build, replay=None):
    dbfam.run_family(rep, tier, 'C11', 11, [dboracles.oracle_relations], 40, 600, tweak)
    dbfam.run_tables_stream(rep, tier, 'C11', 1111, 6, 120, mode='', fuel=True)
    rep.coverage['rule'] = ('generated universes (plain lexicons, second versions, extensions adding relations to base senses '
                            'and synsets) with arbitrary sense-sense, sense-synset and synset-synset relation graphs (self-loops, '
                            'cycles, parallel relations of different type or dc:type, duplicates, non-standard types, metadata); '
                            'every entity x relation-type argument sets {none, single, several, *, unknown} x scopes (default mode, '
                            'single lexicon, base + extension, extension only, lang); non-trivial = distinct (universe, config) '
                            'with several lexicons selected')
