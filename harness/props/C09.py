"""C09 — word-form search follows the documented exact/normalized/lemmatized procedure."""
import common
import dbfam
import dboracles
import coremodel

TRUSTED = ['the expected matches are computed from the generated documents with the harness\'s own implementation of the '
           'documented normalisation (lower-case, NFKD, strip combining marks); the model receives normalize_form as a table']


def crafted(rng):
    # forms differing only in case / diacritics, shared across words and parts of speech, non-lemma forms
    lx = {'id': 'sf', 'label': 'search forms', 'language': 'en', 'email': 'e', 'license': 'l', 'version': '1', 'meta': None,
          'entries': [], 'synsets': []}
    words = [('Dog', 'n', ['Dogs']), ('dog', 'v', ['dogs', 'dogged']), ('Résumé', 'n', ['Résumés']), ('resume', 'v', ['resumed']),
             ('résumé', 'a', []), ('Pole', 'n', ['Poles']), ('pole', 'n', ['poles']), ('pole', 'v', ['poles', 'poled']),
             ('hot dog', 'n', ['hot dogs']), ('straße', 'n', [])]
    rng.shuffle(words)
    for i, (lemma, pos, forms) in enumerate(words):
        lx['synsets'].append({'id': 'sf-ss%d' % i, 'ili': '', 'partOfSpeech': pos, 'meta': None})
        lx['entries'].append({'id': 'sf-e%d' % i, 'meta': None, 'lemma': {'writtenForm': lemma, 'partOfSpeech': pos},
                              'forms': [{'writtenForm': f} for f in forms],
                              'senses': [{'id': 'sf-e%d-s' % i, 'synset': 'sf-ss%d' % i, 'meta': None}]})
    return ('sf:1', {'lmf_version': '1.1', 'lexicons': [lx]})


XFORMS = [['Hounds', 'hound'], ['mice'], ['Über'], ['uber', 'mice']]
LEM = {'cats': {'n': ['cat'], 'v': ['cat', 'cats']}, 'running': {'v': ['run'], '': ['running']}, 'ran': {'v': ['run', 'Ran']},
       'dogs': {'n': ['dog', 'Dog']}, 'Cat': {}, 'Dogs': {'n': ['Dog'], 'v': ['Dog']}, 'Poles': {'n': ['Pole'], 'v': ['Pole']},
       'Résumés': {'n': ['Résumé'], 'v': ['Résumé'], 'a': ['Résumé']}, 'poles': {'': ['pole', 'poles']}}


def tweak(rng, u):
    u['resources'].append(crafted(rng))
    # a second version that reuses every identifier: with both versions in scope, distinct entities share id strings
    import copy
    nm, r2 = copy.deepcopy(u['resources'][-1])
    r2['lexicons'][0]['version'] = '2'
    if rng.random() < 0.5:
        r2['lexicons'][0]['entries'] = r2['lexicons'][0]['entries'][::-1]
    u['resources'].append(('sf:2', r2))
    # an extension of sf:1 that adds further (non-lemma) forms to entries of its base: they are forms, not lemmas
    xent = []
    for k, e in enumerate(u['resources'][-2][1]['lexicons'][0]['entries'][:4]):
        xent.append({'id': e['id'], 'external': True,
                     'forms': [{'writtenForm': nf, 'id': 'sfx-f%d-%d' % (k, j)} for j, nf in enumerate(XFORMS[k])]})
    ext = {'id': 'sfx', 'label': 'ext of sf', 'language': 'en', 'email': 'e', 'license': 'l', 'version': '1', 'meta': None,
           'extends': {'id': 'sf', 'version': '1'}, 'entries': xent, 'synsets': []}
    u['resources'].append(('sfx:1', {'lmf_version': '1.1', 'lexicons': [ext]}))
    u['searches'] = [[f, p] for f in rng.sample(coremodel.SEARCH_FORMS, 10) + ['Dogs', 'Poles', 'Résumés', 'poles', 'POLE', 'Résumé', 'dogs', 'mice', 'Hounds', 'hound', 'uber', 'Über'] for p in rng.sample([None, None, 'n', 'v', 'a', 'x'], 2)]
    u['translate_to'] = None
    cfgs = []
    base = rng.choice([n for n, _ in u['resources']])
    for norm in (True, False):
        for allf in (True, False):
            for lem in (None, LEM, 'morphy', 'morphy_init'):
                c = {'lexicon': rng.choice([base, 'sf:1', 'sf:1']), 'expand': '', 'normalizer': norm, 'search_all_forms': allf}
                if lem:
                    c['lemmatizer'] = lem
                cfgs.append(c)
    rng.shuffle(cfgs)
    u['configs'] = cfgs[:9] + [{}, {'lang': 'en'}, {'lexicon': 'sf:1 sf:2', 'expand': ''},
                               {'lexicon': 'sf:*', 'expand': '', 'normalizer': rng.random() < 0.5, 'lemmatizer': LEM},
                               {'lexicon': 'sf:1', 'expand': ''},      # base only: the extension's forms are the witness of known finding F14
                               {'lexicon': 'sf:1 sfx:1', 'expand': '', 'search_all_forms': False},
                               {'lexicon': 'sf:1 sfx:1', 'expand': '', 'search_all_forms': True, 'normalizer': rng.random() < 0.5}]


def run(rep, tier, build, replay=None):
    def orc(rep_, cx, case, stats):
        if cx.cfg.get('lemmatizer') in ('morphy', 'morphy_init'):
            return          # Morphy-driven searches are decided by C17's oracle (union over proposals)
        dboracles.oracle_search(rep_, cx, case, stats)
    dbfam.run_family(rep, tier, 'C09', 9, [orc], 14, 200, tweak, corr_cap=(30, 400))
    rep.coverage['rule'] = ('lexicons whose forms differ only in case or diacritics, forms shared across words and parts of speech, '
                            'non-lemma forms, multi-word and non-Latin forms x queries (stored forms, case/diacritic variants, '
                            'near misses) x pos x normalizer on/off x search_all_forms on/off x {no lemmatizer, table lemmatizer, '
                            'Morphy uninitialized, Morphy initialized} in restricted and default mode; words/senses/synsets '
                            'compared with the documented procedure; non-trivial = distinct (universe, config) with several lexicons')
