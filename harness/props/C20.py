"""C20 — invalid WN-LMF is rejected as a whole; scans agree with full loads."""
import os
import random
import re
import common
import gendoc
import lmfgen
import lmfmut
import lmfmodel

TRUSTED = [
    'modelled, not verified: expat well-formedness checking (not-well-formed inputs are decided by the oracle only); the '
    'regular-expression pre-scan of scan_lexicons is compared with full loads by the oracle',
]
E10 = {'LexicalResource', 'Lexicon', 'LexicalEntry', 'Lemma', 'Form', 'Tag', 'Sense', 'SenseRelation', 'Example', 'Count',
       'SyntacticBehaviour', 'Synset', 'Definition', 'ILIDefinition', 'SynsetRelation'}
E11 = E10 | {'Requires', 'Extends', 'Pronunciation', 'LexiconExtension', 'ExternalLexicalEntry', 'ExternalLemma',
             'ExternalForm', 'ExternalSense', 'ExternalSynset'}
SINGLE = {'Lemma', 'ILIDefinition', 'Extends', 'ExternalLemma'}
DECL = '<?xml version="1.0" encoding="UTF-8"?>'
DOCT = '<!DOCTYPE LexicalResource SYSTEM "http://globalwordnet.github.io/schemas/WN-LMF-%s.dtd">'


def judge(text, rec):
    """independent verdict: 'reject', 'accept' or None (the property does not decide)"""
    lines = text.split('\n')
    l1 = lines[0].rstrip().replace("'", '"') if lines else ''
    l2 = lines[1].rstrip().replace("'", '"') if len(lines) > 1 else ''
    ver = None
    for v in ('1.0', '1.1', '1.2', '1.3'):
        if l2 == DOCT % v:
            ver = v
    header_ok = (l1 == DECL) and ver is not None
    if not header_ok:
        # only clear-cut cases: declaration or DOCTYPE missing / of an unsupported version
        if not l1.startswith('<?xml') or not l2.startswith('<!DOCTYPE') or 'WN-LMF-9' in l2:
            return 'reject', 'header'
        return None, 'header-variant'
    if rec['tree'][0] != 'ok':
        return 'reject', 'not well-formed'
    valid = E10 if ver == '1.0' else E11

    def walk(el):
        name = el[0]
        if name not in valid:
            return 'element %s does not exist in %s' % (name, ver)
        seen = set()
        for c in el[3]:
            if c[0] in SINGLE and c[0] in seen:
                return 'single-valued child %s repeated' % c[0]
            seen.add(c[0])
            r = walk(c)
            if r:
                return r
        attrs = {k for k, _ in el[1]}
        if name in ('Lexicon', 'LexiconExtension') and not {'id', 'version'} <= attrs:
            return 'lexicon without id/version'
        if name in ('LexicalEntry', 'Sense', 'Synset', 'ExternalLexicalEntry', 'ExternalSense', 'ExternalSynset') \
                and 'id' not in attrs:
            return '%s without id' % name
        return None
    r = walk(rec['tree'][1])
    if r:
        return 'reject', r
    return None, 'no decisive fault'


def run(rep, tier, build, replay=None):
    rng = random.Random(common.seed() * 7919 + 20)
    n = 25 if tier == 'quick' else 400
    jobs = []
    meta = []
    for _ in range(n):
        u = gendoc.gen_universe(rng, size=rng.choice([2, 3]))
        for name, res in u[:2]:
            text = lmfgen.to_xml(res, style=lmfgen.Style(random.Random(rng.randrange(1 << 30))))
            jobs.append({'kind': 'load', 'text': text, 'try_add': True})
            meta.append(('valid', 'generated', res))
            for _ in range(6 if tier == 'quick' else 12):
                d, t = lmfmut.mutate(rng, text)
                jobs.append({'kind': 'load', 'text': t, 'try_add': True})
                meta.append(('mutant', d, res))
            for d, t in lmfmut.drop_id_each_kind(rng, text):
                jobs.append({'kind': 'load', 'text': t, 'try_add': True})
                meta.append(('mutant', d, res))
    # scan-specific documents: attribute values that need decoding
    for label, ver in [('a &amp; b', '1&amp;2'), ("it's &quot;q&quot;", '1.0'), ('x &#65; &#x42;', '2'), ('a > b', '3'),
                       # references that HTML decoders remap or drop but XML keeps: C1 controls, DEL, noncharacters
                       ('Nouns &#150; Verbs &#146; &#x85;', '4'), ('del &#127; nonchar &#xFDD0; &#x9F;', '5&#x96;')]:
        text = lmfgen.to_xml({'lmf_version': '1.1', 'lexicons': [lmfgen.simple_lexicon('sc', 'VV', label='LL')]})
        text = text.replace('label="LL"', 'label="%s"' % label).replace('version="VV"', "version='%s'" % ver)
        jobs.append({'kind': 'load', 'text': text, 'try_add': True})
        meta.append(('valid', 'scan-decoding', None))
    outs = common.run_impl_parallel('run_lmf.py', [{'jobs': jobs[i::common.NPROC]} for i in range(common.NPROC)])
    recs = [None] * len(jobs)
    for i in range(common.NPROC):
        for j, rec in enumerate(outs[i]):
            recs[i + j * common.NPROC] = rec
    kinds = {}
    nontriv = set()
    for job, (kind, desc, res), rec in zip(jobs, meta, recs):
        text = job['text']
        case = {'mutation': desc, 'document': text}
        verdict, why = judge(text, rec)
        kinds[why.split(' ')[0] + ':' + str(verdict)] = kinds.get(why.split(' ')[0] + ':' + str(verdict), 0) + 1
        load_ok = rec['load'][0] == 'ok'
        add_ok = rec['add'][0] == 'ok'
        if kind == 'valid' and not load_ok:
            rep.fail('a valid generated document is rejected by load()', case, {'load': rec['load']})
        if verdict == 'reject':
            nontriv.add(common.canon_hash(text))
            if load_ok:
                rep.fail('load() accepts an invalid document (%s)' % why, case, {'load': 'ok'})
            # interpretation point (DESIGN.md): when the pre-scan finds only lexicons that are skipped (here:
            # extensions whose base is not installed in the fresh database) add() returns before reading the
            # file; nothing is stored, and no exception is demanded
            # (comments and CDATA sections are not markup: tag-like text inside them must not count — a false alarm of
            # this oracle after the generator started writing such comments, DESIGN.md E.6)
            bare = re.sub(r'<!--.*?-->|<!\[CDATA\[.*?\]\]>', '', text, flags=re.S)
            all_skipped = bool(re.search(r'<LexiconExtension\b', bare)) and not re.search(r'<Lexicon\b', bare)
            if add_ok and not (all_skipped and not rec['add'][1]):
                rep.fail('add() accepts an invalid document (%s)' % why, case, {'add': rec['add']})
        if not load_ok and add_ok and rec['add'][1]:
            rep.fail('add() stores lexicons from a file that load() rejects', case, {'add': rec['add'], 'load': rec['load']})
        if not add_ok and not rec['db_unchanged']:
            rep.fail('a rejected add changed the database', case, {'add': rec['add']})
        # is_lmf is true exactly for files whose header load() accepts
        lines = text.split('\n')
        l1 = lines[0].rstrip().replace("'", '"') if lines else ''
        l2 = lines[1].rstrip().replace("'", '"') if len(lines) > 1 else ''
        header_ok = l1 == DECL and any(l2 == DOCT % v for v in ('1.0', '1.1', '1.2', '1.3'))
        if rec['is_lmf'][0] != 'ok':
            rep.fail('is_lmf() raised', case, {'got': rec['is_lmf']})
        elif load_ok and not rec['is_lmf'][1]:
            rep.fail('is_lmf() is false for a file load() accepts', case, {})
        elif rec['is_lmf'][1] != header_ok and verdict is not None:
            rep.fail('is_lmf() disagrees with the header check', case, {'is_lmf': rec['is_lmf'], 'header_ok': header_ok})
        # scan_lexicons agrees with the full load
        if load_ok:
            full = [[lx['id'], lx['version'], lx.get('label'),
                     ([lx['extends']['id'], lx['extends']['version']] if lx.get('extends') else None)]
                    for lx in rec['load'][1]['lexicons']]
            if rec['scan'][0] != 'ok':
                rep.fail('scan_lexicons() raised on a loadable file', case, {'got': rec['scan']})
            else:
                sc = [[s['id'], s['version'], s['label'],
                       ([s['extends']['id'], s['extends']['version']] if s.get('extends') else None)]
                      for s in rec['scan'][1]]
                if sc != full:
                    rep.fail('scan_lexicons() differs from the lexicons of a full load', case,
                             {'scan': sc, 'load': full})
    # ---- the documents of Proofs/LmfRequired.v (one per assert / conversion of the _validate* functions, plus accepted
    # neighbours): the verdict proved for the model by vm_compute (`Example <name>_verdict`) is compared with the real
    # wn.lmf.load on the same document; a rejected one must also be rejected by wn.add() with the database unchanged
    import lmfreq_cases
    rq_verdict, rq_defs, rq_fault = lmfreq_cases.coq_verdicts(os.path.join(common.COQ, 'Proofs', 'LmfRequired.v'))
    rq_docs = lmfreq_cases.documents()
    rq_jobs = [{'kind': 'load', 'text': x, 'try_add': True} for _, _, x, _, _ in rq_docs]
    rq_outs = common.run_impl_parallel('run_lmf.py', [{'jobs': rq_jobs[i::common.NPROC]} for i in range(common.NPROC)])
    rq_recs = [None] * len(rq_jobs)
    for i in range(common.NPROC):
        for j, rec in enumerate(rq_outs[i]):
            rq_recs[i + j * common.NPROC] = rec
    CODE = {'LMFError': -1, 'AssertionError': -6, 'KeyError': -3}
    rq_bad = 0
    for (nm, ver, text, coqdef, pred), rec in zip(rq_docs, rq_recs):
        case = {'required-attribute case': nm, 'document': text}
        if rq_defs.get(nm) != coqdef or rq_verdict.get(nm, (None,))[0] != ver or (pred and rq_fault.get(nm) != pred):
            rep.broke('Proofs/LmfRequired.v no longer states the verdict of case %s of harness/lmfreq_cases.py' % nm)
            continue
        want = rq_verdict[nm][1]
        got = 0 if rec['load'][0] == 'ok' else CODE.get(rec['load'][1], -4)
        if got != want:
            rq_bad += 1
            if want != 0 and got == 0:
                rep.fail('load() accepts a document that lacks something the loader requires (%s%s)'
                         % (nm, ', ' + pred if pred else ''), case, {'load': 'ok', 'model': want})
            else:
                rep.broke('verdict of wn.lmf.load on case %s differs from the model (implementation %s, model code %d)'
                          % (nm, rec['load'], want))
        if rec['load'][0] != 'ok':
            nontriv.add(common.canon_hash(text))
            skipped = '<LexiconExtension' in text and '<Lexicon ' not in text
            if rec['add'][0] == 'ok' and not (skipped and not rec['add'][1]):
                rep.fail('add() accepts a document that load() rejects (%s)' % nm, case, {'add': rec['add']})
            if not rec['db_unchanged']:
                rep.fail('a rejected add changed the database (%s)' % nm, case, {'add': rec['add']})
    rep.coverage['required_attribute_cases'] = len(rq_docs)
    rep.coverage['required_attribute_verdict_mismatches'] = rq_bad
    recs = recs + rq_recs
    # tie of Model/Scan.v to wn.lmf.scan_lexicons: generated, mutated and crafted files (raw bytes in, list of infos or
    # error class out)
    import scanmodel
    sjobs = scanmodel.gen_jobs(random.Random(common.seed() * 7919 + 2020), 40 if tier == 'quick' else 400)
    souts = common.run_impl_parallel('run_scan.py', [{'jobs': sjobs[i::common.NPROC]} for i in range(common.NPROC) if sjobs[i::common.NPROC]])
    spairs = [pr for o in souts for pr in (scanmodel.to_pair(r_) for r_ in o) if pr is not None]
    spairs = [(list(a), b) for a, b in spairs]
    smism, sinfo = common.coq_mismatches('WnV.Model.Scan', 'run_scan', 'sx_agree_default', spairs, tag='c20scan', shard=6,
                                         want_model_out=False)
    if sinfo['errors']:
        rep.broke('scan correspondence evaluation failed in Coq: ' + '; '.join(sinfo['errors'])[:1500])
    if smism:
        rep.broke('correspondence Model/Scan.v vs wn.lmf.scan_lexicons: %d of %d files differ (first input starts: %s)'
                  % (len(smism), len(spairs), bytes(spairs[smism[0]][0][:200]).decode('utf-8', 'replace')))
    rep.coverage['scan_traces_validated_against_impl'] = len(spairs)
    rep.coverage['scan_correspondence_mismatches'] = len(smism)
    rep.coverage.update({
        'evaluations': len(jobs),
        'distinct_nontrivial': len(nontriv),
        'rule': 'valid generated documents (1.0/1.1/1.3, varied quoting) and single-fault mutations of them (attribute removed, '
                'element renamed / unknown / of another version, single-valued child duplicated, closing tag removed, XML '
                'declaration or DOCTYPE removed / altered, quoting style changed, required id removed); each is given to load(), '
                'is_lmf(), scan_lexicons() and wn.add() on a fresh database; non-trivial = distinct documents the property '
                'requires to be rejected',
        'verdict_kinds': kinds,
    })
    rep.samples.append({'mutation': meta[1][1], 'document_head': jobs[1]['text'][:300]})
    import props.C02 as C02
    C02.run_correspondence(rep, [], [lmfmodel.load_case(r) for r in recs])
