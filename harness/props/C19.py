"""C19 — loading an ILI index only updates ILI status and definitions."""
import itertools
import random
import common
import gendoc
import addmodel

TRUSTED = [
    'the oracle reads the ilis / ili_statuses tables and compares every other table before and after; the model of _add_ili '
    '(Model/Add.v add_ili) is compared with the real tables after every load',
]


def gen_ili_file(rng, prior=None):
    """prior: the expectation of an earlier file of the same case; the new file then re-lists some of its ids with the same
    status and another definition (an update that a 'did anything change?' shortcut keyed on the status would skip)"""
    header = rng.choice(['ili\tstatus\tdefinition', 'ILI\tstatus\tdefinition', 'ili\tdefinition', 'ILI\tstatus', 'ili'])
    if prior:
        header = rng.choice(['ili\tstatus\tdefinition', 'ILI\tstatus\tdefinition', 'ili\tdefinition'])
    cols = header.lower().split('\t')
    lines = [header]
    ids = rng.sample(['i%d' % k for k in range(1, 9)], rng.randint(2, 7))
    again = set()
    if prior:
        again = set(rng.sample(sorted(prior), min(len(prior), rng.randint(1, 3))))
        ids = ids + [i for i in sorted(again) if i not in ids]
        rng.shuffle(ids)
    expect_ = {}
    for i in ids:
        row = {'ili': i}
        if 'status' in cols:
            row['status'] = rng.choice(['active', 'provisional', 'deprecated', 'weird status'])
            if i in again:
                row['status'] = prior[i][0]
        if 'definition' in cols:
            row['definition'] = rng.choice(['def of ' + i, '', 'x < y & "z"', '"quoted" at the start of ' + i,
                                            '"unbalanced quote in ' + i, "it's " + i, 'ends with a quote "',
                                            # characters that str.splitlines() breaks at but a file object does not
                                            'line\u2028separator in ' + i, 'next\x85line ' + i, 'form\x0cfeed, fs\x1c gs\x1d ' + i,
                                            'v\x0btab and para\u2029graph'])
        if i in again and 'definition' in cols:
            row['definition'] = rng.choice(['revised definition of ' + i, '']) if prior[i][1] != '' else 'now defined: ' + i
        fields = [row.get(c, '') for c in cols]
        if rng.random() < 0.35 and len(fields) > 1 and i not in again:
            fields = fields[:-1]              # a short line: the last column is missing
            row.pop(cols[-1], None)
        lines.append('\t'.join(fields))
        expect_[i] = (row.get('status', 'active'), row.get('definition'))
    # line ends: LF or CR LF, the last one sometimes missing.  (Lone CR line ends are read by load() like the others — the model
    # and its theorems cover them — but is_ili() looks at the first line in binary mode, where only LF ends a line, so a
    # CR-only file whose header is the single column "ili" is not recognised as an ILI file; line-end conventions are not
    # among the dimensions C19 quantifies over, so such files are not generated: DESIGN.md E.6)
    eol = rng.choice(['\n', '\n', '\r\n'])
    final = '' if (rng.random() < 0.25 and lines[-1] != '') else eol
    return eol.join(lines) + final, expect_


def ili_view(tables):
    st = {r[0]: r[1] for r in tables['ili_statuses']}
    return {r[1]: (st.get(r[2]), r[3]) for r in tables['ilis']}


def run(rep, tier, build, replay=None):
    rng = random.Random(common.seed() * 7919 + 19)
    n = 12 if tier == 'quick' else 500
    hs = []
    meta = []
    for _ in range(n):
        u = gendoc.gen_universe(rng, size=2, with_ext=False)[:2]
        for _nm, r in u:
            for lx in r['lexicons']:
                for ss in lx['synsets']:
                    # a synset with an existing ILI may carry an <ILIDefinition> of its own (legal, unusual)
                    if ss['ili'] not in ('', 'in') and rng.random() < 0.5:
                        ss['ili_definition'] = {'text': 'gloss from the lexicon for ' + ss['ili'], 'meta': None}
        files = [gen_ili_file(rng)]
        if rng.random() < 0.6:
            files.append(gen_ili_file(rng, prior=files[0][1] if rng.random() < 0.8 else None))
        ops = [['add', r] for _n, r in u] + [['ili', f] for f, _ in files]
        perms = list(itertools.permutations(range(len(ops))))
        rng.shuffle(perms)
        for perm in perms[:(6 if tier == 'quick' else 24)]:
            seq = [ops[i] for i in perm]
            seq.append(seq[[k for k, o in enumerate(seq) if o[0] == 'ili'][-1]])     # the last index once more
            hs.append({'ops': seq, 'final_configs': [], 'lexrows': False})
            meta.append((u, files, perm))
    nsh = common.NPROC
    outs = common.run_impl_parallel('run_trace.py', [{'histories': hs[i::nsh]} for i in range(nsh)])
    recs = [None] * len(hs)
    for i in range(nsh):
        for j, r in enumerate(outs[i]):
            recs[i + j * nsh] = r
    finals = {}
    pb = {'run_add': [], 'run_remove': [], 'run_add_ili': []}
    nontriv = set()
    for (u, files, perm), h, rec in zip(meta, hs, recs):
        case = {'lexicons': [nm for nm, _ in u], 'ili_files': [f for f, _ in files],
                'order': [o[0] if o[0] == 'ili' else 'add' for o in h['ops']], 'resources': dict(u)}
        before = rec['initial']
        fexp = {f: e for f, e in files}
        for k, (op, st) in enumerate(zip(h['ops'], rec['steps'])):
            after = st['after']
            if st['outcome'] != 'ok':
                rep.fail('an operation of the history failed', dict(case, step=k), {'outcome': st['outcome']})
                break
            if op[0] == 'ili':
                for t in after:
                    if t not in ('ilis', 'ili_statuses') and after[t] != before[t]:
                        rep.fail('loading an ILI index changed something else than ILI status and definitions',
                                 dict(case, step=k), {'table': t})
                view = ili_view(after)
                old = ili_view(before)
                for i, (stt, dfn) in fexp[op[1]].items():
                    if i in old:
                        kind = ('same status, ' if old[i][0] == stt else 'other status, ') + \
                               ('same definition' if old[i][1] == dfn else 'other definition')
                        upd = rep.coverage.setdefault('updates_of_known_ilis', {})
                        upd[kind] = upd.get(kind, 0) + 1
                    if view.get(i) != (stt, dfn):
                        rep.fail('a listed ILI does not get the file\'s status and definition', dict(case, step=k),
                                 {'ili': i, 'got': view.get(i), 'expected': [stt, dfn], 'file_loaded': op[1],
                                  'before': old.get(i)})
                for i, v in old.items():
                    if i not in fexp[op[1]] and view.get(i) != v:
                        rep.fail('an ILI that the file does not list changed', dict(case, step=k),
                                 {'ili': i, 'before': v, 'after': view.get(i)})
                old_rowids = {r[1]: r[0] for r in before['ilis']}
                for r in after['ilis']:
                    if r[1] in old_rowids and old_rowids[r[1]] != r[0]:
                        rep.fail('an existing ILI was re-created (its links to synsets are lost)', dict(case, step=k),
                                 {'ili': r[1]})
                if k == len(h['ops']) - 1 and after != before:
                    rep.fail('loading the same ILI index again changed the database', dict(case, step=k), {})
            before = after
        else:
            key = common.canon_hash([case['lexicons'], case['ili_files'], str(u)[:3000]])
            # last index wins among listed ids; compare status/definition across interleavings with the same
            # relative order of the index files
            forder = tuple(o[1] for o in h['ops'][:-1] if o[0] == 'ili')
            # ... and the same relative order of the lexicons: the definition of an ILI that only lexicons mention comes
            # from the first lexicon declaring it, which the property does not constrain (false alarm corrected, DESIGN E.6)
            lorder = tuple(o[1]['lexicons'][0]['id'] + ':' + o[1]['lexicons'][0]['version'] for o in h['ops'] if o[0] == 'add')
            v = ili_view(before)
            prev = finals.setdefault((key, forder, lorder), (v, case))
            if prev[0] != v:
                d = {i: (prev[0].get(i), v.get(i)) for i in set(v) | set(prev[0]) if prev[0].get(i) != v.get(i)}
                rep.fail('ILI statuses/definitions depend on whether the index is loaded before or after the lexicons',
                         case, {'other_order': prev[1]['order'], 'differences': d})
            nontriv.add(common.canon_hash(case['order'] + [key]))
        for fn, ps in addmodel.trace_pairs(h['ops'], rec).items():
            if fn == 'run_add_ili' and len(pb[fn]) < (60 if tier == 'quick' else 600):
                pb[fn] += ps
    addmodel.run_correspondence(rep, common, pb, 'c19')
    rep.coverage.update({
        'evaluations': len(hs),
        'distinct_nontrivial': len(nontriv),
        'rule': 'ILI files (subsets of ids i1..i11; statuses active/provisional/deprecated/other; empty, missing and short '
                'columns; upper- and lower-case header; with and without status/definition columns) and 2 lexicons using '
                'listed and unlisted ILIs (also with ILI definitions of their own); up to 24 interleavings of add(lexicon) / '
                'add(index) per case, each followed by loading the last index again; every table compared before/after each '
                'index load; non-trivial = distinct (case, interleaving)',
    })
    rep.samples.append({'ili_file': meta[0][1][0][0], 'order': [o[0] for o in hs[0]['ops']]})
