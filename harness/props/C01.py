"""C01 — the query API reports exactly the content of every added lexicon."""
import random
import common
import gendoc
import expect

TRUSTED = [
    'the expected content is computed from the generated document description alone (harness/expect.py); the documents are '
    'written by the harness\'s own WN-LMF writer with varied quoting, attribute order and character references',
]


def scopes_for(uni):
    """one observation scope per installed lexicon: the lexicon with its base chain"""
    out = []
    for sp in uni.order:
        chain = uni.chain(sp)
        out.append((sp, list(reversed(chain))))
    return out


def check_scope(rep, uni, sp, scope, ob, lexrows, case, stats, default_mode=False):
    rid2spec = {r['rowid']: '%s:%s' % (r['id'], r['version']) for r in lexrows}
    if ob['ctor'][0] != 'ok':
        rep.fail('Wordnet() failed for an installed lexicon', case, {'ctor': ob['ctor']})
        return
    S0 = set(scope)
    words = {(rid2spec[w['lex']], w['id']): w for w in ob['words']}
    senses = {(rid2spec[s['lex']], s['id']): s for s in ob['senses']}
    synsets = {(rid2spec[y['lex']], y['id']): y for y in ob['synsets']}
    wref = {w['ref'][1]: k for k, w in words.items()}
    sref = {s['ref'][1]: k for k, s in senses.items()}
    yref = {y['ref'][1]: k for k, y in synsets.items()}

    def F(what, detail):
        rep.fail(what, case, detail)

    def SC(osp):
        # restricted Wordnet: the selection; default mode: the entity's own lexicon family
        return set(uni.family(osp)) if default_mode else S0

    # ---- inventory: exactly the declared entities
    exp_words = {(s_, e['id']) for s_ in scope for e in uni.entries(s_)}
    exp_senses = {(s_, se['id']) for s_ in scope for e in uni.lex[s_][0].get('entries', [])
                  for se in e.get('senses', []) if not se.get('external')}
    exp_synsets = {(s_, ss['id']) for s_ in scope for ss in uni.synsets(s_)}
    for name, got, exp in (('words', set(words), exp_words), ('senses', set(senses), exp_senses),
                           ('synsets', set(synsets), exp_synsets)):
        if got != exp or len(got) != len({'words': ob['words'], 'senses': ob['senses'], 'synsets': ob['synsets']}[name]):
            F('%s() does not list exactly the declared %s' % (name, name),
              {'missing': sorted(exp - got), 'spurious': sorted(got - exp)})
    # ---- the lexicon every entity reports for itself
    for kind, table in (('word', words), ('sense', senses), ('synset', synsets)):
        for (osp, xid), x in table.items():
            lx = uni.lex[osp][0]
            want = ['ok', [lx['id'], lx['version'], lx['label'], lx['language'], lx['license'], lx['email'], lx.get('url'),
                           lx.get('citation'), lx.get('logo')]]
            if x.get('elex') != want:
                F('%s.lexicon() does not report the attributes of the declaring lexicon' % kind,
                  {kind: xid, 'got': x.get('elex'), 'expected': want})
    # ---- words
    for (osp, eid), w in words.items():
        _, e = uni.owner_entry(osp, eid)
        if e is None:
            continue
        lem = e['lemma']
        exp_forms = [(lem['writtenForm'], None, lem.get('script'))] + \
            [(f['writtenForm'], f.get('id'), f.get('script')) for f in e.get('forms', []) if not f.get('external')]
        got_forms = [(f[0], f[1], f[2]) for f in w['forms']]
        if w['pos'] != lem['partOfSpeech'] or got_forms != exp_forms or w['lemma'] != lem['writtenForm']:
            F('word pos/lemma/forms differ from the document', {'word': eid, 'got': [w['pos'], got_forms],
                                                                 'expected': [lem['partOfSpeech'], exp_forms]})
        if len(w['forms']) == len(exp_forms):
            for i, f in enumerate(w['forms']):
                which = None if i == 0 else i - 1
                et = [(t['text'], t['category']) for t in uni.form_children(osp, e, which, 'tags', SC(osp))]
                ep = [(p['text'], p.get('variety'), p.get('notation'), p.get('phonemic', True), p.get('audio'))
                      for p in uni.form_children(osp, e, which, 'pronunciations', SC(osp))]
                fam = set(uni.family(osp))
                et_all = [(t['text'], t['category']) for t in uni.form_children(osp, e, which, 'tags', fam)]
                ep_all = [(p['text'], p.get('variety'), p.get('notation'), p.get('phonemic', True), p.get('audio'))
                          for p in uni.form_children(osp, e, which, 'pronunciations', fam)]
                for what, g, ex_, ex_all in (('tags', [tuple(x) for x in f[4]], et, et_all),
                                              ('pronunciations', [tuple(x) for x in f[5]], ep, ep_all)):
                    if g == ex_:
                        continue
                    if g == ex_all:
                        # finding F3: the tags/pronunciations tables have no owner column, so what an
                        # installed extension attaches to a base form is visible without the extension in scope
                        rep.known('F3', 'Form.%s() of a base form shows what an extension outside the selection attached to it '
                                  '(tables tags/pronunciations have no lexicon column)' % what,
                                  case, {'word': eid, 'form': f[0], 'got': g, 'expected': ex_})
                        stats['F3'] = stats.get('F3', 0) + 1
                    else:
                        F('%s of a form differ from the document' % what,
                          {'word': eid, 'form': f[0], 'got': g, 'expected': ex_})
                if et or ep:
                    stats['forms_with_children'] = stats.get('forms_with_children', 0) + 1
        if (w['meta'] or None) != (e.get('meta') or None):
            F('word metadata differs', {'word': eid, 'got': w['meta'], 'expected': e.get('meta')})
        exp_s = uni.senses_of_entry(osp, eid, SC(osp))
        got_s = [sref.get(r[1]) for r in w['senses'][1]] if w['senses'][0] == 'ok' else None
        want = [(s_, se['id']) for s_, se in exp_s]
        if got_s is None or sorted(map(str, got_s)) != sorted(map(str, want)):
            F('Word.senses() is not the declared senses of the entry', {'word': eid, 'got': got_s, 'expected': want})
        else:
            for s_ in set(x[0] for x in want):      # each lexicon's senses in entry order
                if [x for x in got_s if x[0] == s_] != [x for x in want if x[0] == s_]:
                    F('Word.senses() is not in entry order', {'word': eid, 'got': got_s, 'expected': want})
    # ---- senses
    for (osp, sid), s in senses.items():
        _, e, se = uni.owner_sense(osp, sid)
        if se is None:
            continue
        ex = [x['text'] for _, x in uni.contributions(osp, 'sense', sid, 'examples', SC(osp))]
        cn = [c['value'] for _, c in uni.contributions(osp, 'sense', sid, 'counts', SC(osp))]
        own_e = e if not e.get('external') else uni.owner_entry(osp, e['id'])[1]
        fr = uni.frames_of_sense(osp, e, se)
        got = [s['examples'], [c[0] for c in s['counts']], sorted(s['frames']), s['adjposition'], bool(s['lexicalized'])]
        exp = [ex, cn, sorted(fr), se.get('adjposition'), se.get('lexicalized', True)]
        if got != exp:
            F('sense examples/counts/frames/adjposition/lexicalized differ from the document',
              {'sense': sid, 'got': got, 'expected': exp})
        cm = [c.get('meta') or None for _, c in uni.contributions(osp, 'sense', sid, 'counts', SC(osp))]
        if [c[1] for c in s['counts']] != cm:
            F('count metadata differs', {'sense': sid, 'got': [c[1] for c in s['counts']], 'expected': cm})
        if (s['meta'] or None) != (se.get('meta') or None):
            F('sense metadata differs', {'sense': sid, 'got': s['meta'], 'expected': se.get('meta')})
        wsp, _we = uni.owner_entry(osp, e['id'])
        if s['word'][0] != 'ok' or wref.get(s['word'][1][1]) != (wsp, e['id']):
            F('Sense.word() is not the declaring entry', {'sense': sid, 'got': s['word'], 'expected': [wsp, e['id']]})
        ysp, _ = uni.owner_synset(osp, se['synset'])
        if s['synset'][0] != 'ok' or yref.get(s['synset'][1][1]) != (ysp, se['synset']):
            F('Sense.synset() is not the referenced synset', {'sense': sid, 'got': s['synset'],
                                                              'expected': [ysp, se['synset']]})
        if ex or cn or fr:
            stats['senses_with_children'] = stats.get('senses_with_children', 0) + 1
    # ---- synsets
    for (osp, yid), y in synsets.items():
        _, ss = uni.owner_synset(osp, yid)
        if ss is None:
            continue
        defs = [d['text'] for _, d in uni.contributions(osp, 'synset', yid, 'definitions', SC(osp))]
        exs = [x['text'] for _, x in uni.contributions(osp, 'synset', yid, 'examples', SC(osp))]
        ili = ss['ili']
        if ili and ili != 'in':
            eili = ('id', ili)
        elif ili == 'in':
            idf = ss.get('ili_definition')
            eili = ('proposed', idf['text'] if idf else None)
        else:
            eili = None
        g = y['ili'][1] if y['ili'][0] == 'ok' else 'ERR'
        if eili is None:
            okili = g is None
        elif eili[0] == 'id':
            okili = g not in (None, 'ERR') and g[1] == eili[1]
        else:
            okili = g not in (None, 'ERR') and g[1] is None and g[2] == 'proposed' and g[3] == eili[1]
        if not okili:
            F('Synset.ili differs from the document', {'synset': yid, 'got': y['ili'], 'expected': eili})
        got = [y['pos'], y['definition'], y['examples'], y['lexfile'], bool(y['lexicalized'])]
        exp = [ss.get('partOfSpeech'), defs[0] if defs else None, exs, ss.get('lexfile'), ss.get('lexicalized', True)]
        if got != exp:
            F('synset pos/definition/examples/lexfile/lexicalized differ from the document',
              {'synset': yid, 'got': got, 'expected': exp})
        if (y['meta'] or None) != (ss.get('meta') or None):
            F('synset metadata differs', {'synset': yid, 'got': y['meta'], 'expected': ss.get('meta')})
        members = [(s_, se['id']) for s_ in uni.order if s_ in SC(osp) and osp in uni.chain(s_)
                   for e in uni.lex[s_][0].get('entries', []) for se in e.get('senses', [])
                   if not se.get('external') and se['synset'] == yid]
        gm = [sref.get(r[1]) for r in y['senses'][1]] if y['senses'][0] == 'ok' else None
        if gm is None or sorted(map(str, gm)) != sorted(map(str, members)):
            F('Synset.senses() is not the set of senses referencing the synset', {'synset': yid, 'got': gm,
                                                                                  'expected': members})
        elif ss.get('members'):
            own = [x[1] for x in gm if x[0] == osp]
            decl = [m for m in ss['members'] if (osp, m) in members]
            rest = [m for _, m in members if _ == osp and m not in decl]
            if own[:len(decl)] != decl or sorted(own[len(decl):]) != sorted(rest):
                F('Synset.senses() is not in the declared member order', {'synset': yid, 'got': own,
                                                                          'declared': ss['members']})
            stats['synsets_with_members'] = stats.get('synsets_with_members', 0) + 1


def check_lexicon_rows(rep, uni, lexrows, case):
    got = {'%s:%s' % (r['id'], r['version']): r for r in lexrows}
    if set(got) != set(uni.order):
        rep.fail('installed lexicons differ from the added resources', case,
                 {'got': sorted(got), 'expected': sorted(uni.order)})
        return
    for sp in uni.order:
        lx = uni.lex[sp][0]
        r = got[sp]
        for k in ('label', 'language', 'email', 'license', 'url', 'citation', 'logo'):
            if r[k] != lx.get(k):
                rep.fail('lexicon attribute differs from the document', case,
                         {'lexicon': sp, 'attribute': k, 'got': r[k], 'expected': lx.get(k)})
        if (r['meta'] or None) != (lx.get('meta') or None):
            rep.fail('lexicon metadata differs', case, {'lexicon': sp, 'got': r['meta'], 'expected': lx.get('meta')})


def broken_resource(rng):
    lx = gendoc.gen_lexicon(rng, 'qq', '1', 'en', ['i1', 'i2'], '1.1', size=3)
    senses = [s_ for e in lx['entries'] for s_ in e.get('senses', [])]
    senses[-1].setdefault('relations', []).append({'target': 'qq-no-such-sense', 'relType': 'antonym', 'meta': None})
    return {'lmf_version': '1.1', 'lexicons': [lx]}


def run(rep, tier, build, replay=None):
    rng = random.Random(common.seed() * 7919 + 1)
    n = 60 if tier == 'quick' else 900
    unis = []
    for i in range(n):
        res = gendoc.gen_universe(rng, size=rng.choice([2, 3, 4, 6]))
        if i == 0:
            res = gendoc.corpus_ext(new_form=False)        # corpus: witness of known finding F3, always first
        uni = expect.Universe(res)
        scopes = scopes_for(uni)
        cfgs = [{'lexicon': ' '.join(sc), 'expand': ''} for _, sc in scopes] + [{}]
        unis.append({'resources': res, 'style_seed': rng.randrange(1 << 30), 'configs': cfgs, 'deep': False,
                     'want_tables': False, 'batch_size': rng.choice([None, None, 1, 2, 3]), 'interleave': True,
                     'churn': ({'lmf_version': '1.1', 'lexicons': [gendoc.gen_lexicon(rng, 'zz', '0', 'fr', ['i1', 'i2'], '1.1', size=2)]}
                               if i % 2 == 0 else None),
                     'churn_bad': (broken_resource(rng) if i % 4 == 0 else None)})
    nsh = common.NPROC
    shards = [s for s in (unis[i::nsh] for i in range(nsh)) if s]
    outs = common.run_impl_parallel('run_battery.py', [{'universes': s} for s in shards])
    stats = {}
    nontriv = set()
    evals = 0
    for s, o in zip(shards, outs):
        for u, rec in zip(s, o):
            uni = expect.Universe(u['resources'])
            case0 = {'resources': u['resources'], 'style_seed': u['style_seed'], 'batch_size': u['batch_size']}
            bad = [a for a in rec['adds'] if a[1] != 'ok']
            if bad:
                rep.fail('adding a structurally valid resource failed', case0, {'adds': rec['adds']})
                continue
            check_lexicon_rows(rep, uni, rec['lexicons'], case0)
            for (sp, scope), ob in zip(scopes_for(uni), rec['obs']):
                evals += 1
                check_scope(rep, uni, sp, scope, ob, rec['lexicons'], dict(case0, scope=scope), stats)
                if len(scope) > 1 or len(uni.lex[sp][0].get('entries', [])) > 1:
                    nontriv.add(common.canon_hash([u['style_seed'], sp]))
            evals += 1
            check_scope(rep, uni, None, list(uni.order), rec['obs'][-1], rec['lexicons'],
                        dict(case0, scope='default mode'), stats, default_mode=True)
    # tie to Model/Add.v: the tables after each in-memory add against the model's tables, row for row
    import addmodel
    k = 12 if tier == 'quick' else 150
    hs = [{'ops': [['add', res] for _n, res in u['resources']]} for u in unis[:k]]
    touts = common.run_impl_parallel('run_trace.py', [{'histories': hs[i::nsh]} for i in range(nsh) if hs[i::nsh]])
    pb = {'run_add': [], 'run_remove': [], 'run_add_ili': []}
    idx = [i for i in range(nsh) if hs[i::nsh]]
    for i, o in zip(idx, touts):
        for h, rec in zip(hs[i::nsh], o):
            for fn, ps in addmodel.trace_pairs(h['ops'], rec).items():
                pb[fn] += ps
    addmodel.run_correspondence(rep, common, pb, 'c01')
    rep.coverage.update({
        'evaluations': evals,
        'distinct_nontrivial': len(nontriv),
        'rule': 'universes of 1-5 resources (WN-LMF 1.0/1.1/1.3; plain lexicons, dependent lexicons, second versions reusing ids, '
                'extensions and extensions of extensions using the documented patterns; every optional attribute/child present '
                'with some probability; metadata on every element that allows it; quotes, <, &, tabs, newlines, non-BMP characters) '
                'written with varied quoting / attribute order / character references and added with BATCH_SIZE in {1000, 1, 2, 3}; '
                'one restricted Wordnet per lexicon (with its base chain); non-trivial = distinct (universe, lexicon) with an '
                'extension in scope or more than one entry',
        'universes': len(unis),
        'stats': stats,
    })
    rep.samples.append({'resource_names': [n_ for n_, _ in unis[0]['resources']],
                        'first_lexicon': unis[0]['resources'][0][1]['lexicons'][0]['entries'][:1]})
