"""C17 — Morphy: correspondence of Model/Morphy.v with wn.morphy.Morphy, and the
direct oracle (the property text evaluated on the implementation's outputs)."""
import random
import common

TRUSTED = [
    'modelled, not verified: CPython str.endswith/slicing, dict insertion order, set semantics; '
    'Wordnet.words()/Word.forms() as the source of the (pos, lemma, other forms) inventory',
]

STEMS = ['wolf', 'wol', 'ax', 'axe', 'axis', 'bus', 's', 'es', 'man', 'men', 'x', 'fly', 'fli',
         'box', 'ch', 'church', 'good', 'well', 'better', 'run', 'e', 'ed', 'ing', 'be', 'bee',
         'larg', 'large', 'er', 'est', 'knife', 'kni', 'leaf', 'lea', 'leave', 'y', 'ie', 'i',
         'appendix', 'appendi', 'quiz', 'qui', 'z', 'sh', 'bush', 'woman', 'wo', 'f', 'fe',
         'xis', 'ox', 'oxen', 'go', 'went', 'Ünï', 'ünï', '水', 'hot dog', 'a']
POSES = ['n', 'v', 'a', 's', 'r']
QPOS = [None, 'n', 'v', 'a', 's', 'r', 'x', 't', 'q']


def rules_from_probe(probe):
    rules = {}
    for pos, rl in probe['morphy_rules']:
        rules[pos] = [(s, r) for s, r, _pwn, _nltk, wn_ in rl if wn_]
    return rules


def gen_group(rng, rules, nwords, nq):
    sufs = sorted({s for rl in rules.values() for s, _ in rl})
    reps = sorted({r for rl in rules.values() for _, r in rl})
    words = []
    used = set()
    for _ in range(nwords):
        pos = rng.choice(POSES) if rng.random() < 0.93 else rng.choice(['x', 't', 'u'])
        lemma = rng.choice(STEMS) + (rng.choice(reps) if rng.random() < 0.4 else '')
        if (pos, lemma) in used and rng.random() < 0.7:
            continue
        used.add((pos, lemma))
        others = []
        for _ in range(rng.choice([0, 0, 1, 1, 2, 3])):
            o = rng.choice(STEMS) + (rng.choice(sufs) if rng.random() < 0.5 else '')
            if o != lemma and o not in others:
                others.append(o)
        words.append([pos, lemma, others])
    if not words:
        words.append(['n', 'wolf', ['wolves']])
    pool = []
    for pos, lemma, others in words:
        pool.append(lemma)
        pool += others
        for s in sufs:
            pool.append(lemma + s)
        # strip the replacement, attach the suffix: forms a rule maps back to the lemma
        for rl in rules.values():
            for s, r in rl:
                if r and lemma.endswith(r) and len(lemma) > len(r):
                    pool.append(lemma[:-len(r)] + s)
                elif not r:
                    pool.append(lemma + s)
    pool += sufs + ['', 'zzz', 'q']
    queries = []
    for _ in range(nq):
        queries.append([rng.choice(pool), rng.choice(QPOS)])
    return {'words': words, 'queries': queries,
            'search_queries': [q for q in queries if q[1] != 'q'][:max(4, nq // 4)]}


def expected_uninit(rules, form, pos):
    """The property text: original form (under the given key) plus every rule output,
    never detaching a suffix that is the whole word."""
    res = {pos: {form}}
    plist = list(rules) if pos is None else ([pos] if pos in rules else [])
    for p in plist:
        for s, r in rules[p]:
            if form.endswith(s) and len(s) < len(form):
                c = form[:len(form) - len(s)] + r
                if pos is None and c == form:
                    continue
                res.setdefault(p, set()).add(c)
    return res


def oracle_group(rep, rules, grp, out, gi):
    words = grp['words']
    lem = {}
    exc = {}
    for pos, lemma, others in words:
        lem.setdefault(pos, set()).add(lemma)
        for o in others:
            exc.setdefault(pos, {}).setdefault(o, set()).add(lemma)
    nontrivial = set()
    for qi, (form, pos) in enumerate(grp['queries']):
        # --- uninitialized: exact
        got = {k: set(v) for k, v in out['uninit'][qi]}
        exp = expected_uninit(rules, form, pos)
        if got != exp:
            rep.fail('uninitialized Morphy does not return original + every rule output',
                     {'group': gi, 'words': words, 'form': form, 'pos': pos},
                     {'expected': {str(k): sorted(v) for k, v in exp.items()},
                      'got': {str(k): sorted(v) for k, v in got.items()}})
        if len(exp) > 1:
            nontrivial.add(common.canon_hash(['u', form, pos]))
        # --- initialized
        if out['init'][qi] is None:
            continue
        got = {k: set(v) for k, v in out['init'][qi]}
        plist = list(rules) if pos is None else ([pos] if pos in rules else [])
        for k, v in got.items():
            if k is None or not v <= lem.get(k, set()):
                rep.fail('initialized Morphy returns something that is not a lemma of that part of speech',
                         {'group': gi, 'words': words, 'form': form, 'pos': pos},
                         {'key': k, 'returned': sorted(v), 'lemmas': sorted(lem.get(k, set()))})
            if k is not None and k not in plist:
                rep.fail('initialized Morphy returns a part of speech that was not asked for',
                         {'group': gi, 'words': words, 'form': form, 'pos': pos}, {'key': k})
        for p in plist:
            must = set()
            if form in lem.get(p, set()):
                must.add(form)
            must |= exc.get(p, {}).get(form, set())
            for s, r in rules[p]:
                if form.endswith(s) and len(s) < len(form):
                    c = form[:len(form) - len(s)] + r
                    if c in lem.get(p, set()):
                        must.add(c)
            if not must <= got.get(p, set()):
                rep.fail('initialized Morphy misses a valid lemma (query itself / exceptional form / rule output)',
                         {'group': gi, 'words': words, 'form': form, 'pos': pos},
                         {'pos': p, 'missing': sorted(must - got.get(p, set())),
                          'got': sorted(got.get(p, set()))})
            if must:
                nontrivial.add(common.canon_hash(['i', words, form, pos]))
    # --- lemmatizing searches: union over proposed (pos, form) pairs, no duplicates
    for rec in out['search']:
        for kind in ('words', 'senses', 'synsets'):
            got = rec['got'][kind]
            union = []
            for p, f, found in rec['parts'][kind]:
                for x in found:
                    if x not in union:
                        union.append(x)
            if len(set(got)) != len(got) or set(got) != set(union):
                rep.fail('Wordnet with a Morphy lemmatizer does not return the union over proposed (pos, form) pairs',
                         {'group': gi, 'words': words, 'form': rec['form'], 'pos': rec['pos'],
                          'lemmatizer': rec['which'], 'kind': kind},
                         {'proposed': rec['proposed'], 'expected_union': union, 'got': got})
    # --- the same with the default normalizer (documented two-pass procedure, computed from the word list)
    def nrm(x):
        return x.lower()

    def one_pass(proposed, tr):
        hit = []
        for p, fs in proposed:
            fs2 = {tr(f) for f in fs}
            for i, (wp, lemma, others) in enumerate(words):
                if p is not None and wp != p:
                    continue
                if any(f in fs2 or (nrm(f) != f and nrm(f) in fs2) for f in [lemma] + list(others)):
                    if i not in hit:
                        hit.append(i)
        return hit
    for rec in out.get('search_norm', []):
        first = one_pass(rec['proposed'], lambda f: f)
        exp = first if first else one_pass(rec['proposed'], nrm)
        got = rec['got']
        if len(set(got)) != len(got) or set(got) != {'mlex-e%d' % i for i in exp}:
            rep.fail('Wordnet with a Morphy lemmatizer and the default normalizer does not follow the documented procedure '
                     '(exact pass over every proposed (pos, forms) pair; only if nothing is found, one normalised pass, each '
                     'proposal under its own part of speech)',
                     {'group': gi, 'words': words, 'form': rec['form'], 'pos': rec['pos'], 'lemmatizer': rec['which']},
                     {'proposed': rec['proposed'], 'expected': ['mlex-e%d' % i for i in exp], 'got': got})
    return nontrivial


def run(rep, tier, build, replay=None):
    rng = random.Random(common.seed() * 7919 + 17)
    if build.probe is None:
        rep.broke('no probe of the source tree: correspondence and oracle need the rule table')
        return
    rules = rules_from_probe(build.probe)
    ngroups, nwords, nq = (24, 10, 40) if tier == 'quick' else (300, 14, 80)
    groups = [gen_group(rng, rules, rng.randint(2, nwords), nq) for _ in range(ngroups)]
    # corpus: hand-picked regression groups run first
    groups.insert(0, {'words': [['n', 'wolf', ['wolves']], ['v', 'wolf', []], ['n', 'knife', ['knives']],
                                ['v', 'knife', []], ['a', 'good', ['better', 'best']],
                                ['a', 'well', ['better', 'best']], ['s', 'large', []],
                                ['n', 'axe', []], ['n', 'ax', []], ['n', 'axis', ['axes']],
                                ['n', 's', []], ['v', 'be', ['is', 'was']],
                                ['a', 'Polish', []], ['v', 'polish', []], ['n', 'example', []], ['n', 'Reading', []], ['v', 'read', []],
                                ['v', 'saw', []], ['v', 'see', ['saw', 'seen']], ['v', 'lay', []], ['v', 'lie', ['lay', 'lain']],
                                ['n', 'data', []], ['n', 'datum', ['data']],
                                # words in parts of speech Morphy has no rules for, spelled like words it does know: an
                                # initialized Morphy never proposes them, so a search without pos must not find them
                                ['u', 'saw', []], ['x', 'like', []], ['n', 'like', []], ['v', 'like', ['liked']],
                                ['t', 'round', []], ['n', 'round', ['rounds']], ['u', 'rounds', []]],
                      'queries': [[f, p] for f in ['wolves', 'knives', 'better', 'axes', 'larger', 's',
                                                   'ss', 'es', 'was', 'wolf', 'men', 'xes', 'saw', 'lay', 'data', 'seen']
                                  for p in QPOS],
                      'search_queries': [[f, p] for f in ['wolves', 'knives', 'better', 'axes', 'larger', 'Polished', 'Exampled',
                                                          'Reading', 'polished', 'saw', 'Saws', 'like', 'liked', 'round', 'rounds']
                                         for p in [None, 'n', 'v', 'a', 's']]})
    if replay:
        import json
        groups = [f['case_group'] for f in json.load(open(replay)).get('failures', []) if 'case_group' in f] or groups[:1]
    nshard = common.NPROC
    shards = [groups[i::nshard] for i in range(nshard)]
    shards = [s for s in shards if s]
    outs = common.run_impl_parallel('run_C17.py', [{'groups': s} for s in shards])
    flat = []
    for s, o in zip(shards, outs):
        flat += list(zip(s, o))
    # ---- oracle (property text on the implementation)
    nontrivial = set()
    for gi, (grp, out) in enumerate(flat):
        nontrivial |= oracle_group(rep, rules, grp, out, gi)
    # ---- correspondence (model in Coq vs implementation)
    pairs = []
    for grp, out in flat:
        W = [[p, l, o] for p, l, o in grp['words']]
        for qi, (form, pos) in enumerate(grp['queries']):
            posx = [] if pos is None else [pos]
            pairs.append(([False, W, form, posx],
                          [[([] if k is None else [k]), v] for k, v in out['uninit'][qi]]))
            if out['init'][qi] is not None:
                pairs.append(([True, W, form, posx],
                              [[([] if k is None else [k]), v] for k, v in out['init'][qi]]))
            elif qi == 0:
                pairs.append(([True, W, form, posx], [-1]))
    mism, info = common.coq_mismatches('WnV.Model.Morphy', 'run_morphy', 'agree_morphy', pairs, tag='c17')
    if info['errors']:
        rep.broke('correspondence evaluation failed in Coq: ' + '; '.join(info['errors'])[:1500])
    if mism:
        ex = [{'input': pairs[i][0], 'impl': pairs[i][1]} for i in mism[:3]]
        rep.broke('correspondence Model/Morphy.v vs wn.morphy.Morphy: %d of %d cases differ; first: %s; model says: %s'
                  % (len(mism), len(pairs), ex, info.get('model_outputs', '')[:1500]))
    distinct = len({common.canon_hash(p[0]) for p in pairs})
    rep.coverage.update({
        'evaluations': len(pairs),
        'distinct_nontrivial': len(nontrivial),
        'rule': 'lexicons of 2..%d words built from inflection-like stems (irregular forms shared between words '
                'and parts of speech, a/s entries, lemmas equal to bare suffixes) added to a fresh database; queries = '
                'stored lemmas/forms with every rule suffix attached, bare suffixes, unrelated strings x pos in '
                '{None,n,v,a,s,r,x,t,unknown} x {initialized, uninitialized}; non-trivial = a query for which the '
                'property demands at least one candidate beyond the original form (distinct (lexicon, query, pos, mode) tuples)' % nwords,
        'traces_validated_against_impl': len(pairs),
        'distinct_cases': distinct,
        'groups': len(flat),
        'correspondence_mismatches': len(mism),
        'coq_eval_wall_s': round(info['wall'], 1),
    })
    rep.samples.append({'words': flat[1][0]['words'][:4] if len(flat) > 1 else flat[0][0]['words'][:4],
                        'query': flat[0][0]['queries'][0], 'impl_uninit': flat[0][1]['uninit'][0],
                        'impl_init': flat[0][1]['init'][0]})
