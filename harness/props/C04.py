"""C04 — queries stay inside the selected lexicons and ignore unrelated ones."""
import copy
import random
import common
import coremodel
import gendoc
import expect
import dbfam
import dboracles
import canon

TRUSTED = ['the frame clause is checked metamorphically: the same Wordnet arguments on a database with and without lexicons '
           'outside the selection and its expand set must give the same observation']


def run(rep, tier, build, replay=None):
    def orc(rep_, cx, case, stats):
        dboracles.oracle_scope(rep_, cx, case)
        dboracles.oracle_relations(rep_, cx, case, stats)     # relation targets (and multi-hop closures) stay in scope
        if cx.cfg.get('lemmatizer') not in ('morphy', 'morphy_init'):
            # form searches reach only what senses and forms of the selection link to the form (F22 was found here)
            dboracles.oracle_search(rep_, cx, case, stats)

    first = [True]

    def tweak(rng_, u):
        u['interleave'] = True
        if first[0]:
            # corpus (always the first universe): the witnesses of known findings F3 and F14, observed through a Wordnet
            # restricted to the base lexicon
            first[0] = False
            import gendoc
            u['resources'] = gendoc.corpus_ext()
            u['configs'] = [{'lexicon': 'fb:1', 'expand': ''}, {'lexicon': 'fb:1 fx:1', 'expand': ''}, {}]
            u['searches'] = [['extform', None], ['cat', 'n'], ['cats', None]]
            u['translate_to'] = [{'lexicon': 'fb:1'}]
            return
        if rng_.random() < 0.15:
            u['resources'], u['configs'] = dbfam.crafted_inferred_chain(rng_)
            return
        for c in u['configs']:
            if rng_.random() < 0.5:
                c['expand'] = ''
    unis, shards, outs = dbfam.run_family(rep, tier, 'C04', 4, [orc], 40, 450, tweak)
    # ---- frame: adding / removing lexicons outside the selection and its expand set changes nothing
    rng = random.Random(common.seed() * 7919 + 44)
    n = 14 if tier == 'quick' else 200
    hs = []
    meta = []
    for _ in range(n):
        u = gendoc.gen_universe(rng, size=2, ext_forms=True, force={'ext'})
        names = [nm for nm, _ in u]
        res = dict(u)
        uni = expect.Universe(u)
        keep = rng.choice([nm for nm in names if not res[nm]['lexicons'][0].get('extends')])
        # everything the selection may legitimately depend on: the lexicon, its declared dependencies
        related = {keep} | {'%s:%s' % (r['id'], r['version']) for r in res[keep]['lexicons'][0].get('requires', [])}
        unrelated = [nm for nm in names if nm not in related]
        cfgs = [{'lexicon': keep}, {'lexicon': keep, 'expand': ''}]
        searches = [[f, None] for f in ['cat', 'dog', 'run', 'extform', 'runned', 'catz', 'cats']]
        ops_small = [['add', res[nm]] for nm in names if nm in related]
        ops_big = [['add', res[nm]] for nm in names]
        ops_removed = ops_big + [['remove', nm] for nm in reversed(unrelated)]
        for ops in (ops_small, ops_big, ops_removed):
            hs.append({'ops': ops, 'final_configs': cfgs, 'lexrows': False, 'deep': True})
        meta.append((u, keep, unrelated))
    nsh = common.NPROC
    o2 = common.run_impl_parallel('run_trace.py', [{'histories': hs[i::nsh]} for i in range(nsh)])
    recs = [None] * len(hs)
    for i in range(nsh):
        for j, r in enumerate(o2[i]):
            recs[i + j * nsh] = r
    stats = rep.coverage.setdefault('stats', {})
    for k, (u, keep, unrelated) in enumerate(meta):
        small, big, removed = recs[3 * k], recs[3 * k + 1], recs[3 * k + 2]
        case = {'resources': dict(u), 'selected': keep, 'unrelated': unrelated}
        for label, other in (('added', big), ('added and removed again', removed)):
            for ci in range(2):
                a = canon.canon_obs(small['final_obs'][ci], small['final_lexicons'])
                b = canon.canon_obs(other['final_obs'][ci], other['final_lexicons'])
                a2, ka = strip_children(a)
                b2, kb = strip_children(b)
                d = canon.diff(a2, b2)
                if d:
                    ext_of_keep = [x for x in unrelated if dict(u)[x]['lexicons'][0].get('extends', {}).get('id') == keep.split(':')[0]]
                    if '.forms' in d and ext_of_keep and label == 'added':
                        rep.known('F14', 'a form that an unselected extension adds to an entry of the selected base lexicon is '
                                  'listed by Word.forms()', dict(case, change=label), {'difference': d})
                        stats['F14'] = stats.get('F14', 0) + 1
                    else:
                        rep.fail('results of a restricted Wordnet change when lexicons outside the selection are %s' % label,
                                 dict(case, change=label, config=ci), {'difference': d})
                    break
                d2 = canon.diff(ka, kb)
                if d2:
                    rep.known('F3', 'tags/pronunciations an unselected (or removed) extension attached to forms of the selected '
                              'base lexicon are visible', dict(case, change=label), {'difference': d2})
                    stats['F3'] = stats.get('F3', 0) + 1
                    break
    rep.coverage['rule'] = ('(i) generated multi-lexicon databases (shared ILIs, overlapping forms and identifiers, extensions, '
                            'dependencies) x lexicon/lang/expand choices: the lexicon of every entity returned by any query, '
                            'navigation, relation, closure, path or search call must be selected (default mode: in the family of '
                            'the entity navigated from); (ii) metamorphic frame: a Wordnet restricted to one lexicon observed on a '
                            'database holding only that lexicon and its dependencies, on the database with all other lexicons '
                            '(incl. unselected extensions of the selected one) added, and after removing them again; non-trivial = '
                            'distinct (universe, config) with several lexicons')
    rep.coverage['frame_cases'] = len(meta)


def strip_children(c):
    c = copy.deepcopy(c)
    kids = {}
    for k, w in c.get('words', {}).items():
        kids[k] = [[f[3], f[4]] for f in w['forms']]
        w['forms'] = [f[:3] for f in w['forms']]
    return c, kids
