"""C03 — exporting a database and re-importing it preserves the lexicons."""
import copy
import json
import random
import common
import gendoc
import canon

TRUSTED = [
    'the oracle compares (a) the full canonical observation of a database built from the exported file with the original '
    'database, restricted to what the export version can express, and (b) definitions, dependencies and relation metadata of the '
    'loaded export with the original document',
]


def restrict(st, v, src10):
    """drop from a canonical state what WN-LMF version v cannot express"""
    st = copy.deepcopy(st)
    for lx in st['lexicons'].values():
        if v == '1.0':
            lx['logo'] = None
            lx['requires'] = []
        for k in ('url', 'citation', 'logo'):
            lx[k] = lx[k] or None          # empty string = absent
        # whether the provider of a dependency is installed differs between the two databases by construction
        lx['requires'] = [[r[0], None] for r in lx['requires']]
    for sp, ob in st['obs'].items():
        if 'words' not in ob:
            continue
        for w in ob['words'].values():
            for f in w['forms']:
                if v == '1.0':
                    f[1] = None            # form ids
                    f[4] = []              # pronunciations
        for y in ob['synsets'].values():
            if v == '1.0':
                y['lexfile'] = None
                # 1.0 has no members attribute: the order of a synset's members cannot be expressed
                for k in ('senses', 'words', 'lemmas'):
                    if y[k][0] == 'ok':
                        y[k] = ['ok', sorted(y[k][1], key=str)]
        if v == '1.0':
            for w in ob['words'].values():
                pass
        ob['expanded'] = []
        ob['warnings'] = False
    return st


def run(rep, tier, build, replay=None):
    rng = random.Random(common.seed() * 7919 + 3)
    n = 20 if tier == 'quick' else 300
    versions = ['1.0', '1.1', '1.3'] if tier == 'quick' else ['1.0', '1.1', '1.2', '1.3']
    cases = []
    for _ in range(n):
        u = [(nm, r) for nm, r in gendoc.gen_universe(rng, size=rng.choice([2, 3]), with_ext=False)]
        names = [nm for nm, _ in u]
        sets = [[nm] for nm in names]
        uniq = [nm for nm in names if not nm.startswith('ba:2')]
        if len(uniq) > 1:
            sets.append(uniq)                     # several lexicons in one export (identifiers are unique)
        cases.append({'resources': u, 'style_seed': rng.randrange(1 << 30), 'export_sets': sets, 'versions': versions})
    # corpus (always first): the witness of known finding F18 — a WN-LMF 1.0 lexicon with entry-level frames
    f18 = {'id': 'ff', 'label': 'ff', 'language': 'en', 'email': 'e', 'license': 'l', 'version': '1', 'meta': None,
           'entries': [{'id': 'ff-e1', 'meta': None, 'lemma': {'writtenForm': 'give', 'partOfSpeech': 'v'},
                        'senses': [{'id': 'ff-e1-s1', 'synset': 'ff-s1', 'meta': None}, {'id': 'ff-e1-s2', 'synset': 'ff-s1', 'meta': None}],
                        'frames': [{'subcategorizationFrame': 'Somebody ----s something', 'senses': ['ff-e1-s1']},
                                   {'subcategorizationFrame': 'Somebody ----s'}]}],
           'synsets': [{'id': 'ff-s1', 'ili': '', 'partOfSpeech': 'v', 'meta': None}]}
    cases.insert(0, {'resources': [('ff:1', {'lmf_version': '1.0', 'lexicons': [f18]})], 'style_seed': 7,
                     'export_sets': [['ff:1']], 'versions': versions})
    # corpus: relations of one type between the same two synsets (and senses) that differ only in their metadata (dc:type, the
    # idiom for non-standard relations): each is a relation of its own and must be exported
    def rel(t, ty, m):
        return {'target': t, 'relType': ty, 'meta': m}
    dup = {'id': 'dd', 'label': 'dd', 'language': 'en', 'email': 'e', 'license': 'l', 'version': '1', 'meta': None,
           'entries': [{'id': 'dd-e1', 'meta': None, 'lemma': {'writtenForm': 'tie', 'partOfSpeech': 'n'},
                        'senses': [{'id': 'dd-e1-s1', 'synset': 'dd-s1', 'meta': None,
                                    'relations': [rel('dd-e1-s2', 'other', {'type': 't1'}), rel('dd-e1-s2', 'other', {'type': 't2'}),
                                                  rel('dd-s2', 'other', {'type': 't1'}), rel('dd-s2', 'other', {'type': 't2'})]},
                                   {'id': 'dd-e1-s2', 'synset': 'dd-s2', 'meta': None}]}],
           'synsets': [{'id': 'dd-s1', 'ili': 'i1', 'partOfSpeech': 'n', 'meta': None,
                        'relations': [rel('dd-s2', 'other', {'type': 't1'}), rel('dd-s2', 'other', {'type': 't2'}),
                                      rel('dd-s2', 'other', {'type': 't2', 'source': 'x'}), rel('dd-s2', 'hypernym', None)]},
                       {'id': 'dd-s2', 'ili': '', 'partOfSpeech': 'n', 'meta': None}]}
    cases.insert(1, {'resources': [('dd:1', {'lmf_version': '1.1', 'lexicons': [dup]})], 'style_seed': 8,
                     'export_sets': [['dd:1']], 'versions': versions})
    nsh = min(common.NPROC, len(cases))
    outs = common.run_impl_parallel('run_C03.py', [{'cases': cases[i::nsh]} for i in range(nsh)])
    evals = 0
    nontriv = set()
    stats = {}
    for i in range(nsh):
        for case, rec in zip(cases[i::nsh], outs[i]):
            res = dict(case['resources'])
            for ex in rec['exports']:
                evals += 1
                cs = {'resources': res, 'export_set': ex['set'], 'export_version': ex['version'],
                      'source_versions': {nm: res[nm]['lmf_version'] for nm in ex['set']}}
                if ex.get('error') or ex.get('load_error') or ex.get('readd_error'):
                    rep.fail('export, load of the export, or re-adding it failed', cs,
                             {k: ex.get(k) for k in ('error', 'load_error', 'readd_error')})
                    continue
                v = ex['version']
                orig = {'lexicons': {k: x for k, x in rec['original']['lexicons'].items() if k in ex['set']},
                        'obs': {k: x for k, x in rec['original']['obs'].items() if k in ex['set']}}
                a = restrict(orig, v, None)
                b = restrict(ex['readded'], v, None)
                # sense-frame links of frames without ids cannot be written with subcat: known finding F18
                frames_noid = v != '1.0' and any(res[nm]['lmf_version'] == '1.0' for nm in ex['set'])
                fa, fb = strip_frames(a), strip_frames(b)
                d = canon.diff(fa[0], fb[0])
                if d:
                    rep.fail('a database built from the exported file differs observationally from the original', cs,
                             {'difference': d})
                elif fa[1] != fb[1]:
                    if frames_noid:
                        rep.known('F18', 'sense-frame links of frames declared without an id (WN-LMF 1.0 entry-level frames) are '
                                  'not written when exporting to WN-LMF >= 1.1 (no id for subcat to reference)', cs,
                                  {'difference': canon.diff(fa[1], fb[1])})
                        stats['F18'] = stats.get('F18', 0) + 1
                    else:
                        rep.fail('sense-frame links differ after export and re-import', cs,
                                 {'difference': canon.diff(fa[1], fb[1])})
                # direct comparison of what the API does not show: definitions, dependencies
                for lx in ex['loaded']['lexicons']:
                    nm = '%s:%s' % (lx['id'], lx['version'])
                    src = res[nm]['lexicons'][0]
                    if v != '1.0':
                        want = [(r['id'], r['version'], r.get('url')) for r in src.get('requires', [])]
                        got = [(r['id'], r['version'], r.get('url')) for r in lx.get('requires', [])]
                        if sorted(want) != sorted(got):
                            rep.fail('dependencies differ in the export', cs, {'got': got, 'expected': want})
                    sdefs = {ss['id']: [(d_['text'], d_.get('language'), d_.get('sourceSense'), d_.get('meta') or None)
                                        for d_ in ss.get('definitions', [])] for ss in src['synsets']}
                    edefs = {ss['id']: [(d_['text'], d_.get('language') or None, d_.get('sourceSense') or None,
                                         d_.get('meta') or None) for d_ in ss.get('definitions', [])]
                             for ss in lx.get('synsets', [])}
                    if sdefs != edefs:
                        bad = [k for k in sdefs if sdefs[k] != edefs.get(k)]
                        rep.fail('definitions (text, language, source sense, metadata) differ in the export', cs,
                                 {'synset': bad[:1], 'got': edefs.get(bad[0]) if bad else None,
                                  'expected': sdefs.get(bad[0]) if bad else None})
                    def exs(owner):
                        return [(x['text'], x.get('language') or None, x.get('meta') or None) for x in owner.get('examples', [])]
                    sx_ = {ss['id']: exs(ss) for ss in src['synsets']}
                    ex_ = {ss['id']: exs(ss) for ss in lx.get('synsets', [])}
                    for e_s in src.get('entries', []):
                        for se in e_s.get('senses', []):
                            sx_[se['id']] = exs(se)
                            sx_['counts|' + se['id']] = [(c_['value'], c_.get('meta') or None) for c_ in se.get('counts', [])]
                    for e_e in lx.get('entries', []):
                        for se in e_e.get('senses', []):
                            ex_[se['id']] = exs(se)
                            ex_['counts|' + se['id']] = [(c_['value'], c_.get('meta') or None) for c_ in se.get('counts', [])]
                    if sx_ != ex_:
                        bad = [k_ for k_ in sx_ if sx_[k_] != ex_.get(k_)]
                        rep.fail('examples or counts (text, language, metadata) differ in the export', cs,
                                 {'of': bad[:1], 'got': ex_.get(bad[0]) if bad else None,
                                  'expected': sx_.get(bad[0]) if bad else None})
                    # relations, against the SOURCE DOCUMENT: every declared relation (type, target, metadata) is exported, also
                    # several of one type to one target that differ only in metadata (the query API lists relations through
                    # the same queries the export uses, so a loss there is invisible to the comparison of the two databases)
                    def rels(owner):
                        # (as a set: declarations that are identical in type, target and metadata are one relation — the
                        # queries select DISTINCT rows — which is not a loss)
                        return sorted({(r_['relType'], r_['target'], json.dumps(r_.get('meta') or None, sort_keys=True))
                                       for r_ in owner.get('relations', [])})
                    sr_ = {ss['id']: rels(ss) for ss in src['synsets']}
                    er_ = {ss['id']: rels(ss) for ss in lx.get('synsets', [])}
                    for e_s in src.get('entries', []):
                        for se in e_s.get('senses', []):
                            sr_[se['id']] = rels(se)
                    for e_e in lx.get('entries', []):
                        for se in e_e.get('senses', []):
                            er_[se['id']] = rels(se)
                    if sr_ != er_:
                        bad = [k_ for k_ in sr_ if sr_[k_] != er_.get(k_)]
                        rep.fail('relations (type, target, metadata) differ in the export', cs,
                                 {'of': bad[:1], 'got': er_.get(bad[0]) if bad else None,
                                  'expected': sr_.get(bad[0]) if bad else None})
                    # sense -> frames, against the SOURCE DOCUMENT (an error made while adding is exported faithfully and
                    # survives the round trip, so the comparison of the two databases cannot see it)
                    import expect
                    un = expect.Universe([(nm, res[nm])])
                    want_fr = {}
                    for e_s in src.get('entries', []):
                        for se in e_s.get('senses', []):
                            want_fr[se['id']] = sorted(un.frames_of_sense(nm, e_s, se))
                    got_fr = {k_: [] for k_ in want_fr}
                    lvl = {fr.get('id'): fr['subcategorizationFrame'] for fr in lx.get('frames', []) if fr.get('id')}
                    for e_e in lx.get('entries', []):
                        for se in e_e.get('senses', []):
                            for fid in se.get('subcat', []) or []:
                                if fid in lvl:
                                    got_fr.setdefault(se['id'], []).append(lvl[fid])
                        for fr in e_e.get('frames', []):
                            for sid_ in (fr.get('senses') or [se_['id'] for se_ in e_e.get('senses', [])]):
                                got_fr.setdefault(sid_, []).append(fr['subcategorizationFrame'])
                    got_fr = {k_: sorted(set(v_)) for k_, v_ in got_fr.items()}
                    idless = any(not fr.get('id') for fr in src.get('frames', [])) or any(e_s.get('frames') for e_s in src.get('entries', []))
                    if got_fr != want_fr and not (v != '1.0' and idless):
                        bad = [k_ for k_ in want_fr if want_fr[k_] != got_fr.get(k_)]
                        rep.fail('the frames of a sense in the export differ from the source document', cs,
                                 {'sense': bad[:1], 'got': got_fr.get(bad[0]) if bad else None,
                                  'expected': want_fr.get(bad[0]) if bad else None})
                    ili_s = {ss['id']: (ss['ili'], (ss.get('ili_definition') or {}).get('text') if ss['ili'] == 'in' else None)
                             for ss in src['synsets']}
                    ili_e = {ss['id']: (ss['ili'], (ss.get('ili_definition') or {}).get('text') if ss['ili'] == 'in' else None)
                             for ss in lx.get('synsets', [])}
                    if ili_s != ili_e:
                        rep.fail('ILIs (including proposed ones with their definition) differ in the export', cs,
                                 {'got': ili_e, 'expected': ili_s})
                nontriv.add(common.canon_hash([ex['set'], v, str(res)[:4000]]))
    rep.coverage.update({
        'evaluations': evals,
        'distinct_nontrivial': len(nontriv),
        'rule': 'generated non-extension lexicons (source versions 1.0/1.1/1.3; all optional content; dependent lexicons; second '
                'versions) added from XML; exported alone and, when identifiers are unique, several per file, in versions %s; the '
                'export is loaded and re-added to an empty database; canonical observations compared after removing what the '
                'export version cannot express (1.0: logo, requires, form ids, pronunciations, lexfile); definitions, proposed '
                'ILIs and dependencies compared on the loaded export; non-trivial = distinct (lexicon set, version)' % versions,
        'stats': stats,
    })
    rep.samples.append({'export_set': cases[0]['export_sets'][-1], 'versions': versions})
    # tie of Model/Export.v to wn._export on fresh databases (incl. databases holding extensions of the exported lexicon)
    import exportmodel
    exportmodel.run_correspondence(rep, random.Random(common.seed() * 7919 + 33), 12 if tier == 'quick' else 150, versions, 'c03x')


def strip_frames(st):
    st = copy.deepcopy(st)
    fr = {}
    for sp, ob in st['obs'].items():
        for k, s_ in ob.get('senses', {}).items():
            fr[sp + '|' + k] = s_.pop('frames', [])
    return st, fr
