"""C10 — navigation between words, senses and synsets is referentially faithful."""
import random
import common
import canon
import dbfam
import dboracles
import gendoc

TRUSTED = ['declared words/synsets and ILI sharing are computed from the generated documents; Python object equality and '
           'hashing are observed in the implementation process (no Gallina counterpart: entity equality is rowid equality in the model)']


def tweak(rng, u):
    for c in u['configs']:
        c.setdefault('expand', '')
    u['interleave'] = True      # default-mode navigation between the adds


def run(rep, tier, build, replay=None):
    dbfam.run_family(rep, tier, 'C10', 10, [dboracles.oracle_nav], 40, 600, tweak)
    # ---- kept objects: a default-mode Wordnet, and words / synsets obtained from it, created when only the base lexicons
    # are installed and navigated after their extensions (whose senses attach to base entries and base synsets) and further
    # lexicons were added, must navigate exactly as objects obtained afterwards do (the latter are checked against the
    # documents above)
    rng = random.Random(common.seed() * 7919 + 1010)
    n = 24 if tier == 'quick' else 300
    jobs = []
    for _ in range(n):
        u = gendoc.gen_universe(rng, size=rng.choice([2, 3]), force={'ext'})
        pre = [(nm, r) for nm, r in u if not r['lexicons'][0].get('extends')]
        post = [(nm, r) for nm, r in u if r['lexicons'][0].get('extends')]
        if len(pre) > 1 and rng.random() < 0.5:
            post.append(pre.pop())
        jobs.append({'pre': pre, 'post': post})
    outs = common.run_impl_parallel('run_C10.py', [{'jobs': jobs[i::common.NPROC]} for i in range(common.NPROC) if jobs[i::common.NPROC]])
    k_cases = k_ext_senses = 0
    for i, o in enumerate(outs):
        for j, rec in enumerate(o):
            job = jobs[i + j * common.NPROC]
            case = {'installed first': [nm for nm, _ in job['pre']], 'added afterwards': [nm for nm, _ in job['post']],
                    'resources': dict(job['pre'] + job['post'])}
            if not rec['adds_ok']:
                continue
            k_cases += 1
            lexids_pre = set()
            for what in ('kept', 'kept_wordnet'):
                d = canon.diff(rec[what], rec['fresh'])
                if d:
                    rep.fail('navigation from %s differs from navigation from objects obtained after the adds'
                             % ('words/synsets obtained before further lexicons were added' if what == 'kept'
                                else 'a default-mode Wordnet created before further lexicons were added'),
                             case, {'difference': d})
                    break
            for x in rec['fresh']['words'].values():
                if x['senses'][0] == 'ok':
                    k_ext_senses += sum(1 for s in x['sense_nav'] if s['word'][0] == 'ok' and s['ref'][1] is not None)
    rep.coverage['kept_object_cases'] = k_cases
    rep.coverage['kept_object_sense_navigations'] = k_ext_senses
    rep.coverage['rule'] = ('generated universes (several lexicons sharing ILIs, several synsets of one lexicon sharing an ILI, '
                            'absent and proposed ILIs, second versions reusing identifiers, extensions whose senses attach to base '
                            'entries and base synsets) x selections (default mode, single lexicon, several lexicons, extension '
                            'only, lang); every sense: word()/synset() against the declaration, inverse membership, images in '
                            'order, ==/hash/set-membership of objects reached by different routes, translate() of every synset, '
                            'sense and word to lexicon / lang targets; non-trivial = distinct (universe, config) with several lexicons')
