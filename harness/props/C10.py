"""C10 — navigation between words, senses and synsets is referentially faithful."""
import common
import dbfam
import dboracles

TRUSTED = ['declared words/synsets and ILI sharing are computed from the generated documents; Python object equality and '
           'hashing are observed in the implementation process (no Gallina counterpart: entity equality is rowid equality in the model)']


def tweak(rng, u):
    for c in u['configs']:
        c.setdefault('expand', '')
    u['interleave'] = True      # default-mode navigation between the adds


def run(rep, tier, build, replay=None):
    dbfam.run_family(rep, tier, 'C10', 10, [dboracles.oracle_nav], 40, 600, tweak)
    rep.coverage['rule'] = ('generated universes (several lexicons sharing ILIs, several synsets of one lexicon sharing an ILI, '
                            'absent and proposed ILIs, second versions reusing identifiers, extensions whose senses attach to base '
                            'entries and base synsets) x selections (default mode, single lexicon, several lexicons, extension '
                            'only, lang); every sense: word()/synset() against the declaration, inverse membership, images in '
                            'order, ==/hash/set-membership of objects reached by different routes, translate() of every synset, '
                            'sense and word to lexicon / lang targets; non-trivial = distinct (universe, config) with several lexicons')
