"""C12 — relations borrowed through expand lexicons are mapped by ILI as documented."""
import common
import dbfam
import dboracles

TRUSTED = ['expected expanded relations are computed from the generated documents (ILI sharing, placeholder synsets)']


def tweak(rng, u):
    import gendoc
    if rng.random() < 0.15:
        u['resources'], u['configs'] = dbfam.crafted_inferred_chain(rng)
        return
    names = [n for n, _ in u['resources']]
    if 'ba:2' in names and 'bb:1' in names and rng.random() < 0.8:
        # two selected lexicons that depend on DIFFERENT versions of one id (bb:1 -> ba:1, bc:1 -> ba:2, sometimes a
        # version that is not installed): the default expand set is the union of the installed dependencies
        ilis = ['i%d' % i for i in range(1, 8)]
        req = [{'id': 'ba', 'version': rng.choice(['2', '2', '9'])}]
        bc = gendoc.gen_lexicon(rng, 'bc', '1', 'en', ilis, '1.1', size=3, requires=req)
        u['resources'].append(('bc:1', {'lmf_version': '1.1', 'lexicons': [bc]}))
        names.append('bc:1')
        u.setdefault('_extra_cfgs', []).extend([{'lexicon': 'bb:1 bc:1'}, {'lexicon': 'bc:1 bb:1'}, {'lexicon': 'bc:1'}])
    cfgs = []
    for c in u['configs']:
        cfgs.append(c)
    if 'bb:1' in names and rng.random() < 0.5:
        # the dependent lexicon is installed BEFORE the lexicon it requires: the dependency is resolved when the provider
        # arrives (extensions stay after their bases: only bb:1 moves)
        bb = [x for x in u['resources'] if x[0] == 'bb:1'][0]
        u['resources'] = [bb] + [x for x in u['resources'] if x[0] != 'bb:1']
    if 'ba:1' in names and 'ba:2' in names:
        # two versions sharing every synset id: one expands the other
        cfgs += [{'lexicon': 'ba:2', 'expand': 'ba:1'}, {'lexicon': 'ba:1', 'expand': 'ba:2'}]
        # both versions expand a third lexicon at once: the same synset id then stands for different ILIs in the two
        # expand lexicons (each borrowed relation is mapped by the ILI of its own target)
        third = [n for n in names if not n.startswith('ba:') and not n.startswith('xa')]
        for t in third[:2]:
            cfgs += [{'lexicon': t, 'expand': 'ba:1 ba:2'}, {'lexicon': t, 'expand': 'ba:*'}]
    # make sure every kind of expand argument occurs
    base = rng.choice(names)
    others = [n for n in names if n != base] or [base]
    cfgs += [{'lexicon': base}, {'lexicon': base, 'expand': ''}, {'lexicon': base, 'expand': rng.choice(others)},
             {'lexicon': base, 'expand': ' '.join(others[:2])}, {'lexicon': base, 'expand': '*'}, {'lexicon': 'bb:1'},
             {'lexicon': 'bb'}, {}] + u.pop('_extra_cfgs', [])
    u['configs'] = cfgs


def run(rep, tier, build, replay=None):
    def orc(rep_, cx, case, stats):
        dboracles.oracle_expand(rep_, cx, case, stats)
    dbfam.run_family(rep, tier, 'C12', 12, [orc], 26, 400, tweak)
    dbfam.run_tables_stream(rep, tier, 'C12', 1212, 6, 120, mode='expand')
    rep.coverage['rule'] = ('generated universes whose lexicons share ILIs partially (several synsets per ILI, synsets without or '
                            'with proposed ILIs, lexicons with relations of their own, dependent lexicon bb requiring ba and a '
                            'missing lexicon) x expand in {default, "", single, several, "*"} x restricted / default mode; the '
                            'expand set, the missing-dependency warning and the full relation map of every synset are compared '
                            'with the documented construction; non-trivial = distinct (universe, config) with expand lexicons')
