"""C07 — the way a resource is supplied does not change what gets stored."""
import random
import common
import gendoc
import canon

TRUSTED = [
    'runtime behaviour no Gallina model exhibits — gzip/xz/tar codecs, temporary files, directory listing order, "the input '
    'file / in-memory resource is not modified" — is checked by the harness only (file hashes, deep-copy comparison); the '
    'proof covers the dispatch logic of iterpackages and the skip rules',
]


def run(rep, tier, build, replay=None):
    rng = random.Random(common.seed() * 7919 + 7)
    n = 14 if tier == 'quick' else 500
    cases = []
    for i in range(n):
        u = gendoc.gen_universe(rng, size=2)
        plain = [(nm, r) for nm, r in u if not r['lexicons'][0].get('extends')]
        ext = [(nm, r) for nm, r in u if r['lexicons'][0].get('extends')]
        if i % 4 == 1:
            # WN-LMF 1.0 with entry-level frames shared between entries
            lx = gendoc.gen_lexicon(rng, 'old', '1', 'en', ['i1', 'i2'], '1.0', size=5)
            cases.append({'resources': [('old:1', {'lmf_version': '1.0', 'lexicons': [lx]})], 'orphan_extension': None})
        elif i % 5 == 3:
            # a base lexicon followed by an extension of it (with and without url on <Extends>), through the routes that
            # keep the order
            ub = gendoc.gen_universe(rng, size=2, force={'ext'})
            xs = [(nm, r) for nm, r in ub if r['lexicons'][0].get('extends')]
            if xs:
                xn, xr = xs[0]
                bid = '%s:%s' % (xr['lexicons'][0]['extends']['id'], xr['lexicons'][0]['extends']['version'])
                bs = [(nm, r) for nm, r in ub if nm == bid and not r['lexicons'][0].get('requires')]
                if bs and not xr['lexicons'][0].get('requires'):
                    if i % 10 == 3:
                        xr['lexicons'][0]['extends'].pop('url', None)      # <Extends> without url: a default is filled in on insert
                    cases.append({'resources': [bs[0], (xn, xr)], 'sequential': True, 'orphan_extension': None})
                    continue
            cases.append({'resources': [rng.choice(plain)], 'orphan_extension': ext[0][1] if ext else None})
        elif i % 3 == 2 and len(plain) > 1:
            # mutually independent packages (no dependencies between them matter for storage)
            indep = [(nm, r) for nm, r in plain if not r['lexicons'][0].get('requires')][:3]
            cases.append({'resources': indep, 'multi': indep, 'orphan_extension': ext[0][1] if ext else None})
        else:
            cases.append({'resources': [rng.choice(plain)], 'orphan_extension': ext[0][1] if ext else None})
    # crafted: a 1.1 lexicon-level <SyntacticBehaviour> that lists a sense in its `senses` attribute while another sense
    # refers to it through `subcat` (both ways of linking are merged on insert; the resource handed in must stay as it was)
    cf = {'id': 'cf', 'label': 'crafted frames', 'language': 'en', 'email': 'e', 'license': 'l', 'version': '1', 'meta': None,
          'entries': [{'id': 'cf-e0', 'meta': None, 'lemma': {'writtenForm': 'paint', 'partOfSpeech': 'v'},
                       'senses': [{'id': 'cf-e0-s0', 'synset': 'cf-ss0', 'meta': None},
                                  {'id': 'cf-e0-s1', 'synset': 'cf-ss0', 'meta': None, 'subcat': ['cf-fr0']}]}],
          'synsets': [{'id': 'cf-ss0', 'ili': '', 'partOfSpeech': 'v', 'meta': None}],
          'frames': [{'id': 'cf-fr0', 'subcategorizationFrame': 'Somebody ----s', 'senses': ['cf-e0-s0']}]}
    cases.append({'resources': [('cf:1', {'lmf_version': '1.1', 'lexicons': [cf]})], 'orphan_extension': None})
    nsh = min(common.NPROC, len(cases))
    outs = common.run_impl_parallel('run_C07.py', [{'cases': cases[i::nsh]} for i in range(nsh)])
    evals = 0
    nontriv = set()
    for i in range(nsh):
        for case, rec in zip(cases[i::nsh], outs[i]):
            cs = {'resources': [nm for nm, _ in case['resources']], 'documents': case['resources']}
            for rname, err in rec['errors'].items():
                rep.fail('supply route fails or is not idempotent: %s' % err, dict(cs, route=rname), {'error': err})
            for rname in rec['modified']:
                rep.fail('the supplied input was modified by add', dict(cs, route=rname), {})
            names = sorted(rec['routes'])
            ref = rec['routes'].get('memory') or (rec['routes'][names[0]] if names else None)
            for rname in names:
                evals += 1
                d = canon.diff(ref, rec['routes'][rname])
                if d:
                    rep.fail('database content depends on the supply route', dict(cs, route=rname, reference='memory'),
                             {'difference': d})
            if rec.get('orphan') not in (None, {}):
                rep.fail('a lexicon extension whose base is not installed is not skipped as a whole', cs,
                         {'stored': rec['orphan']})
            if len(names) > 3:
                nontriv.add(common.canon_hash(cs['resources'] + [str(case['resources'][0][1])[:2000]]))
    rep.coverage.update({
        'evaluations': evals,
        'distinct_nontrivial': len(nontriv),
        'rule': 'each generated resource through plain XML, .gz, .xz, package directory with README/LICENSE/citation, tar of the '
                'file, tar.gz of the package, tar.xz of the file and lmf.load + add_lexical_resource; groups of independent '
                'resources through a collection directory, tar and tar.gz of it, and file by file; every route into a fresh '
                'database, then the same add repeated; canonical rowid-free content (lexicon attributes, dependency links, full '
                'per-lexicon observation) compared with the in-memory route; an orphan extension must store nothing; file hashes '
                'and deep copies detect modification of the input; non-trivial = distinct resource sets with more than 3 routes',
        'cases': len(cases),
    })
    rep.samples.append({'resources': [nm for nm, _ in cases[0]['resources']], 'routes': sorted(outs[0][0]['routes'])})
    project_correspondence(rep, rng, tier)


LMF = ('<?xml version="1.0" encoding="UTF-8"?>\n<!DOCTYPE LexicalResource SYSTEM "http://globalwordnet.github.io/schemas/'
       'WN-LMF-1.%d.dtd">\n<LexicalResource xmlns:dc="https://globalwordnet.github.io/schemas/dc/">\n</LexicalResource>\n')


def gen_tree(rng, depth):
    leaves = [
        ('lmf', LMF % rng.choice([0, 1, 3])), ('lmf', LMF % 1 + '<!-- %d -->' % rng.randint(0, 99)),
        ('ili', 'ili\tstatus\ni1\tactive\n'), ('ili', 'ILI\tdefinition\n'), ('junk', 'readme text'),
        ('junk', '<?xml version="1.0"?>\n<other/>\n'), ('junk', 'ili\n'), ('junk', ''),
        ('junk', LMF.replace('WN-LMF-1.%d', 'WN-LMF-9.%d') % 1)]

    def leaf():
        k, t = rng.choice(leaves)
        return ['file', ['raw', list(t.encode('utf-8'))]], k

    def package():
        n, k = leaf()
        es = [['res.xml', n]]
        for j in range(rng.choice([0, 1, 2])):
            es.append(['extra%d' % j, rng.choice([['file', ['raw', list(b'notes')]], ['dir', [['x', ['file', ['raw', []]]]]]])])
        if rng.random() < 0.15:
            es.append(['second.xml', leaf()[0]])
        rng.shuffle(es)
        return ['dir', es]

    def tree(d):
        r = rng.random()
        if d == 0 or r < 0.3:
            n, _ = leaf()
            if rng.random() < 0.4:
                n = ['file', [rng.choice(['gz', 'xz']), n[1]]]
                if rng.random() < 0.15:
                    n = ['file', ['gz', n[1]]]
            return n
        if r < 0.5:
            return package()
        if r < 0.65:
            return ['dir', [['p%d' % j, package()] for j in range(rng.choice([1, 2, 3]))]
                    + ([['README', ['file', ['raw', list(b'r')]]]] if rng.random() < 0.5 else [])]
        members = [['m%d' % j, tree(d - 1)] for j in range(rng.choice([1, 1, 1, 2, 0]))]
        c = ['tar', members]
        if rng.random() < 0.5:
            c = [rng.choice(['gz', 'xz']), c]
        return ['file', c]
    return tree(depth)


def leaves_of(n):
    if n[0] == 'dir':
        out = set()
        for _name, x in n[1]:
            out |= leaves_of(x)
        return out
    c = n[1]
    while c[0] in ('gz', 'xz'):
        c = c[1]
    if c[0] == 'raw':
        return {bytes(c[1])}
    out = set()
    for _name, x in c[1]:
        out |= leaves_of(x)
    return out


def tree_sx(n):
    if n[0] == 'dir':
        return [1, [[name, tree_sx(x)] for name, x in n[1]]]
    return [0, content_sx(n[1])]


def content_sx(c):
    if c[0] == 'raw':
        return [0, list(c[1])]
    if c[0] == 'gz':
        return [1, content_sx(c[1])]
    if c[0] == 'xz':
        return [2, content_sx(c[1])]
    return [3, [[name, tree_sx(x)] for name, x in c[1]]]


def project_correspondence(rep, rng, tier):
    n = 150 if tier == 'quick' else 8000
    trees = [gen_tree(rng, rng.choice([1, 2, 3])) for _ in range(n)]
    nsh = common.NPROC
    outs = common.run_impl_parallel('run_project.py', [{'trees': trees[i::nsh]} for i in range(nsh)])
    res = [None] * n
    for i in range(nsh):
        for j, r in enumerate(outs[i]):
            res[i + j * nsh] = r
    accepted = [list((LMF % v).encode()) for v in (0, 1, 3)] + \
        [list((LMF % 1 + '<!-- %d -->' % k).encode()) for k in range(100)]
    pairs = []
    kinds = {}
    for t, r in zip(trees, res):
        if r[0] == 'ok':
            exp = [[0 if ty == 'wordnet' else 1, b] for ty, b in r[1]]
        elif r[1] == 'WnError':
            exp = -1
        else:
            rep.fail('iterpackages raised something else than wn.Error', {'tree': t}, {'got': r})
            continue
        kinds[str(exp if exp == -1 else len(exp))] = kinds.get(str(exp if exp == -1 else len(exp)), 0) + 1
        pairs.append(([tree_sx(t), [a for a in accepted if bytes(a) in leaves_of(t)]], exp))
    mism, info = common.coq_mismatches('WnV.Model.Project', 'run_project', 'agree_project', pairs, tag='c07', shard=60)
    if info['errors']:
        rep.broke('correspondence evaluation failed in Coq: ' + '; '.join(info['errors'])[:1500])
    if mism:
        rep.broke('correspondence Model/Project.v vs wn.project.iterpackages: %d of %d cases differ; first: %s -> impl %s; model: %s'
                  % (len(mism), len(pairs), trees[0] and str(pairs[mism[0]][0][0])[:800], str(pairs[mism[0]][1])[:200],
                     info.get('model_outputs', '')[:400]))
    rep.coverage['traces_validated_against_impl'] = len(pairs)
    rep.coverage['project_result_kinds'] = kinds
    rep.coverage['correspondence_mismatches'] = len(mism)
