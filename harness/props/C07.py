"""C07 — the way a resource is supplied does not change what gets stored."""
import random
import common
import gendoc
import canon

TRUSTED = [
    'runtime behaviour no Gallina model exhibits — gzip/xz/tar codecs, temporary files, directory listing order, "the input '
    'file / in-memory resource is not modified" — is checked by the harness only (file hashes, deep-copy comparison); the '
    'proof covers the dispatch logic of iterpackages and the skip rules',
]


def run(rep, tier, build, replay=None):
    rng = random.Random(common.seed() * 7919 + 7)
    n = 14 if tier == 'quick' else 200
    cases = []
    for i in range(n):
        u = gendoc.gen_universe(rng, size=2)
        plain = [(nm, r) for nm, r in u if not r['lexicons'][0].get('extends')]
        ext = [(nm, r) for nm, r in u if r['lexicons'][0].get('extends')]
        if i % 4 == 1:
            # WN-LMF 1.0 with entry-level frames shared between entries
            lx = gendoc.gen_lexicon(rng, 'old', '1', 'en', ['i1', 'i2'], '1.0', size=5)
            cases.append({'resources': [('old:1', {'lmf_version': '1.0', 'lexicons': [lx]})], 'orphan_extension': None})
        elif i % 3 == 2 and len(plain) > 1:
            # mutually independent packages (no dependencies between them matter for storage)
            indep = [(nm, r) for nm, r in plain if not r['lexicons'][0].get('requires')][:3]
            cases.append({'resources': indep, 'multi': indep, 'orphan_extension': ext[0][1] if ext else None})
        else:
            cases.append({'resources': [rng.choice(plain)], 'orphan_extension': ext[0][1] if ext else None})
    nsh = min(common.NPROC, len(cases))
    outs = common.run_impl_parallel('run_C07.py', [{'cases': cases[i::nsh]} for i in range(nsh)])
    evals = 0
    nontriv = set()
    for i in range(nsh):
        for case, rec in zip(cases[i::nsh], outs[i]):
            cs = {'resources': [nm for nm, _ in case['resources']], 'documents': case['resources']}
            for rname, err in rec['errors'].items():
                rep.fail('supply route fails or is not idempotent: %s' % err, dict(cs, route=rname), {'error': err})
            for rname in rec['modified']:
                rep.fail('the supplied input was modified by add', dict(cs, route=rname), {})
            names = sorted(rec['routes'])
            ref = rec['routes'].get('memory') or (rec['routes'][names[0]] if names else None)
            for rname in names:
                evals += 1
                d = canon.diff(ref, rec['routes'][rname])
                if d:
                    rep.fail('database content depends on the supply route', dict(cs, route=rname, reference='memory'),
                             {'difference': d})
            if rec.get('orphan') not in (None, {}):
                rep.fail('a lexicon extension whose base is not installed is not skipped as a whole', cs,
                         {'stored': rec['orphan']})
            if len(names) > 3:
                nontriv.add(common.canon_hash(cs['resources'] + [str(case['resources'][0][1])[:2000]]))
    rep.coverage.update({
        'evaluations': evals,
        'distinct_nontrivial': len(nontriv),
        'rule': 'each generated resource through plain XML, .gz, .xz, package directory with README/LICENSE/citation, tar of the '
                'file, tar.gz of the package, tar.xz of the file and lmf.load + add_lexical_resource; groups of independent '
                'resources through a collection directory, tar and tar.gz of it, and file by file; every route into a fresh '
                'database, then the same add repeated; canonical rowid-free content (lexicon attributes, dependency links, full '
                'per-lexicon observation) compared with the in-memory route; an orphan extension must store nothing; file hashes '
                'and deep copies detect modification of the input; non-trivial = distinct resource sets with more than 3 routes',
        'cases': len(cases),
    })
    rep.samples.append({'resources': [nm for nm, _ in cases[0]['resources']], 'routes': sorted(outs[0][0]['routes'])})
