"""C13 — taxonomy functions agree with graph-theoretic definitions."""
import random
import common
import graphs as G

TRUSTED = [
    'modelled, not verified: the agenda loop of _Relatable.relation_paths is modelled as depth-first recursion '
    '(validated by correspondence on every digraph up to the node bound); Python min/max/sorted/set semantics; '
    'synset.hypernyms() is the model\'s input (its agreement with the declared relations is checked by the oracle)',
]


def gen_graphs(rng, tier):
    gs = []
    k = 0
    exhaustive_n = 3 if tier == 'quick' else 4
    for n in range(1, exhaustive_n + 1):
        for edges in G.all_digraphs(n):
            gs.append(G.mk_graph(k, n, edges, rng, hypo_mode=rng.choice(['reverse', 'reverse', 'mostly'])))
            k += 1
    nrand = 160 if tier == 'quick' else 3000
    for _ in range(nrand):
        n = rng.randint(4, 7 if tier == 'quick' else 9)
        kind = rng.choice(['forest', 'dag', 'diamond', 'cyclic', 'sparse'])
        gs.append(G.mk_graph(k, n, G.random_edges(rng, n, kind), rng,
                             hypo_mode=rng.choice(['reverse', 'mostly'])))
        k += 1
    # corpus: the design's witnesses
    for n, edges in [(5, [(1, 2), (2, 1), (1, 3), (3, 4), (5, 2)]),          # F12: s<->h, s->z->z2, x->h
                     (6, [(1, 3), (1, 4), (2, 3), (2, 5), (5, 4), (3, 6), (4, 6)]),  # two LCS at different distances
                     (4, [(1, 1), (1, 2), (2, 3), (3, 2), (4, 4)])]:
        gs.append(G.mk_graph(k, n, edges, rng, pos_mode='n'))
        k += 1
    return gs, exhaustive_n


def oracle_graph(rep, g, rec, stats):
    n = g['n']
    edges = g['plain_edges']
    adj = G.adj_of(n, edges)
    case = {'graph_k': g['k'], 'n': n, 'edges': edges, 'pos': g['pos'], 'qpos': g['qpos'],
            'typed_edges': g['edges']}
    cyc = G.has_cycle(n, edges)
    nontrivial = cyc or any(len(adj[i]) >= 2 for i in range(1, n + 1))
    for i in range(1, n + 1):
        if set(rec['hyp'][str(i)]) != set(adj[i]) or len(set(rec['hyp'][str(i)])) != len(rec['hyp'][str(i)]):
            rep.fail('hypernyms() is not the set of declared hypernym/instance_hypernym targets', case,
                     {'node': i, 'declared': adj[i], 'got': rec['hyp'][str(i)]})
            return nontrivial
    chains = {i: G.maximal_simple_chains(adj, i) for i in range(1, n + 1)}
    reach = {i: G.reach_set(adj, i) for i in range(1, n + 1)}
    dist = {i: G.bfs_dist(adj, i) for i in range(1, n + 1)}
    klass = {'a': 'as', 's': 'as'}.get(g['qpos'], g['qpos'])
    vp = [i for i in range(1, n + 1) if g['pos'][i - 1] in klass]
    # hyponym relations as declared
    hypo = {i: set() for i in range(1, n + 1)}
    for s, t, ty in g['edges']:
        if ty in ('hyponym', 'instance_hyponym'):
            hypo[s].add(t)
    if set(rec['roots']) != {i for i in vp if not adj[i]} or len(rec['roots']) != len(set(rec['roots'])):
        rep.fail('roots() is not the set of synsets of the part of speech without hypernyms', case,
                 {'got': rec['roots'], 'expected': sorted(i for i in vp if not adj[i])})
    if set(rec['leaves']) != {i for i in vp if not hypo[i]}:
        rep.fail('leaves() is not the set of synsets of the part of speech without hyponyms', case,
                 {'got': rec['leaves'], 'expected': sorted(i for i in vp if not hypo[i])})
    paths0 = {i: [p for p in chains[i] if p] for i in range(1, n + 1)}
    true_depth = max([len(p) for i in vp for p in paths0[i]] + [0])
    td = rec['taxdepth']
    if td[0] != 'ok':
        rep.fail('taxonomy_depth raised', case, {'got': td})
    elif td[1] != true_depth:
        if cyc and td[1] < true_depth:
            rep.known('F12', 'taxonomy_depth under-counts on a cyclic hypernym graph depending on synset order '
                             '(e.g. graph %s: got %d, longest chain %d)' % (edges, td[1], true_depth),
                      case, {'got': td[1], 'expected': true_depth})
            stats['F12'] = stats.get('F12', 0) + 1
        else:
            rep.fail('taxonomy_depth is not the longest hypernym chain of the part of speech', case,
                     {'got': td[1], 'expected': true_depth, 'cyclic': cyc})
    for sr in (False, True):
        r = rec['sr'][str(int(sr))]
        c2 = dict(case, simulate_root=sr)
        exp_paths = {}
        for i in range(1, n + 1):
            ps = paths0[i]
            if sr:
                ps = [p + [0] for p in ps] or [[0]]
            exp_paths[i] = ps
            got, mn, mx = r['nodes'][i - 1]
            if sorted(map(tuple, got)) != sorted(map(tuple, ps)):
                rep.fail('hypernym_paths is not the set of maximal simple hypernym chains', c2,
                         {'node': i, 'got': got, 'expected': ps})
            lens = [len(p) for p in ps]
            if mn != (min(lens) if lens else 0) or mx != (max(lens) if lens else 0):
                rep.fail('min_depth/max_depth are not the shortest/longest chain', c2,
                         {'node': i, 'got': [mn, mx], 'expected_lengths': lens})
        ends = {i: {(p[-1] if p else i) for p in chains[i]} for i in range(1, n + 1)}
        mdepth = {i: max([len(p) for p in exp_paths[i]] + [0]) for i in range(1, n + 1)}
        mdepth[0] = 0
        mind = {i: min([len(p) for p in exp_paths[i]] + ([0] if not exp_paths[i] else [])) for i in range(1, n + 1)}
        pi = 0
        splen = {}
        for a in range(1, n + 1):
            for b in range(1, n + 1):
                com, low, sp = r['pairs'][pi]
                pi += 1
                c3 = dict(c2, a=a, b=b)
                ecom = reach[a] & reach[b]
                if sr:
                    ecom = ecom | {0}
                if set(com) != ecom or len(set(com)) != len(com):
                    rep.fail('common_hypernyms is not the intersection of the two ancestor sets', c3,
                             {'got': com, 'expected': sorted(ecom)})
                if a == b:
                    elow = {a}
                elif ecom:
                    top = max(mdepth[c] for c in ecom)
                    elow = {c for c in ecom if mdepth[c] == top}
                else:
                    elow = set()
                if cyc:
                    # interpretation point (DESIGN.md): "depth" has no canonical meaning on a cyclic
                    # graph (the code measures it along the enumerated chains); only structure is demanded
                    if not set(low) <= ecom or (not low) != (not ecom) or len(set(low)) != len(low):
                        rep.fail('lowest_common_hypernyms are not common hypernyms', c3,
                                 {'got': low, 'common': sorted(ecom)})
                    if set(low) != elow:
                        stats['lch_cyclic_diff'] = stats.get('lch_cyclic_diff', 0) + 1
                elif set(low) != elow:
                    if False:
                        pass
                    else:
                        rep.fail('lowest_common_hypernyms are not the common hypernyms of greatest depth', c3,
                                 {'got': low, 'expected': sorted(elow)})
                # shortest path
                if a == b:
                    elen = 0
                else:
                    cands = [dist[a][c] + dist[b][c] for c in (reach[a] & reach[b])]
                    if sr:
                        cands.append(mind[a] + mind[b])
                    elen = min(cands) if cands else None
                if sp[0] != 'ok':
                    if elen is not None or sp[1] != 'WnError':
                        rep.fail('shortest_path fails although the synsets share a hypernym (or raises something else than wn.Error)',
                                 c3, {'got': sp, 'expected_length': elen})
                    splen[(a, b)] = None
                    continue
                path = sp[1]
                splen[(a, b)] = len(path)
                if elen is None:
                    rep.fail('shortest_path returns a path although nothing is shared', c3, {'got': path})
                    continue
                ok = (len(path) == elen) and ((path == []) == (a == b))
                seq = [a] + path
                if path and path[-1] != b:
                    ok = False
                for u, v in zip(seq, seq[1:]):
                    if u == 0 or v == 0:
                        x = v if u == 0 else u
                        if not sr or x == 0 or x not in (ends[a] | ends[b]):
                            ok = False
                    elif v not in adj[u] and u not in adj[v]:
                        ok = False
                if not ok:
                    rep.fail('shortest_path is not a genuine hypernym path of minimal length ending at the other synset',
                             c3, {'got': path, 'expected_length': elen})
        for (a, b), l in splen.items():
            if splen.get((b, a), l) != l:
                rep.fail('shortest_path length differs between the two directions', dict(c2, a=a, b=b),
                         {'ab': l, 'ba': splen.get((b, a))})
    return nontrivial


def to_pairs(g, rec):
    n = g['n']
    graph = [[i, rec['hyp'][str(i)]] for i in range(1, n + 1)]
    hypo = [[i, rec['hypo'][str(i)]] for i in range(1, n + 1)]
    V = list(range(1, n + 1))
    out = []
    for sr in (False, True):
        r = rec['sr'][str(int(sr))]
        td = rec['taxdepth']
        impl = [[[p, mn, mx] for p, mn, mx in r['nodes']],
                [[com, low, (len(sp[1]) if sp[0] == 'ok' else -1), (sp[1] if sp[0] == 'ok' else -1)] for com, low, sp in r['pairs']],
                td[1] if td[0] == 'ok' else -9, rec['roots'], rec['leaves']]
        out.append(([graph, hypo, V, sr, rec['vp']], impl))
    return out


def run(rep, tier, build, replay=None):
    rng = random.Random(common.seed() * 7919 + 13)
    gs, exhaustive_n = gen_graphs(rng, tier)
    shards = common.shard_dbs(gs, 48)
    outs = common.run_impl_parallel('run_graph.py', [{'dbs': s, 'want': ['tax']} for s in shards])
    byk = {}
    for o in outs:
        for rec in o:
            byk[rec['k']] = rec
    stats = {}
    nontriv = set()
    pairs = []
    for g in gs:
        rec = byk[g['k']]
        if oracle_graph(rep, g, rec, stats):
            nontriv.add(common.canon_hash([g['n'], g['plain_edges']]))
        pairs += to_pairs(g, rec)
    mism, info = common.coq_mismatches('WnV.Model.Taxonomy', 'run_taxonomy', 'agree_taxonomy', pairs,
                                       tag='c13', shard=120)
    if info['errors']:
        rep.broke('correspondence evaluation failed in Coq: ' + '; '.join(info['errors'])[:1500])
    if mism:
        ex = [{'input': pairs[i][0], 'impl': pairs[i][1]} for i in mism[:2]]
        rep.broke('correspondence Model/Taxonomy.v vs wn.taxonomy: %d of %d cases differ; first: %s; model says: %s'
                  % (len(mism), len(pairs), ex, info.get('model_outputs', '')[:2000]))
    rep.coverage.update({
        'evaluations': len(pairs),
        'distinct_nontrivial': len(nontriv),
        'exhaustive': True,
        'rule': 'every labelled digraph with self-loops on 1..%d nodes (exhaustive), plus random forests, DAGs, diamonds, '
                'cyclic and sparse graphs up to %d nodes; each is one lexicon in a real database; all nodes, all ordered '
                'pairs, simulate_root in {False, True}, part of speech n / v / mixed a+s / mixed n+v; non-trivial = distinct '
                'edge sets with a node of out-degree >= 2 or a cycle' % (exhaustive_n, 7 if tier == 'quick' else 9),
        'graphs': len(gs),
        'traces_validated_against_impl': len(pairs),
        'correspondence_mismatches': len(mism),
        'coq_eval_wall_s': round(info['wall'], 1),
        'stats': {k: v for k, v in stats.items()},
    })
    g = gs[-2]
    rep.samples.append({'graph': g['plain_edges'], 'pos': g['pos'],
                        'impl_simulate_root_False': byk[g['k']]['sr']['0']})
