"""C06 — a failed add or remove leaves the database exactly as it was."""
import copy
import random
import common
import gendoc

TRUSTED = [
    'fault enumeration runs on the real code: exceptions are raised from the caller\'s progress handler at every callback, '
    'single references of the resource are corrupted, and every INSERT/UPDATE/DELETE statement is denied in turn through '
    'sqlite3.Connection.set_authorizer on the pooled connection; SQLite\'s own rollback is trusted',
]


def corrupt(rng, res):
    """single-fault corruptions of a resource that make the add fail"""
    out = []
    lexs = res['lexicons']

    def variant(desc, f):
        r = copy.deepcopy(res)
        try:
            if f(r) is not False:
                out.append([desc, r])
        except (IndexError, KeyError, ValueError):
            pass
    k = len(lexs) - 1          # corrupt the LAST lexicon so earlier ones are already inserted

    def senses(r):
        return [s for e in r['lexicons'][k].get('entries', []) for s in e.get('senses', []) if not s.get('external')]

    def f1(r):
        s = rng.choice(senses(r))
        s['synset'] = 'no-such-synset'
    variant('sense->missing synset', f1)

    def f2(r):
        ss = rng.choice([x for x in r['lexicons'][k]['synsets']])
        ss.setdefault('relations', []).append({'target': 'no-such-synset', 'relType': 'hypernym', 'meta': None})
    variant('synset relation->missing target', f2)

    def f3(r):
        s = rng.choice(senses(r))
        s.setdefault('relations', []).append({'target': 'no-such-thing', 'relType': 'also', 'meta': None})
    variant('sense relation->missing target', f3)

    def f4(r):
        es = [e for e in r['lexicons'][k]['entries'] if not e.get('external')]
        e = copy.deepcopy(rng.choice(es))
        for s in e.get('senses', []):
            s['id'] = s['id'] + '-dup'
        r['lexicons'][k]['entries'].append(e)
    variant('duplicate entry id', f4)

    def f5(r):
        es = [e for e in r['lexicons'][k]['entries'] if not e.get('external')]
        e = rng.choice(es)
        e['lemma'].setdefault('script', 'Latn')      # UNIQUE (entry, form, script) treats NULL scripts as distinct
        e.setdefault('forms', []).append({'writtenForm': e['lemma']['writtenForm'], 'script': e['lemma']['script']})
    variant('duplicate form', f5)
    return out


def run(rep, tier, build, replay=None):
    rng = random.Random(common.seed() * 7919 + 6)
    n = 8 if tier == 'quick' else 400
    cases = []
    for i in range(n):
        u = gendoc.gen_universe(rng, size=2, force={'ext'})
        names = [nm for nm, _ in u]
        res = dict(u)
        if i % 4 == 3 and 'xa:1' in names:
            # a resource [new lexicon, an extension that is already installed (skipped), another new lexicon]: a failure in
            # the last lexicon must undo the first one although a skipped lexicon lies in between
            ilis = ['i%d' % j for j in range(1, 8)]
            na = gendoc.gen_lexicon(rng, 'na', '1', 'en', ilis, '1.1', size=2)
            nb = gendoc.gen_lexicon(rng, 'nb', '1', 'en', ilis, '1.1', size=3)
            mixed = {'lmf_version': '1.1', 'lexicons': [na, copy.deepcopy(res['xa:1']['lexicons'][0]), nb]}
            cases.append({'setup': [['add', res[nm]] for nm in names], 'target': ['add', mixed],
                          'corrupted': corrupt(rng, mixed), 'desc': 'new lexicon, installed extension (skipped), new lexicon'})
        elif i % 3 == 0:
            # several lexicons in one resource: failures in a later lexicon must undo the earlier ones
            multi = {'lmf_version': '1.3', 'lexicons': [copy.deepcopy(r['lexicons'][0]) for nm, r in u
                                                         if not r['lexicons'][0].get('extends')]}
            cases.append({'setup': [], 'target': ['add', multi], 'corrupted': corrupt(rng, multi),
                          'desc': 'multi-lexicon add into an empty database'})
        elif i % 3 == 1 and 'xa:1' in names:
            cases.append({'setup': [['add', res[nm]] for nm in names if nm != 'xa:1'],
                          'target': ['add', res['xa:1']], 'corrupted': corrupt(rng, res['xa:1']),
                          'desc': 'extension added to a populated database'})
        else:
            cases.append({'setup': [['add', res[nm]] for nm in names],
                          'target': ['remove', rng.choice(['ba:1', 'ba:*', '*'])], 'corrupted': [],
                          'desc': 'removal of a lexicon with its extensions'})
    nsh = min(common.NPROC, len(cases))
    outs = common.run_impl_parallel('run_C06.py', [{'cases': cases[i::nsh]} for i in range(nsh)])
    total = 0
    kinds = {}
    traces = []
    nontriv = set()
    for i in range(nsh):
        for case, rec in zip(cases[i::nsh], outs[i]):
            total += rec['faults']
            for k, v in rec['kinds'].items():
                kinds[k.split(':')[0]] = kinds.get(k.split(':')[0], 0) + v
            for v in rec['violations']:
                rep.fail('a failed operation is not atomic: ' + v['what'],
                         {'description': case['desc'], 'setup': case['setup'], 'target': case['target'],
                          'fault_kind': v['kind'], 'fault_at': v['at']}, v)
            if rec['K'] > 3:
                nontriv.add(common.canon_hash(case['target']))
            # tie to Model/Txn.v: the statement trace of a clean run has the shape the model assumes —
            # add: every INSERT/UPDATE between one BEGIN and one COMMIT; remove: one BEGIN..COMMIT per lexicon
            import re
            tr = rec['trace']
            shape_ok = bool(re.fullmatch(r's*(B[sD]*C)s*', tr)) if case['target'][0] == 'add' else \
                bool(re.fullmatch(r's*(B[sD]*Cs*)*', tr))
            if 'D' in tr and not shape_ok:
                rep.broke('statement trace of %s does not have the transaction shape Model/Txn.v assumes: %s'
                          % (case['desc'], tr[:300]))
            traces.append([case['desc'], tr[:120]])
    rep.coverage.update({
        'evaluations': total,
        'distinct_nontrivial': max(len(nontriv), 0),
        'exhaustive': True,
        'rule': 'for each operation (multi-lexicon add into an empty database, extension add into a populated database, removal '
                'of a lexicon with its extensions): an exception raised from the progress handler at EVERY callback k = 1..K of '
                'a clean run, EVERY INSERT/UPDATE/DELETE authorizer call denied in turn, and single corrupted references '
                '(sense->synset, synset- and sense-relation targets, duplicate entry id, duplicate form) in the last lexicon; '
                'after each fault the tables read through a new connection must equal the tables before, the pooled connection '
                'must be usable, and a following valid run must give the normal result; exhaustive over failure points per '
                'operation; non-trivial = distinct operations with more than 3 callbacks',
        'fault_kinds': kinds,
        'operations': len(cases),
        'statement_traces': traces[:6],
    })
    rep.samples.append({'operation': cases[0]['desc'], 'K': outs[0][0]['K'], 'A': outs[0][0]['A']})
