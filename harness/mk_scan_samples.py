"""harness/mk_scan_samples.py <seed> <count> <outdir> — real cases for Model/Scan.v (run_scan)."""
import os
import random
import sys
HERE = os.path.dirname(os.path.abspath(__file__))
sys.path.insert(0, HERE)
import common     # noqa: E402
import scanmodel  # noqa: E402

seed, count, outdir = int(sys.argv[1]), int(sys.argv[2]), sys.argv[3]
os.makedirs(outdir, exist_ok=True)
rng = random.Random(seed)
jobs = scanmodel.gen_jobs(rng, count)
outs = common.run_impl('run_scan.py', {'jobs': jobs})
k = 0
for rec in outs:
    pair = scanmodel.to_pair(rec)
    if pair is None:
        continue
    with open(os.path.join(outdir, 'case_%d_%d.v' % (seed, k)), 'w') as fh:
        fh.write('From Coq Require Import ZArith List.\nImport ListNotations.\nRequire Import WnV.Base.Sx.\n'
                 'Local Open Scope Z_scope.\n(* to be evaluated with run_scan *)\n')
        fh.write('Definition input_%d : sx :=\n %s.\n' % (k, common.sx(list(pair[0]))))
        fh.write('Definition expected_%d : sx :=\n %s.\n' % (k, common.sx(pair[1])))
    k += 1
common.cleanup()
print('wrote', k, 'cases to', outdir)
