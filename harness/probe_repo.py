"""Runs under /venv/bin/python with PYTHONPATH=$VERIF_REPO: imports the live wn
modules and prints, as JSON, every constant table the Coq models depend on.
Fail-closed: any unexpected shape raises and the translator aborts."""
import json
import sys
import sqlite3
from importlib import resources


def main():
    import wn
    from wn import morphy, constants, lmf, validate, taxonomy, ic, _add, _db, _core
    out = {}
    out['wn_file'] = wn.__file__

    # --- morphy
    S = morphy._System
    rules = []
    for pos, rl in morphy.DETACHMENT_RULES.items():
        assert isinstance(pos, str)
        rr = []
        for r in rl:
            assert isinstance(r, tuple) and len(r) == 3
            suf, rep, flag = r
            assert isinstance(suf, str) and isinstance(rep, str)
            assert suf.isascii() and rep.isascii()
            rr.append([suf, rep, bool(flag & S.PWN), bool(flag & S.NLTK), bool(flag & S.WN)])
        rules.append([pos, rr])
    out['morphy_rules'] = rules
    out['parts_of_speech'] = sorted(constants.PARTS_OF_SPEECH)
    out['pos_consts'] = {k: getattr(constants, k) for k in
                         ('NOUN', 'VERB', 'ADJ', 'ADV', 'ADJ_SAT')}

    # --- constants
    out['BATCH_SIZE'] = _add.BATCH_SIZE
    out['DEFAULT_MEMBER_RANK'] = _add.DEFAULT_MEMBER_RANK
    out['NON_ROWID'] = _db.NON_ROWID
    out['INFERRED_SYNSET'] = _core._INFERRED_SYNSET
    out['FAKE_ROOT'] = taxonomy._FAKE_ROOT
    out['IC_PARTS_OF_SPEECH'] = sorted(ic.IC_PARTS_OF_SPEECH)
    out['SENSE_RELATIONS'] = sorted(constants.SENSE_RELATIONS)
    out['SENSE_SYNSET_RELATIONS'] = sorted(constants.SENSE_SYNSET_RELATIONS)
    out['SYNSET_RELATIONS'] = sorted(constants.SYNSET_RELATIONS)
    out['REVERSE_RELATIONS'] = [[k, v] for k, v in constants.REVERSE_RELATIONS.items()]

    # --- lmf tables
    out['SUPPORTED_VERSIONS'] = sorted(lmf.SUPPORTED_VERSIONS)
    out['SCHEMAS'] = [[k, v] for k, v in sorted(lmf._SCHEMAS.items())]
    out['DC_URIS'] = [[k, v] for k, v in sorted(lmf._DC_URIS.items())]
    out['DC_ATTRS'] = list(lmf._DC_ATTRS)
    out['XMLDECL'] = lmf._XMLDECL.decode('ascii')
    out['DOCTYPE'] = lmf._DOCTYPE
    out['VALID_ELEMS'] = [[v, sorted(d.items())] for v, d in sorted(lmf._VALID_ELEMS.items())]
    out['LIST_ELEMS'] = sorted(lmf._LIST_ELEMS)
    out['CDATA_ELEMS'] = sorted(lmf._CDATA_ELEMS)
    out['META_ELEMS'] = sorted(lmf._META_ELEMS)
    out['NS_ATTRS_PLAIN'] = sorted(
        k for k in lmf._NS_ATTRS['1.0'] if ' ' not in k)

    # --- validate table
    out['VALIDATE_CODES'] = [[code, f.__name__, f.__doc__ or '']
                             for code, f in validate._codes.items()]

    # --- schema
    schema = (resources.files('wn') / 'schema.sql').read_text()
    conn = sqlite3.connect(':memory:')
    conn.executescript(schema)
    tables = []
    names = [r[0] for r in conn.execute(
        "SELECT name FROM sqlite_master WHERE type='table' ORDER BY rowid")]
    for t in names:
        cols = [[c[1], c[2].upper(), bool(c[3]), bool(c[5])]
                for c in conn.execute(f'PRAGMA table_info({t})')]
        fks = [[f[3], f[2], f[4], f[6]]
               for f in conn.execute(f'PRAGMA foreign_key_list({t})')]
        fks.sort()
        uniq = []
        for idx in conn.execute(f'PRAGMA index_list({t})'):
            if idx[2]:  # unique
                ucols = [c[2] for c in conn.execute(f'PRAGMA index_info({idx[1]})')]
                uniq.append(ucols)
        uniq.sort()
        tables.append([t, cols, fks, uniq])
    out['SCHEMA'] = tables
    out['INIT_ILI_STATUSES'] = None  # read below from a fresh database
    import tempfile, shutil
    d = tempfile.mkdtemp(prefix='wnverif-probe-', dir='/dev/shm')
    try:
        wn.config.data_directory = d
        c = _db.connect()
        out['INIT_ILI_STATUSES'] = [r[0] for r in c.execute(
            'SELECT status FROM ili_statuses ORDER BY rowid')]
        out['SCHEMA_HASHES'] = sorted(_db.COMPATIBLE_SCHEMA_HASHES)
        c.close()
    finally:
        shutil.rmtree(d, ignore_errors=True)
    json.dump(out, sys.stdout)


if __name__ == '__main__':
    main()
