"""Table-level generation for the query-layer correspondence (Model/Core.v vs the real query API):
random rows are inserted directly into a fresh wn database (rank ties and NULL ranks, senses whose
entry or synset lives in another lexicon, shared identifiers, shared ILIs, duplicate relation rows,
entries without forms, extension chains, missing dependencies ...).  These database states are not
all reachable through wn.add; they widen what the *model-vs-code* tie is checked on (no property
oracle is evaluated on them).  Written by the model-core sub-agent; made a module here."""
import json
import coremodel

FORMS = ['cat', 'Cat', 'cats', 'dog', 'Dog', 'run', 'ran', 'résumé', 'resume', 'Resume', 'straße', 'strasse', 'bank', 'x']
POS = ['n', 'v', 'a']
SYNRELS = ['hypernym', 'hyponym', 'instance_hypernym', 'instance_hyponym', 'similar', 'xrel', 'also']
SENRELS = ['antonym', 'derivation', 'also', 'similar', 'pertainym', 'xrel']
SENSYNRELS = ['domain_topic', 'other', 'xrel']
ATTR = ['plain', 'q"uote', 'tab\tnl\nend', 'ünï𝒳', 't1', 't2']
LEM = {'cats': {'n': ['cat'], 'v': ['cat', 'cats']}, 'ran': {'v': ['run', 'Ran']}, 'dogs': {'n': ['dog', 'Dog']},
       'Cat': {'': ['cat', 'Résumé', 'dog', 'bank'], 'n': ['bank', 'x']}, 'resume': {'n': ['RESUME', 'résumé'], 'v': []}, 'x': {}}


def blob(d):
    return None if d is None else {'blob': json.dumps(d)}


def _mk(rng, MODE):
  def meta(p=0.3):
      if rng.random() >= p:
          return None
      return blob({k: rng.choice(ATTR) for k in rng.sample(['source', 'note', 'type', 'status'], rng.randint(1, 2))})


  def relmeta():
      r = rng.random()
      if r < 0.35:
          return blob({'type': rng.choice(['t1', 't2', 'ünï𝒳'])})
      if r < 0.45:
          return blob({'note': 'type'})
      return None


  def gen_tables():
      t = {}
      statuses = ['presupposed', 'proposed', 'active']
      t['ili_statuses'] = [[i + 1, s] for i, s in enumerate(statuses)]
      nili = rng.randint(2, 4) if MODE == 'expand' else rng.randint(0, 5)
      t['ilis'] = [[i + 1, 'i%d' % (i + 1), rng.randint(1, 3), rng.choice([None, 'def of i%d' % (i + 1)]), meta()]
                   for i in range(nili)]
      specs = rng.sample([('ba', '1'), ('ba', '2'), ('bb', '1'), ('xa', '1'), ('xx', '1'), ('cc', '1'), ('b', '1')], rng.randint(1, 5))
      t['lexicons'] = [[i + 1, lid, 'Label ' + lid, rng.choice(['en', 'en', 'fr', 'de']), 'a@b.c', 'CC', ver,
                        rng.choice([None, 'http://x']), None, None, meta(), 0] for i, (lid, ver) in enumerate(specs)]
      nlex = len(specs)
      lexids = list(range(1, nlex + 1))
      deps = []
      for lx in lexids:
          for _ in range(rng.choice([0, 0, 1, 2])):
              if rng.random() < 0.25:
                  deps.append([lx, 'missing', '9', None, None])
              else:
                  p = rng.choice(lexids)
                  deps.append([lx, specs[p - 1][0], specs[p - 1][1], None, p])
      t['lexicon_dependencies'] = deps
      exts, seen = [], set()
      for lx in lexids[1:]:
          for _ in range(rng.choice([0, 1, 1, 2])):
              b = rng.randint(1, lx - 1)
              if (lx, b) in seen:
                  continue
              seen.add((lx, b))
              exts.append([lx, specs[b - 1][0], specs[b - 1][1], None, b])
      t['lexicon_extensions'] = exts
      t['lexfiles'] = [[1, 'noun.animal'], [2, 'verb.motion']]
      nss = rng.randint(5, 10) if MODE == 'expand' else rng.randint(1, 8)
      t['synsets'] = [[i + 1, rng.choice(['s%d' % rng.randint(0, 4), 'ss%d' % i]), rng.choice(lexids),
                       (rng.randint(1, nili) if nili and rng.random() < (0.85 if MODE == 'expand' else 0.6) else None),
                       rng.choice(POS + [None]), rng.choice([1, 1, 0]), rng.choice([None, 1, 2]), meta()]
                      for i in range(nss)]
      ssids = list(range(1, nss + 1))
      t['proposed_ilis'] = []
      k = 0
      for ss in t['synsets']:
          if ss[3] is None and rng.random() < 0.4:
              k += 1
              t['proposed_ilis'].append([k, ss[0], rng.choice([None, 'proposed def']), meta()])
      ne = rng.randint(1, 8)
      ents, seen = [], set()
      for i in range(ne):
          eid, lx = rng.choice(['e%d' % rng.randint(0, 3), 'ee%d' % i]), rng.choice(lexids)
          if (eid, lx) in seen:
              continue
          seen.add((eid, lx))
          ents.append([len(ents) + 1, eid, lx, rng.choice(POS), meta()])
      t['entries'] = ents
      eids = [e[0] for e in ents]
      forms, seen = [], set()
      for e in ents:
          if rng.random() < 0.1:
              continue            # an entry without forms
          nf = rng.choice([1, 1, 2, 3, 4])
          for j in range(nf):
              f, script = rng.choice(FORMS), rng.choice([None, None, 'Latn'])
              if (e[0], f, script) in seen:
                  continue
              seen.add((e[0], f, script))
              norm = coremodel.normalize_form(f)
              r = rng.random()
              normcol = (None if norm == f else norm) if r < 0.8 else rng.choice([None, norm, rng.choice(FORMS)])
              rank = j if rng.random() < 0.6 else rng.choice([0, 0, 1, 1, 2, None, -1])
              forms.append([len(forms) + 1, rng.choice([None, 'f%d' % len(forms)]), rng.choice([e[2], rng.choice(lexids)]),
                            e[0], f, normcol, script, rank])
      t['forms'] = forms
      fids = [f[0] for f in forms]
      t['pronunciations'] = [[rng.choice(fids), rng.choice(['kæt', 'r"n']), rng.choice([None, 'GB']), rng.choice([None, 'ipa']),
                              rng.choice([0, 1]), rng.choice([None, 'a.wav'])] for _ in range(rng.randint(0, 4))] if fids else []
      t['tags'] = [[rng.choice(fids), rng.choice(['sg', 'pl', 'a<b']), rng.choice(['number', 'tense'])]
                   for _ in range(rng.randint(0, 4))] if fids else []
      ns = rng.randint(1, 12)
      senses = []
      for i in range(ns):
          e = rng.choice(ents)
          ss = rng.choice(t['synsets'])
          lx = rng.choice([e[2], e[2], ss[2], rng.choice(lexids)])
          senses.append([i + 1, rng.choice(['n%d' % rng.randint(0, 5), 'sn%d' % i]), lx, e[0],
                         rng.choice([0, 0, 1, 1, 2, 3, None]), ss[0], rng.choice([0, 1, 127, 127, 127, None]),
                         rng.choice([1, 1, 0]), meta()])
      t['senses'] = senses
      sids = [s[0] for s in senses]
      types = sorted(set(SYNRELS + SENRELS + SENSYNRELS))
      rng.shuffle(types)
      t['relation_types'] = [[i + 1, ty] for i, ty in enumerate(types)]
      tyid = {ty: i + 1 for i, ty in enumerate(types)}

      def rels(srcs, tgts, names, n):
          out = []
          for _ in range(n):
              if out and rng.random() < 0.15:
                  r = list(rng.choice(out))
                  if rng.random() < 0.5:
                      r[5] = relmeta()
                  out.append(r)
                  continue
              out.append([None, rng.choice(lexids), rng.choice(srcs), rng.choice(tgts), tyid[rng.choice(names)], relmeta()])
          return [[i + 1] + r[1:] for i, r in enumerate(out)]
      t['synset_relations'] = rels(ssids, ssids, SYNRELS, rng.randint(6, 12) if MODE == 'expand' else rng.randint(0, 12))
      t['sense_relations'] = rels(sids, sids, SENRELS, rng.randint(0, 12))
      t['sense_synset_relations'] = rels(sids, ssids, SENSYNRELS, rng.randint(0, 6))
      t['definitions'] = [[i + 1, rng.choice(lexids), rng.choice(ssids), rng.choice([None, 'a def', 'another def']),
                           rng.choice([None, 'en']), rng.choice([None] + sids), meta()] for i in range(rng.randint(0, 6))]
      t['synset_examples'] = [[i + 1, rng.choice(lexids), rng.choice(ssids), rng.choice(['ex a', 'ex b']), rng.choice([None, 'en']), meta()]
                              for i in range(rng.randint(0, 5))]
      t['sense_examples'] = [[i + 1, rng.choice(lexids), rng.choice(sids), rng.choice(['ex a', 'ex b']), rng.choice([None, 'en']), meta()]
                             for i in range(rng.randint(0, 5))]
      t['adjpositions'] = [[rng.choice(sids), rng.choice(['a', 'p', 'ip'])] for _ in range(rng.randint(0, 3))]
      t['counts'] = [[i + 1, rng.choice(lexids), rng.choice(sids), rng.randint(0, 50), meta()] for i in range(rng.randint(0, 5))]
      sbs, seen = [], set()
      for i in range(rng.randint(0, 4)):
          lx, fr = rng.choice(lexids), 'Somebody %d ----s' % rng.randint(0, 2)
          if (lx, fr) in seen:
              continue
          seen.add((lx, fr))
          sbs.append([len(sbs) + 1, 'fr%d' % i, lx, fr])
      t['syntactic_behaviours'] = sbs
      t['syntactic_behaviour_senses'] = [[rng.choice(sbs)[0], rng.choice(sids)] for _ in range(rng.randint(0, 6))] if sbs else []
      return t, [s[0] + ':' + s[1] for s in specs]
  return gen_tables


def gen_universe(rng, mode=''):
    tables, names = _mk(rng, mode)()
    u = {'tables': tables}
    u['searches'] = [[f, p] for f in FORMS + ['cats', 'dogs', 'RESUME', 'Résumé', 'STRASSE', 'nosuch']
                     for p in (None, rng.choice(POS))]
    u['translate_to'] = [{'lexicon': rng.choice(names)}, {'lang': rng.choice(['en', 'fr'])}, {'lexicon': '*'},
                         {'lexicon': rng.choice(['ba', 'b*', 'nosuch', 'b']), 'lang': rng.choice([None, 'en'])}]
    for tg in u['translate_to']:
        if tg.get('lang') is None:
            tg.pop('lang', None)
    cfgs = []
    for base in ({}, {'lexicon': rng.choice(names)}, {'lexicon': ' '.join(rng.sample(names, min(2, len(names))))},
                 {'lexicon': rng.choice(names), 'expand': rng.choice(names + ['*', '', 'nosuch'])},
                 {'lang': rng.choice(['en', 'fr'])},
                 {'lexicon': rng.choice(['ba', 'b*', '*:1', 'b', 'ba:* bb'])}):
        c = dict(base)
        c['normalizer'] = rng.random() < 0.6
        c['search_all_forms'] = rng.random() < 0.6
        if rng.random() < 0.6:
            c['lemmatizer'] = LEM
        cfgs.append(c)
    if mode == 'expand':
        cfgs = [{}] + [{'lexicon': rng.choice(names), 'expand': rng.choice(names + ['*', ' '.join(names)])} for _ in range(4)] \
            + [{'lang': 'en', 'expand': '*'}]
    u['configs'] = cfgs
    return u


def fuel_universe(M=4, C=3):
    """corpus case: a relation path that walks one inferred placeholder per ILI *per lexicon* of an extension chain
    (refuted the model's first fuel bound; kept so that the bound stays honest)"""
    t = {}
    t['ili_statuses'] = [[1, 'presupposed'], [2, 'proposed']]
    t['ilis'] = [[k + 1, 'i%d' % k, 1, None, None] for k in range(M + 2)]
    names = [('ba', '1'), ('xa', '1'), ('xx', '1'), ('xy', '1'), ('cc', '1')]
    t['lexicons'] = [[i + 1, lid, 'L ' + lid, 'en', 'a@b.c', 'CC', ver, None, None, None, None, 0] for i, (lid, ver) in enumerate(names)]
    t['lexicon_dependencies'] = []
    t['lexicon_extensions'] = [[c + 2, names[c][0], names[c][1], None, c + 1] for c in range(C)]
    t['lexfiles'] = []
    syn = [[1, 'ba-y', 1, 1, 'n', 1, None, None]]
    for c in range(C):
        syn.append([len(syn) + 1, 'z%d' % (c + 1), c + 2, M + 2, 'n', 1, None, None])
    xbase = len(syn)
    for k in range(M + 2):
        syn.append([len(syn) + 1, 'cc-x%d' % k, 5, k + 1, 'n', 1, None, None])
    t['synsets'] = syn
    t['relation_types'] = [[1, 'hypernym']]
    rel = [[k + 1, 5, xbase + k + 1, xbase + k + 2, 1, None] for k in range(M + 1)]
    rel.append([len(rel) + 1, 5, xbase + M + 2, xbase + 2, 1, None])
    t['synset_relations'] = rel
    for name in ['proposed_ilis', 'entries', 'forms', 'pronunciations', 'tags', 'senses', 'sense_relations',
                 'sense_synset_relations', 'definitions', 'synset_examples', 'sense_examples', 'adjpositions', 'counts',
                 'syntactic_behaviours', 'syntactic_behaviour_senses']:
        t[name] = []
    return {'tables': t, 'configs': [{}], 'searches': [], 'translate_to': []}


def pairs_for(unis, outs):
    pairs = []
    for u, rec in zip(unis, outs):
        if rec.get('too_slow') or rec['obs'] is None:
            continue
        for cfg, ob in zip(u['configs'], rec['obs']):
            pairs.append(coremodel.to_pair(u, rec, cfg, ob))
    return pairs
