"""Wire format for Model/Scan.v (run_scan): input = L of byte values of the file; output =
L [ L [Sz id; Sz version; OPT label; OPT (L [Sz id; Sz version])] ... ]  or  L [A (-1)] LMFError, L [A (-3)] KeyError,
L [A (-4)] any other exception (e.g. UnicodeDecodeError).  OPT x = L [] | L [x].  Compared with sx_agree_default."""
import random
import gendoc
import lmfgen
import lmfmut

CRAFT = [
    b'<Lexicon id="a" version="1" label="x">',
    b"<Lexicon id='a' version='1' label='it''s'>",
    b'<Lexicon id="a>b" version="1&amp;2" label="&lt;&#65;&#x42;&quot;&apos;&nosuch;&#xZZ;">',
    b'<Lexicon\n  id = "a"\n\tversion\n=\n"1"   label="multi\nline\r\nlabel\ttab">',
    b'<Lexicon id="a" version="1"><Extends id="b" version="2"/>',          # "/" before ">" is part of the remainder
    b'<Extends id="b" version="2">',
    b'<Lexicon id="a" label="no version">',
    b'<Lexicon version="1">',
    b'<LexiconExtension id="x" version="1" label="ext"><Extends id="b" version="2" url="u"/></LexiconExtension>',
    b'<!-- <Lexicon id="c" version="0"> --><Lexicon id="a" version="1">',
    b'<Lexicons id="a" version="1">',
    b'<Lexicon id="a" version="1" xid="q" id="second">',
    b'<Lexicon id="a" version="1" label="unterminated>',
    b'<Lexicon id="a" version="1" note="x\'y" label=\'say "hi"\'>',
    b'<Lexicon id="\xc3\xa9" version="\xf0\x9d\x92\xb3" label="\xff">',
    b'<Lexicon id="a" version="1" other-id="zz" myversion="9">',
    b'<Lexicon id="a"version="1">',
    b'<Lexicon id=a version="1">',
    b'',
    # white space written as character references is kept (only literal white space is normalised)
    b'<Lexicon id="a" version="1" label="Col A&#9;Col B&#10;x&#13;y&#xA;z&#x9;&#xD;&#13;&#10;">',
    b"<Lexicon id='a&#9;b' version='1&#10;2' label='lit\ttab&#9;ref\r\nlit&#13;&#10;ref &amp;#9; &#32;'>",
    b'<LexiconExtension id="x" version="1"><Extends id="b&#10;c" version="2&#9;"/>',
    # numeric references are the referenced character itself (XML), not what an HTML decoder makes of them
    b'<Lexicon id="a&#150;b" version="1&#x85;" label="Nouns &#150; Verbs &#146; &#127; &#xFDD0; &#x9F; &#128;">',
]


def gen_jobs(rng, n):
    jobs = []
    for _ in range(n):
        u = gendoc.gen_universe(rng, size=2)
        name, res = rng.choice(u)
        r = rng.random()
        if r < 0.3:
            jobs.append({'resource': res, 'version': rng.choice(['1.0', '1.1', '1.3'])})
            continue
        text = lmfgen.to_xml(res, style=lmfgen.Style(random.Random(rng.randrange(1 << 30))))
        if r < 0.55:
            text = lmfmut.mutate(rng, text)[1]
        data = text.encode('utf-8')
        if r > 0.85:
            # several lexicons / spliced crafted start tags
            data = data + b'\n' + rng.choice(CRAFT) + b'\n' + rng.choice(CRAFT)
        # keep the cases small: everything after the first 6000 bytes is cut (scan works on raw bytes)
        jobs.append({'bytes': list(data[:6000])})
    for c in CRAFT:
        jobs.append({'bytes': list(b'<?xml version="1.0" encoding="UTF-8"?>\n' + c + b'\n' + rng.choice(CRAFT))})
    return jobs


def OPT(x):
    return [] if x is None else [x]


def to_pair(rec):
    if 'result' not in rec:
        return None
    r = rec['result']
    if r[0] == 'ok':
        exp = [[i, v, OPT(lab), OPT(ext)] for i, v, lab, ext in r[1]]
    else:
        exp = [{'LMFError': -1, 'KeyError': -3}.get(r[1], -4)]
    return (BYTES(rec['bytes']), exp)


class BYTES(list):
    """marks a list of ints that must be encoded as L [A b; ...] (common.sx does that for lists of ints)"""
