"""Generator of WN-LMF resource descriptions (the dictionary shapes wn.lmf.load returns):
plain lexicons, dependent lexicons, second versions reusing ids, lexicon extensions using
the documented extension patterns, and extensions of extensions."""
import copy

LEMMAS = ['cat', 'dog', 'Dog', 'run', 'résumé', 'resume', 'Resume', 'hot dog', 'straße', 'strasse', '情報', 'λόγος',
          'x<y', 'a&b', 'say "hi"', "it's", 'tab\there', '𝒳', 'cats', 'ran', 'running', 'bank']
FORMS = ['cats', 'dogs', 'ran', 'running', 'résumés', 'Cats', 'hot dogs', '猫', 'x<ys', 'banks', 'cat']
LONG_TEXT = ' '.join('word%d' % (i % 97) for i in range(1900))      # > 8 KiB: longer than expat's text buffer
TEXTS = ['a small animal', 'to move fast', 'x < y & z', 'say "hi" and \'bye\'', 'ünï cödé 𝒳', 'a', 'two words',
         'with ]]> inside', 'a small animal', 'see <Lexicon id="z" version="9"> there']
POS = ['n', 'v', 'a', 's', 'r']
SYNRELS = ['hypernym', 'hyponym', 'instance_hypernym', 'similar', 'antonym', 'also', 'mero_part', 'holo_part', 'xrel']
SENRELS = ['antonym', 'derivation', 'also', 'similar', 'pertainym', 'xrel']
SENSYNRELS = ['domain_topic', 'other', 'exemplifies', 'xrel']
SCRIPTS = ['Latn', 'Jpan', 'Hira']
ATTRTEXT = ['plain', 'q"uote', "a'pos", 'lt<gt>', 'amp&', 'tab\tnl\nend', 'ünï𝒳',
            'see version="2" there', "id='zz' inside", 'label = "other"', '<Extends id="n" version="0">']


def meta(rng, p=0.3):
    if rng.random() >= p:
        return None
    m = {}
    for k in rng.sample(['source', 'note', 'status', 'creator', 'date', 'type', 'confidenceScore', 'identifier'],
                        rng.randint(1, 3)):
        m[k] = rng.choice(['0.9', '1', '0.50', '.9', '1e-1', '1.0', '0.25 ']) if k == 'confidenceScore' else rng.choice(ATTRTEXT)
    return m


def text(rng):
    return LONG_TEXT if rng.random() < 0.012 else rng.choice(TEXTS)


def maybe(rng, d, key, val, p=0.5):
    if rng.random() < p:
        d[key] = val


def gen_lexicon(rng, lid, version, lang, ilis, lmfv, size=4, requires=None):
    v11 = lmfv != '1.0'
    lex = {'id': lid, 'label': rng.choice(['Label of ' + lid, 'L & "q" <' + lid + '>', 'The wordnet called "' + lid + '"',
                                         "wordnet of the Joneses'", '"' + lid + '" it is', 'Col A\tCol B of ' + lid,
                                         'two\nlines\rof ' + lid]), 'language': lang,
           'email': 'a@b.c', 'license': rng.choice(['CC-BY', 'https://l/?a=1&b=2']), 'version': version,
           'meta': meta(rng), 'entries': [], 'synsets': []}
    maybe(rng, lex, 'url', rng.choice(['https://ex.org/' + lid, 'https://ex.org/?version="3"', "http://x/id='y'"]))
    maybe(rng, lex, 'citation', rng.choice(ATTRTEXT), 0.3)
    if v11:
        maybe(rng, lex, 'logo', 'logo.svg', 0.3)
        if requires:
            lex['requires'] = requires
    ns = rng.randint(1, size + 1)
    ssids = ['%s-ss%d' % (lid, i) for i in range(ns)]
    used_ili = set()
    for i, sid in enumerate(ssids):
        r = rng.random()
        if r < 0.55 and ilis:
            ili = rng.choice(ilis)
            if ili in used_ili and rng.random() < 0.7:
                ili = ''
            used_ili.add(ili)
        elif r < 0.7:
            ili = 'in'
        else:
            ili = ''
        ss = {'id': sid, 'ili': ili, 'partOfSpeech': rng.choice(POS), 'meta': meta(rng)}
        if ili == 'in' and rng.random() < 0.8:
            ss['ili_definition'] = {'text': text(rng), 'meta': meta(rng)}
        defs = []
        for _ in range(rng.choice([0, 1, 1, 2])):
            d = {'text': text(rng), 'meta': meta(rng)}
            maybe(rng, d, 'language', rng.choice(['en', 'fr']), 0.3)
            defs.append(d)
        if defs:
            ss['definitions'] = defs
        exs = []
        for _ in range(rng.choice([0, 0, 1, 2])):
            x = {'text': text(rng), 'meta': meta(rng)}
            maybe(rng, x, 'language', 'en', 0.3)
            exs.append(x)
        if exs:
            ss['examples'] = exs
        if rng.random() < 0.15:
            ss['lexicalized'] = False
        if v11:
            maybe(rng, ss, 'lexfile', rng.choice(['noun.animal', 'verb.motion', 'adj.all']), 0.4)
        rels = []
        for _ in range(rng.choice([0, 1, 1, 2, 3])):
            rels.append({'target': rng.choice(ssids), 'relType': rng.choice(SYNRELS), 'meta': dctype(rng)})
        if rels:
            ss['relations'] = rels
        lex['synsets'].append(ss)
    ne = rng.randint(1, size + 1)
    all_senses = []
    for i in range(ne):
        eid = '%s-e%d' % (lid, i)
        lem = {'writtenForm': rng.choice(LEMMAS), 'partOfSpeech': rng.choice(POS)}
        maybe(rng, lem, 'script', rng.choice(SCRIPTS), 0.2)
        formkids(rng, lem, v11)
        e = {'id': eid, 'lemma': lem, 'meta': meta(rng)}
        forms = []
        seenf = {(lem['writtenForm'], lem.get('script'))}
        for j in range(rng.choice([0, 0, 1, 2])):
            f = {'writtenForm': rng.choice(FORMS)}
            maybe(rng, f, 'script', rng.choice(SCRIPTS), 0.2)
            if (f['writtenForm'], f.get('script')) in seenf:
                continue
            seenf.add((f['writtenForm'], f.get('script')))
            if v11:
                maybe(rng, f, 'id', '%s-f%d' % (eid, j), 0.6)
            formkids(rng, f, v11)
            forms.append(f)
        if forms:
            e['forms'] = forms
        senses = []
        for j in range(rng.choice([1, 1, 2, 3])):
            s = {'id': '%s-s%d' % (eid, j), 'synset': rng.choice(ssids), 'meta': meta(rng)}
            if rng.random() < 0.15:
                s['lexicalized'] = False
            maybe(rng, s, 'adjposition', rng.choice(['a', 'p', 'ip']), 0.2)
            exs = []
            for _ in range(rng.choice([0, 0, 1, 2])):
                x = {'text': text(rng), 'meta': meta(rng)}
                maybe(rng, x, 'language', 'en', 0.3)
                exs.append(x)
            if exs:
                s['examples'] = exs
            cnts = [{'value': rng.randint(0, 50), 'meta': meta(rng)} for _ in range(rng.choice([0, 0, 1, 2]))]
            if cnts:
                s['counts'] = cnts
            senses.append(s)
            all_senses.append(s)
        e['senses'] = senses
        lex['entries'].append(e)
    sense_ids = [s['id'] for s in all_senses]
    for s in all_senses:
        rels = []
        for _ in range(rng.choice([0, 0, 1, 2])):
            if rng.random() < 0.7:
                rels.append({'target': rng.choice(sense_ids), 'relType': rng.choice(SENRELS), 'meta': dctype(rng)})
            else:
                rels.append({'target': rng.choice(ssids), 'relType': rng.choice(SENSYNRELS), 'meta': dctype(rng)})
        if rels:
            s['relations'] = rels
    # members (1.1+): the senses of each synset in a chosen order
    if v11:
        for ss in lex['synsets']:
            mem = [s['id'] for s in all_senses if s['synset'] == ss['id']]
            if mem and rng.random() < 0.6:
                rng.shuffle(mem)
                ss['members'] = mem
    # frames
    if v11:
        frames = []
        for j in range(rng.choice([0, 0, 1, 2, 3])):
            frames.append({'id': '%s-fr%d' % (lid, j), 'subcategorizationFrame': 'Somebody %d ----s' % j})
        if frames:
            lex['frames'] = frames
            for s in all_senses:
                if rng.random() < 0.4:
                    s['subcat'] = sorted(set(rng.choice(frames)['id'] for _ in range(rng.choice([1, 2]))))
    else:
        for e in lex['entries']:
            fr = []
            for j in range(rng.choice([0, 1, 2, 2, 3])):
                f = {'subcategorizationFrame': 'Somebody %d ----s' % rng.randint(0, 3)}
                if f['subcategorizationFrame'] in [x['subcategorizationFrame'] for x in fr]:
                    continue
                if rng.random() < 0.5:
                    f['senses'] = sorted(set(rng.choice(e['senses'])['id'] for _ in range(rng.choice([1, 2]))))
                fr.append(f)
            if fr:
                e['frames'] = fr
    return lex


def dctype(rng):
    if rng.random() < 0.2:
        return {'type': rng.choice(['t1', 't2'])}
    return meta(rng, 0.15)


def formkids(rng, f, v11):
    tags = [{'text': rng.choice(['sg', 'pl', 'past', 'a<b']), 'category': rng.choice(['number', 'tense'])}
            for _ in range(rng.choice([0, 0, 1, 2]))]
    if tags:
        f['tags'] = tags
    if v11:
        prons = []
        for _ in range(rng.choice([0, 0, 1, 2])):
            p = {'text': rng.choice(['kæt', 'dɔg', 'r"n'])}
            maybe(rng, p, 'variety', 'GB', 0.4)
            maybe(rng, p, 'notation', 'ipa', 0.4)
            if rng.random() < 0.3:
                p['phonemic'] = False
            maybe(rng, p, 'audio', 'a.wav', 0.3)
            prons.append(p)
        if prons:
            f['pronunciations'] = prons


def gen_extension(rng, base, xid, version, lmfv='1.1', new_forms=False):
    """An extension of lexicon description [base] using the documented patterns."""
    ext = {'id': xid, 'label': 'Ext ' + xid, 'language': base['language'], 'email': 'a@b.c', 'license': 'CC',
           'version': version, 'meta': meta(rng), 'extends': {'id': base['id'], 'version': base['version']},
           'entries': [], 'synsets': []}
    maybe(rng, ext['extends'], 'url', 'https://base', 0.3)
    base_ss = [ss['id'] for ss in base['synsets'] if not ss.get('external')]
    base_senses = [s['id'] for e in base['entries'] for s in e.get('senses', []) if not s.get('external')]
    new_ss = ['%s-ss%d' % (xid, i) for i in range(rng.choice([0, 1, 2]))]
    for sid in new_ss:
        ss = {'id': sid, 'ili': rng.choice(['', 'in', '']), 'partOfSpeech': rng.choice(POS), 'meta': meta(rng)}
        if rng.random() < 0.6:
            ss['definitions'] = [{'text': text(rng), 'meta': meta(rng)}]
        rels = [{'target': rng.choice(base_ss + new_ss), 'relType': rng.choice(SYNRELS), 'meta': dctype(rng)}
                for _ in range(rng.choice([0, 1, 2]))]
        if rels:
            ss['relations'] = rels
        ext['synsets'].append(ss)
    new_senses = []
    # external entries: tags/pronunciations on the lemma and on id-carrying forms, new senses, things on senses
    for e in rng.sample(base['entries'], min(len(base['entries']), rng.choice([0, 1, 2]))):
        if e.get('external'):
            continue
        xe = {'id': e['id'], 'external': True}
        if rng.random() < 0.5:
            lem = {'external': True}
            formkids(rng, lem, True)
            if len(lem) > 1:
                xe['lemma'] = lem
        xforms = []
        for f in e.get('forms', []):
            if f.get('id') and rng.random() < 0.6:
                xf = {'id': f['id'], 'external': True}
                formkids(rng, xf, True)
                if len(xf) > 2:
                    xforms.append(xf)
        if xforms:
            xe['forms'] = xforms
        if new_forms and rng.random() < 0.7:
            # a new (non-external) form on the external entry: outside C01's documented patterns, but it is
            # something the extension contributes (C04, C05, C09)
            xforms.append({'writtenForm': rng.choice(['extform', 'runned', 'catz']), 'id': '%s-%s-nf' % (xid, e['id'])})
            xe['forms'] = xforms
        xsenses = []
        for s in e.get('senses', []):
            if s.get('external') or rng.random() < 0.5:
                continue
            xs = {'id': s['id'], 'external': True}
            rels = []
            for _ in range(rng.choice([0, 1, 2])):
                if rng.random() < 0.6:
                    rels.append({'target': rng.choice(base_senses), 'relType': rng.choice(SENRELS), 'meta': dctype(rng)})
                else:
                    rels.append({'target': rng.choice(base_ss + new_ss), 'relType': rng.choice(SENSYNRELS),
                                 'meta': dctype(rng)})
            if rels:
                xs['relations'] = rels
            if rng.random() < 0.4:
                xs['examples'] = [{'text': text(rng), 'meta': meta(rng)}]
            if rng.random() < 0.4:
                xs['counts'] = [{'value': rng.randint(1, 9), 'meta': meta(rng)}]
            if len(xs) > 2:
                xsenses.append(xs)
        if rng.random() < 0.5:      # a new sense on the external entry
            ns = {'id': '%s-%s-xs' % (xid, e['id']), 'synset': rng.choice(base_ss + new_ss), 'meta': meta(rng)}
            xsenses.append(ns)
            new_senses.append(ns)
        if xsenses:
            xe['senses'] = xsenses
        if len(xe) > 2:
            ext['entries'].append(xe)
    # new entries
    for i in range(rng.choice([0, 1, 2])):
        eid = '%s-e%d' % (xid, i)
        lem = {'writtenForm': rng.choice(LEMMAS), 'partOfSpeech': rng.choice(POS)}
        formkids(rng, lem, True)
        s = {'id': eid + '-s0', 'synset': rng.choice(base_ss + new_ss), 'meta': meta(rng)}
        new_senses.append(s)
        ext['entries'].append({'id': eid, 'lemma': lem, 'senses': [s], 'meta': meta(rng)})
    for s in new_senses:
        if rng.random() < 0.4:
            s['relations'] = [{'target': rng.choice(base_senses + [x['id'] for x in new_senses]),
                               'relType': rng.choice(SENRELS), 'meta': dctype(rng)}]
    # the extension's own subcategorization frames, referenced by its new senses (on new and on external entries),
    # and the other things a new sense can carry
    if new_senses and rng.random() < 0.7:
        frames = [{'id': '%s-fr%d' % (xid, j), 'subcategorizationFrame': 'Extension %d ----s' % j}
                  for j in range(rng.choice([1, 2]))]
        ext['frames'] = frames
        for s in new_senses:
            if rng.random() < 0.7:
                s['subcat'] = sorted(set(rng.choice(frames)['id'] for _ in range(rng.choice([1, 2]))))
    for s in new_senses:
        if rng.random() < 0.3:
            s['examples'] = [{'text': text(rng), 'meta': meta(rng)}]
        if rng.random() < 0.3:
            s['counts'] = [{'value': rng.randint(1, 9), 'meta': meta(rng)}]
        if rng.random() < 0.2:
            s['lexicalized'] = False
    # external synsets: relations / examples / definitions
    referenced = {r['target'] for ss in ext['synsets'] for r in ss.get('relations', [])} \
        | {s['synset'] for e in ext['entries'] for s in e.get('senses', []) if 'synset' in s} \
        | {r['target'] for e in ext['entries'] for s in e.get('senses', []) for r in s.get('relations', [])}
    for sid in base_ss:
        xs = {'id': sid, 'external': True}
        if rng.random() < 0.3:
            xs['relations'] = [{'target': rng.choice(base_ss + new_ss), 'relType': rng.choice(SYNRELS),
                                'meta': dctype(rng)}]
        if rng.random() < 0.25:
            xs['examples'] = [{'text': text(rng), 'meta': meta(rng)}]
        if rng.random() < 0.2:
            xs['definitions'] = [{'text': text(rng), 'meta': meta(rng)}]
        if len(xs) > 2 or sid in referenced:
            ext['synsets'].append(xs)
    # every base synset referenced anywhere must be declared as an ExternalSynset
    have = {ss['id'] for ss in ext['synsets']}
    targets_ss = {r['target'] for ss in ext['synsets'] for r in ss.get('relations', [])} | referenced
    for sid in base_ss:
        if sid in targets_ss and sid not in have:
            ext['synsets'].append({'id': sid, 'external': True})
            have.add(sid)
    # every external sense id referenced as a relation target must be declared
    declared = {s['id'] for e in ext['entries'] for s in e.get('senses', [])}
    targets = {r['target'] for e in ext['entries'] for s in e.get('senses', []) for r in s.get('relations', [])}
    owner = {s['id']: e['id'] for e in base['entries'] for s in e.get('senses', [])}
    for t in sorted(targets - declared):
        if t in owner:
            xe = next((x for x in ext['entries'] if x['id'] == owner[t] and x.get('external')), None)
            if xe is None:
                xe = {'id': owner[t], 'external': True, 'senses': []}
                ext['entries'].append(xe)
            xe.setdefault('senses', []).append({'id': t, 'external': True})
    # external entries must come with unique ids
    seen = set()
    ents = []
    for e in ext['entries']:
        if e['id'] in seen:
            continue
        seen.add(e['id'])
        ents.append(e)
    ext['entries'] = ents
    return ext


def gen_universe(rng, size=4, with_ext=True, ext_forms=False, force=None):
    """A list of (name, resource) in an order in which they can be added."""
    ilis = ['i%d' % i for i in range(1, 8)]
    lmfv = lambda: rng.choice(['1.0', '1.1', '1.1', '1.3'])      # noqa
    out = []
    v = lmfv()
    b1 = gen_lexicon(rng, 'ba', '1', 'en', ilis, v, size)
    out.append(('ba:1', {'lmf_version': v, 'lexicons': [b1]}))
    force = force or set()
    if rng.random() < 0.7 or 'dep' in force:
        v = rng.choice(['1.1', '1.3'])
        req = [{'id': 'ba', 'version': '1'}] if (rng.random() < 0.6 or 'dep' in force) else None
        if req:
            # further declared dependencies that are not installed; urls present or absent independently; any order
            for did, dver in (('missing', '9'), ('other', '0')):
                if rng.random() < 0.45:
                    req.append({'id': did, 'version': dver})
            for r_ in req:
                if rng.random() < 0.5:
                    r_['url'] = 'https://ex.org/' + r_['id']
            rng.shuffle(req)
        b2 = gen_lexicon(rng, 'bb', '1', rng.choice(['en', 'fr']), ilis, v, size, requires=req)
        out.append(('bb:1', {'lmf_version': v, 'lexicons': [b2]}))
    if rng.random() < 0.4 or 'v2' in force:
        v = lmfv()
        b1b = gen_lexicon(rng, 'ba', '2', 'en', ilis, v, size)      # second version, same ids
        out.append(('ba:2', {'lmf_version': v, 'lexicons': [b1b]}))
    if with_ext and (rng.random() < 0.75 or 'ext' in force):
        x1 = gen_extension(rng, b1, 'xa', '1', new_forms=ext_forms)
        out.append(('xa:1', {'lmf_version': '1.1', 'lexicons': [x1]}))
        if rng.random() < 0.3:
            merged = copy.deepcopy(x1)
            x2 = gen_extension(rng, {'id': 'xa', 'version': '1', 'language': 'en',
                                     'entries': [e for e in merged['entries'] if not e.get('external')],
                                     'synsets': [s for s in merged['synsets'] if not s.get('external')]},
                               'xx', '1') if any(not s.get('external') for s in merged['synsets']) else None
            if x2 is not None:
                out.append(('xx:1', {'lmf_version': '1.1', 'lexicons': [x2]}))
    if with_ext and any(n == 'ba:2' for n, _ in out) and (rng.random() < 0.35 or 'ext2' in force):
        # an extension of the SECOND version of ba (both versions share every identifier)
        b2 = [r for n, r in out if n == 'ba:2'][0]['lexicons'][0]
        out.append(('xb:1', {'lmf_version': '1.1', 'lexicons': [gen_extension(rng, b2, 'xb', '1', new_forms=ext_forms)]}))
    if rng.random() < 0.4:
        v = lmfv()
        out.append(('cc:1', {'lmf_version': v, 'lexicons': [gen_lexicon(rng, 'cc', '1', 'de', ilis[:2], v, 2)]}))
    return out


def corpus_ext(new_form=True):
    """Fixed two-resource universe that every run includes (the witnesses of known findings F3 and F14): a base lexicon and an
    extension that attaches a tag and a pronunciation to the lemma of a base entry (F3) and adds a new form to it (F14)."""
    def lex(lid, **kw):
        d = {'id': lid, 'label': 'Label of ' + lid, 'language': 'en', 'email': 'a@b.c', 'license': 'CC', 'version': '1', 'meta': None,
             'entries': [], 'synsets': []}
        d.update(kw)
        return d
    base = lex('fb', entries=[{'id': 'fb-e1', 'meta': None,
                               'lemma': {'writtenForm': 'cat', 'partOfSpeech': 'n', 'tags': [{'text': 'sg', 'category': 'number'}]},
                               'forms': [{'writtenForm': 'cats', 'id': 'fb-e1-f1'}],
                               'senses': [{'id': 'fb-e1-s1', 'synset': 'fb-s1', 'meta': None}]}],
               synsets=[{'id': 'fb-s1', 'ili': '', 'partOfSpeech': 'n', 'meta': None}])
    ext = lex('fx', extends={'id': 'fb', 'version': '1'},
              entries=[{'id': 'fb-e1', 'external': True,
                        'lemma': {'external': True, 'tags': [{'text': 'pl', 'category': 'number'}],
                                  'pronunciations': [{'text': 'kat', 'notation': 'ipa'}]},
                        'forms': ([{'writtenForm': 'extform', 'id': 'fx-fb-e1-nf'}] if new_form else [])}])
    if not new_form:
        del ext['entries'][0]['forms']
    return [('fb:1', {'lmf_version': '1.1', 'lexicons': [base]}), ('fx:1', {'lmf_version': '1.1', 'lexicons': [ext]})]
