"""Oracles of the database family (C04, C09, C10, C11, C12): the property text evaluated on
battery observations, with expectations computed from the document descriptions
(harness/expect.py), never from the database."""
import unicodedata
from expect import Universe, spec as lexspec
from props.C08 import documented


def normalize_form(s):
    return ''.join(c for c in unicodedata.normalize('NFKD', s.lower()) if not unicodedata.combining(c))


class Ctx:
    """an observation together with what is needed to interpret it"""
    def __init__(self, uni, lexrows, ob, cfg):
        self.uni, self.ob, self.cfg = uni, ob, cfg
        self.rid2spec = {r['rowid']: '%s:%s' % (r['id'], r['version']) for r in lexrows}
        self.ok = ob['ctor'][0] == 'ok'
        if not self.ok:
            return
        self.sel = [self.rid2spec[i] for i in ob['lexicons']]
        self.exp = [self.rid2spec[i] for i in ob['expanded']]
        self.default = bool(ob['default_mode'])
        self.words = {w['ref'][1]: w for w in ob['words']}
        self.senses = {s['ref'][1]: s for s in ob['senses']}
        self.synsets = {y['ref'][1]: y for y in ob['synsets']}

    def scope(self, owner_spec):
        """lexicons consulted for an entity of [owner_spec]: the selection, or its family in default mode"""
        return set(self.uni.family(owner_spec)) if self.default else set(self.sel)

    def lex_of_ref(self, r):
        if r[0] == 'W':
            return self.rid2spec.get(self.words[r[1]]['lex']) if r[1] in self.words else '?'
        if r[0] == 'S':
            return self.rid2spec.get(self.senses[r[1]]['lex']) if r[1] in self.senses else '?'
        if r[0] == 'Y':
            return self.rid2spec.get(r[3], '?')
        return None

    def key(self, r):
        """(kind, lexicon spec, id) of a reference"""
        if r[0] == 'W':
            w = self.words.get(r[1])
            return ('W', self.rid2spec.get(w['lex']) if w else '?', w['id'] if w else r[1])
        if r[0] == 'S':
            s = self.senses.get(r[1])
            return ('S', self.rid2spec.get(s['lex']) if s else '?', s['id'] if s else r[1])
        if r[0] == 'Y':
            return ('Y', self.rid2spec.get(r[3], '?'), r[4], r[2] if r[1] == 0 else None)
        return tuple(r)


def expected_selection(uni, cfg):
    installed = [(uni.lex[s][0]['id'], uni.lex[s][0]['version'], uni.lex[s][0]['language']) for s in uni.order]
    sel = documented(installed, cfg.get('lexicon') or '*', cfg.get('lang'))
    return {'%s:%s' % k for k in sel}


def expected_expand(uni, cfg, sel):
    installed = [(uni.lex[s][0]['id'], uni.lex[s][0]['version'], uni.lex[s][0]['language']) for s in uni.order]
    e = cfg.get('expand', 'default')
    default_mode = not cfg.get('lexicon') and not cfg.get('lang')
    missing = False
    if e == 'default':
        if default_mode:
            return {'%s:%s' % (i, v) for i, v, _ in installed}, False
        out = set()
        for s in sel:
            for r in uni.lex[s][0].get('requires', []):
                k = '%s:%s' % (r['id'], r['version'])
                if k in uni.lex:
                    out.add(k)
                else:
                    missing = True
        return out, missing
    if e == '':
        return set(), False
    return {'%s:%s' % k for k in documented(installed, e, None)}, False


# ------------------------------------------------------------------ C04
def oracle_scope(rep, cx, case):
    """every entity obtained from a restricted Wordnet belongs to the selection; in default mode
    navigation stays within the lexicon family of the entity it starts from"""
    if not cx.ok:
        return
    ob = cx.ob
    sel = set(cx.sel)

    def chk(what, r, allowed, origin=None):
        if r is None or r[0] == 'I':
            return
        lx = cx.lex_of_ref(r)
        if r[0] == 'Y' and r[1] == 0:
            return          # inferred placeholder: carries the source's lexicon
        if lx not in allowed:
            rep.fail('an entity outside the selected lexicons (or, in default mode, outside the lexicon family) is returned',
                     case, {'method': what, 'entity': cx.key(r), 'allowed': sorted(allowed), 'from': origin})

    def each(res):
        if res[0] != 'ok':
            return []
        v = res[1]
        if v and not isinstance(v[0], list):
            return [v]
        return v
    for kind, items in (('words', ob['words']), ('senses', ob['senses']), ('synsets', ob['synsets'])):
        for it in items:
            own = cx.rid2spec.get(it['lex'])
            if not cx.default and own not in sel:
                rep.fail('%s() lists an entity of a lexicon that is not selected' % kind, case, {'entity': it['id'], 'lexicon': own})
            allowed = cx.scope(own)
            for fld in ('senses', 'synsets', 'derived', 'word', 'synset', 'words', 'hypernyms', 'hyponyms', 'closure'):
                if fld in it and isinstance(it[fld], list) and it[fld] and it[fld][0] in ('ok', 'err'):
                    for r in each(it[fld]):
                        chk('%s.%s' % (kind, fld), r, allowed, it['id'])
            for fld in ('rels', 'relsyn'):
                for a, res in it.get(fld, []):
                    for r in each(res):
                        chk('%s.get_related%s' % (kind, a), r, allowed, it['id'])
            if it.get('relmap', ['err'])[0] == 'ok':
                for rel in it['relmap'][1]:
                    chk('%s.relation_map' % kind, rel[6], allowed, it['id'])
            if it.get('paths', ['err'])[0] == 'ok':
                for p in it['paths'][1]:
                    for r in p:
                        chk('%s.relation_paths' % kind, r, allowed, it['id'])
    for form, pos, rw, rs, ry in ob.get('searches', []):
        for res in (rw, rs, ry):
            for r in each(res):
                if not cx.default:
                    chk('search(%r)' % form, r, sel)
    # Wordnet.ilis(): exactly the ILIs of the synsets of the selection — the real ones as a set of ids, the proposed ones
    # (ili="in") one per proposing synset of the selection, with that synset's ILIDefinition
    if not cx.default and ob.get('ilis', ['err'])[0] == 'ok':
        uni = cx.uni
        real, proposed = set(), []
        for sp in cx.sel:
            for ss in uni.synsets(sp):
                if ss['ili'] == 'in':
                    idf = ss.get('ili_definition')
                    proposed.append(idf['text'] if idf else None)
                elif ss['ili']:
                    real.add(ss['ili'])
        got_real = {r[1] for r in ob['ilis'][1] if r[1] is not None}
        got_prop = sorted((r[3] or '') for r in ob['ilis'][1] if r[1] is None)
        if got_real != real or got_prop != sorted((p_ or '') for p_ in proposed):
            rep.fail('Wordnet.ilis() does not list exactly the ILIs (real and proposed) of the selected lexicons\' synsets', case,
                     {'real_got': sorted(got_real), 'real_expected': sorted(real), 'proposed_got': got_prop,
                      'proposed_expected': sorted((p_ or '') for p_ in proposed)})


# ------------------------------------------------------------------ C09
def forms_of(uni, osp, e, scope):
    """[(form, is_lemma)] of an entry incl. forms in-scope extensions add to it"""
    out = [(e['lemma']['writtenForm'], True)]
    for f in e.get('forms', []):
        if not f.get('external'):
            out.append((f['writtenForm'], False))
    for s in uni.order:
        if s in scope and s != osp and osp in uni.chain(s):
            for xe in uni.lex[s][0].get('entries', []):
                if xe['id'] == e['id'] and xe.get('external'):
                    for f in xe.get('forms', []):
                        if not f.get('external'):
                            out.append((f['writtenForm'], False))
    return out


def oracle_search(rep, cx, case, stats):
    if not cx.ok or 'searches' not in cx.ob:
        return
    uni, cfg = cx.uni, cx.cfg
    norm = cfg.get('normalizer', True)
    allforms = cfg.get('search_all_forms', True)
    lem = cfg.get('lemmatizer')
    sel = cx.sel
    entries = [(s, e) for s in sel for e in uni.entries(s)]

    def find(cands, pos, second):
        """entries whose word has a stored (or normalised stored) form among cands"""
        hit = []
        for s, e in entries:
            if pos and e['lemma']['partOfSpeech'] != pos:
                continue
            # forms contributed by extensions count only if the extension is selected (known finding F14 otherwise)
            fs = forms_of(uni, s, e, set(sel))
            ok = False
            for f, is_lemma in fs:
                if not allforms and not is_lemma:
                    continue
                if f in cands or (norm and normalize_form(f) != f and normalize_form(f) in cands):
                    ok = True
            if ok:
                hit.append((s, e['id']))
        return hit
    for form, pos, rw, rs, ry in cx.ob['searches']:
        if isinstance(lem, dict):
            prop = {(None if k == '' else k): set(v) for k, v in lem.get(form, {}).items()}
        else:
            prop = {}
        if not prop:
            prop = {pos: {form}}
        first = []
        for p, fs in prop.items():
            for h in find(fs, p, False):
                if h not in first:
                    first.append(h)
        exp = first
        if not first and norm:
            exp = []
            for p, fs in prop.items():
                for h in find({normalize_form(f) for f in fs}, p, True):
                    if h not in exp:
                        exp.append(h)
        c2 = dict(case, form=form, pos=pos)
        if rw[0] != 'ok':
            rep.fail('words(form, pos) raised', c2, {'got': rw})
            continue
        got = [cx.key(r)[1:3] for r in rw[1]]
        if len(set(got)) != len(got):
            rep.fail('words(form, pos) returns duplicates', c2, {'got': got})
        if set(got) != set(exp):
            extra = set(got) - set(exp)
            # F14: a form an extension outside the selection added to a base entry is searchable
            f14 = extra and all(_f14(uni, sp, eid, form, prop, norm, allforms, sel) for sp, eid in extra) and not (set(exp) - set(got))
            if f14:
                rep.known('F14', 'a form that a lexicon extension outside the selection adds to a base entry is listed by '
                          'Word.forms() and matched by words(form) in a Wordnet restricted to the base', c2,
                          {'got': got, 'expected': exp})
                stats['F14'] = stats.get('F14', 0) + 1
            else:
                rep.fail('words(form, pos) does not return exactly the in-scope words with a matching (normalised) form', c2,
                         {'got': sorted(got), 'expected': sorted(exp), 'proposals': {str(k): sorted(v) for k, v in prop.items()}})
            continue
        # senses / synsets: the in-scope senses of the matching words, and their synsets (checked when the
        # selection is closed under "extends", so that every selected sense has its word in the selection)
        closed = all(uni.base_of(x) is None or uni.base_of(x) in sel for x in sel)
        if closed and rs[0] == 'ok' and ry[0] == 'ok':
            es = []
            ey = []
            for (osp, eid) in exp:
                for s_, se in uni.senses_of_entry(osp, eid, set(sel)):
                    es.append((s_, se['id']))
            # synsets(form, pos): the part-of-speech filter applies to the synset, not to the word
            first_y = []
            for p_, fs in prop.items():
                for h in find(fs, None, False):
                    first_y.append((h, p_))
            if not first_y and norm:
                for p_, fs in prop.items():
                    for h in find({normalize_form(f) for f in fs}, None, True):
                        first_y.append((h, p_))
            def ysyn(hits):
                out_ = []
                for (osp, eid), p_ in hits:
                    for s_, se in uni.senses_of_entry(osp, eid, set(sel)):
                        ysp, yy = uni.owner_synset(s_, se['synset'])
                        if ysp in sel and (not p_ or yy.get('partOfSpeech') == p_):
                            out_.append((ysp, se['synset']))
                return out_
            ey = ysyn(first_y)
            if not ey and norm and first_y and not any(True for _ in ey):
                # the fallback decision is made on the synset query's own first pass
                second = []
                for p_, fs in prop.items():
                    for h in find({normalize_form(f) for f in fs}, None, True):
                        second.append((h, p_))
                ey = ysyn(second)
            gs = [cx.key(r)[1:3] for r in rs[1]]
            if len(set(gs)) != len(gs) or set(gs) != set(es):
                rep.fail('senses(form, pos) is not the in-scope senses of the matching words', c2,
                         {'got': sorted(gs), 'expected': sorted(set(es))})
            gy = [cx.key(r)[1:3] for r in ry[1]]
            if pos is None or True:
                # synsets(form, pos) filters on the synset's part of speech
                if len(set(gy)) != len(gy) or set(gy) != set(ey):
                    extra_y = set(gy) - set(ey)
                    if extra_y and not (set(ey) - set(gy)) and _leak_via_unselected(uni, extra_y, sel, entries, form, prop,
                                                                                    norm, allforms):
                        rep.known('F14', 'synsets(form) in a restricted Wordnet matches through a form contributed by an '
                                  'extension outside the selection', c2, {'got': sorted(gy), 'expected': sorted(set(ey))})
                        stats['F14'] = stats.get('F14', 0) + 1
                    else:
                        rep.fail('synsets(form, pos) is not the synsets of the in-scope matching senses', c2,
                                 {'got': sorted(gy), 'expected': sorted(set(ey))})
        if exp:
            stats['search_hits'] = stats.get('search_hits', 0) + 1


def _leak_via_unselected(uni, extra, sel, entries, form, prop, norm, allforms):
    """F14 for synsets(form): every extra synset is the synset of a sense *of the selection* whose word matches only through
    a form that an extension outside the selection added to it.  (A synset reached through a sense that an unselected
    extension contributes was the separate defect F22, repaired in /repo: it is a failure, not a known finding.)"""
    reach = set()
    for s, e in entries:
        if _f14(uni, s, e['id'], form, prop, norm, allforms, sel):
            for s_, se in uni.senses_of_entry(s, e['id'], set(sel)):
                ysp, _yy = uni.owner_synset(s_, se['synset'])
                reach.add((ysp, se['synset']))
    return all(y in reach for y in extra)


def _f14(uni, sp, eid, form, prop, norm, allforms, sel):
    fam = set(uni.family(sp))
    _, e = uni.owner_entry(sp, eid)
    if e is None:
        return False
    allf = forms_of(uni, sp, e, fam)
    inscope = forms_of(uni, sp, e, set(sel))
    extra = [f for f in allf if f not in inscope]
    cands = set()
    for fs in prop.values():
        cands |= set(fs) | ({normalize_form(x) for x in fs} if norm else set())
    return any((f in cands or normalize_form(f) in cands) and (allforms or lemma) for f, lemma in extra)


# ------------------------------------------------------------------ C10
def oracle_nav(rep, cx, case, stats):
    if not cx.ok:
        return
    uni, ob = cx.uni, cx.ob
    for bad in ob['eqhash']['same_bad']:
        rep.fail('objects denoting the same stored entity reached by different routes are not equal / do not hash alike',
                 case, {'pair': bad})
    for bad in ob['eqhash'].get('lex_bad', []):
        rep.fail('an entity reached by navigation (%s) carries another lexicon than the same entity obtained from the Wordnet'
                 % bad[0], case, {'entity': bad[1], 'lexicon rowid by navigation': bad[2], 'from the Wordnet': bad[3]})
    for bad in ob['eqhash']['diff_bad']:
        rep.fail('different stored entities compare equal', case, {'pair': bad})
    for s in ob['senses']:
        osp = cx.rid2spec[s['lex']]
        sc = cx.scope(osp)
        _, e, se = uni.owner_sense(osp, s['id'])
        if se is None:
            continue
        wsp, we = uni.owner_entry(osp, e['id'])
        ysp, _ys = uni.owner_synset(osp, se['synset'])
        for what, res, want_sp, want_id, kind in (('word', s['word'], wsp, e['id'], 'W'),
                                                  ('synset', s['synset'], ysp, se['synset'], 'Y')):
            if want_sp not in sc:
                # the declared word/synset lies outside the selection: must fail with wn.Error (C04 over C10)
                if res != ['err', 'WnError']:
                    rep.fail('Sense.%s() returns something although the declared %s is outside the selection' % (what, what),
                             case, {'sense': s['id'], 'got': res})
                continue
            if res[0] != 'ok' or cx.key(res[1])[1:3] != (want_sp, want_id):
                rep.fail('Sense.%s() is not the %s the sense was declared with' % (what, what), case,
                         {'sense': s['id'], 'got': res if res[0] != 'ok' else cx.key(res[1]), 'expected': [want_sp, want_id]})
                continue
            # inverse navigation
            holder = (cx.words if kind == 'W' else cx.synsets).get(res[1][1])
            if holder is not None and holder['senses'][0] == 'ok':
                if s['ref'][1] not in [r[1] for r in holder['senses'][1]]:
                    rep.fail('the sense is missing from %s.senses() of its own %s' % ('Word' if kind == 'W' else 'Synset', what),
                             case, {'sense': s['id'], what: want_id})
    for w in ob['words']:
        if w['senses'][0] == 'ok' and w['synsets'][0] == 'ok':
            img = [cx.senses[r[1]]['synset'] for r in w['senses'][1] if r[1] in cx.senses]
            if all(x[0] == 'ok' for x in img) and [x[1][1] for x in img] != [r[1] for r in w['synsets'][1]]:
                rep.fail('Word.synsets() is not the image of Word.senses() in order', case, {'word': w['id']})
    for y in ob['synsets']:
        if y['senses'][0] == 'ok' and y['words'][0] == 'ok':
            img = [cx.senses[r[1]]['word'] for r in y['senses'][1] if r[1] in cx.senses]
            if all(x[0] == 'ok' for x in img) and [x[1][1] for x in img] != [r[1] for r in y['words'][1]]:
                rep.fail('Synset.words() is not the image of Synset.senses() in order', case, {'synset': y['id']})
            if y['lemmas'][0] == 'ok' and all(x[0] == 'ok' for x in img):
                lem = [cx.words[x[1][1]]['lemma'] for x in img if x[1][1] in cx.words]
                if lem != y['lemmas'][1]:
                    rep.fail('Synset.lemmas() is not the lemmas of Synset.words()', case, {'synset': y['id']})
    # translation: synsets of the target lexicons sharing the ILI; none without an ILI or with a proposed one
    for ref, tgt, res in ob.get('translate_synsets', []):
        y = cx.synsets.get(ref[1])
        if y is None:
            continue
        osp = cx.rid2spec[y['lex']]
        _, ss = uni.owner_synset(osp, y['id'])
        ili = ss['ili'] if ss and ss['ili'] not in ('', 'in') else None
        try_sel = expected_selection(uni, {'lexicon': tgt.get('lexicon'), 'lang': tgt.get('lang')})
        exp = set()
        if ili:
            for s in try_sel:
                for t in uni.synsets(s):
                    if t['ili'] == ili:
                        exp.add((s, t['id']))
        c2 = dict(case, synset=y['id'], target=tgt)
        if not try_sel and ili:
            if res[0] == 'ok' and res[1]:
                rep.fail('translate() into lexicons that do not exist returns something', c2, {'got': res})
            continue
        if res[0] != 'ok':
            if ili or res[1] != 'WnError':
                rep.fail('Synset.translate() raised', c2, {'got': res})
            continue
        got = {(cx.rid2spec.get(r[3]), r[4]) for r in res[1]}
        if got != exp or len(got) != len(res[1]):
            rep.fail('Synset.translate() is not the set of synsets of the target lexicons sharing the ILI', c2,
                     {'got': sorted(got), 'expected': sorted(exp), 'ili': ili})
        if exp:
            stats['translations'] = stats.get('translations', 0) + 1


# ------------------------------------------------------------------ C11
def declared_relations(uni, osp, kind, ident, scope):
    """[(relType, target id, defining lexicon spec, dc:type, metadata, target owner spec)] declared for the
    entity by in-scope lexicons (its own lexicon and in-scope extensions), target resolved in scope"""
    out = []
    for s, r in uni.contributions(osp, kind, ident, 'relations', scope):
        m = r.get('meta') or None
        tsp = None
        if kind == 'synset':
            tsp, _ = uni.owner_synset(s, r['target'])
            tk = 'Y'
        else:
            tsp, _e, _se = uni.owner_sense(s, r['target'])
            tk = 'S'
            if tsp is None:
                tsp, _ = uni.owner_synset(s, r['target'])
                tk = 'Y'
        if tsp is None or tsp not in scope:
            continue
        out.append((r['relType'], r['target'], s, (m or {}).get('type'), m, tsp, tk))
    return out


def oracle_relations(rep, cx, case, stats):
    if not cx.ok or cx.exp:
        return              # expansion is C12's
    uni, ob = cx.uni, cx.ob
    for kind, items, argsets in (('sense', ob['senses'], None), ('synset', ob['synsets'], None)):
        graph = {}
        for it in items:
            osp = cx.rid2spec[it['lex']]
            sc = cx.scope(osp)
            decl = declared_relations(uni, osp, kind, it['id'], sc)
            same = [d for d in decl if d[6] == ('S' if kind == 'sense' else 'Y')]
            graph[(osp, it['id'])] = same
            if it['relmap'][0] != 'ok':
                rep.fail('relation_map() raised', case, {kind: it['id'], 'got': it['relmap']})
                continue
            got = {(n, a, b, lx, sub, tuple(cx.key(t)[1:3])) for n, a, b, lx, sub, _m, t in it['relmap'][1]}
            exp = {(d[0], it['id'], d[1], d[2], d[3], (d[5], d[1])) for d in same}
            if got != exp:
                rep.fail('relation_map() does not return exactly the relations declared for the %s by the lexicons in scope '
                         '(name, source, target, defining lexicon, dc:type)' % kind, case,
                         {kind: it['id'], 'spurious': sorted(map(str, got - exp))[:4], 'missed': sorted(map(str, exp - got))[:4]})
            # metadata of relations with a unique key
            keys = [(d[0], d[1], d[2], d[3]) for d in same]
            for n, a, b, lx, sub, m, t in it['relmap'][1]:
                if keys.count((n, b, lx, sub)) == 1:
                    want = next(d[4] for d in same if (d[0], d[1], d[2], d[3]) == (n, b, lx, sub))
                    if (m or None) != (want or None):
                        rep.fail('relation metadata differs from the declaration', case, {kind: it['id'], 'got': m, 'expected': want})
            for args, res in it['rels']:
                want = []
                for d in same:
                    if not args or '*' in args or d[0] in args:
                        if (d[5], d[1]) not in want:
                            want.append((d[5], d[1]))
                if res[0] != 'ok' or sorted(cx.key(r)[1:3] for r in res[1]) != sorted(want) or \
                        len(res[1]) != len({tuple(r) for r in map(tuple, [cx.key(r) for r in res[1]])}):
                    rep.fail('get_related(%s) is not the targets of the declared relations of those types, without duplicates'
                             % (args,), case, {kind: it['id'], 'got': res if res[0] != 'ok' else [cx.key(r)[1:3] for r in res[1]],
                                               'expected': want})
            if kind == 'sense':
                ssrel = [d for d in decl if d[6] == 'Y']
                for args, res in it['relsyn']:
                    want = {(d[5], d[1]) for d in ssrel if not args or '*' in args or d[0] in args}
                    if res[0] != 'ok' or {cx.key(r)[1:3] for r in res[1]} != want:
                        rep.fail('get_related_synsets(%s) is not the synsets the sense is related to by those types' % (args,),
                                 case, {'sense': it['id'], 'got': res, 'expected': sorted(want)})
            if same:
                stats['entities_with_relations'] = stats.get('entities_with_relations', 0) + 1
        # closure = everything reachable over the given types; paths are simple
        ctypes = ['antonym', 'derivation', 'also', 'similar', 'pertainym', 'xrel'] if kind == 'sense' else \
            ['hypernym', 'instance_hypernym', 'similar', 'xrel']
        ptypes = ['derivation', 'also', 'xrel'] if kind == 'sense' else ['hypernym', 'similar', 'xrel']
        for it in items:
            osp = cx.rid2spec[it['lex']]
            seen = set()
            todo = [(osp, it['id'])]
            while todo:
                k = todo.pop()
                for d in graph.get(k, []):
                    if d[0] in ctypes and (d[5], d[1]) not in seen:
                        seen.add((d[5], d[1]))
                        todo.append((d[5], d[1]))
            res = it['closure']
            if res[0] != 'ok' or {cx.key(r)[1:3] for r in res[1]} != seen or len(res[1]) != len(seen):
                rep.fail('closure() is not exactly the set of entities reachable over the given relation types', case,
                         {kind: it['id'], 'got': res if res[0] != 'ok' else sorted(cx.key(r)[1:3] for r in res[1]),
                          'expected': sorted(seen)})
            if it['paths'][0] != 'ok':
                rep.fail('relation_paths() raised', case, {kind: it['id'], 'got': it['paths']})
                continue
            for p in it['paths'][1]:
                ks = [(osp, it['id'])] + [cx.key(r)[1:3] for r in p]
                if len(set(ks)) != len(ks):
                    rep.fail('relation_paths() yields a path that is not simple', case, {kind: it['id'], 'path': ks})
                for u, v in zip(ks, ks[1:]):
                    if not any(d[0] in ptypes and (d[5], d[1]) == tuple(v) for d in graph.get(tuple(u), [])):
                        rep.fail('relation_paths() uses a step that is not a declared relation of the given types', case,
                                 {kind: it['id'], 'path': ks})
                        break


# ------------------------------------------------------------------ C12
def oracle_expand(rep, cx, case, stats):
    uni, ob, cfg = cx.uni, cx.ob, cx.cfg
    sel_exp = expected_selection(uni, cfg)
    if not sel_exp and not (cfg.get('lexicon') in (None, '', '*') and not cfg.get('lang')):
        if cx.ok:
            rep.fail('Wordnet() for a request matching no lexicon did not raise', case, {})
        return
    if not cx.ok:
        rep.fail('Wordnet() raised although lexicons match', case, {'ctor': ob['ctor']})
        return
    if set(cx.sel) != sel_exp:
        rep.fail('Wordnet selects other lexicons than documented', case, {'got': cx.sel, 'expected': sorted(sel_exp)})
        return
    eexp, warn = expected_expand(uni, cfg, cx.sel)
    if set(cx.exp) != eexp:
        rep.fail('the expand lexicons are not the documented ones (explicit specifier / installed declared dependencies / all)',
                 case, {'got': cx.exp, 'expected': sorted(eexp)})
        return
    if bool(ob['warnings']) != warn:
        rep.fail('a missing declared dependency must be warned about (and only that)', case,
                 {'warnings': ob['warnings'], 'expected_warning': warn})
    if not cx.exp:
        return
    expids = set(cx.exp)
    # synsets of the expand lexicons by ILI, in installation order
    by_ili = {}
    for s in uni.order:
        if s in expids:
            for t in uni.synsets(s):
                if t['ili'] not in ('', 'in'):
                    by_ili.setdefault(t['ili'], []).append((s, t))
    for y in ob['synsets']:
        osp = cx.rid2spec[y['lex']]
        sc = cx.scope(osp)
        _, ss = uni.owner_synset(osp, y['id'])
        if ss is None or y['relmap'][0] != 'ok':
            continue
        local = declared_relations(uni, osp, 'synset', y['id'], sc)
        exp = [(d[0], y['id'], d[1], d[2], (d[5], d[1], None)) for d in local if d[6] == 'Y']
        ili = ss['ili'] if ss['ili'] not in ('', 'in') else None
        if ili:
            for s, t in by_ili.get(ili, []):
                if (s, t['id']) == (osp, y['id']):
                    continue
                for d in declared_relations(uni, s, 'synset', t['id'], expids):
                    if d[6] != 'Y':
                        continue
                    _, tt = uni.owner_synset(d[5], d[1])
                    tili = tt['ili'] if tt and tt['ili'] not in ('', 'in') else None
                    if not tili:
                        continue
                    locs = [(s2, z['id']) for s2 in uni.order if s2 in sc for z in uni.synsets(s2) if z['ili'] == tili]
                    if locs:
                        for lz in locs:
                            exp.append((d[0], t['id'], d[1], d[2], (lz[0], lz[1], None)))
                    else:
                        exp.append((d[0], t['id'], d[1], d[2], (osp, '*INFERRED*', tili)))
        # relation_map holds one target per Relation (name, source id, target id, lexicon, dc:type); get_related
        # lists every target
        keys_exp = {(e[0], e[1], e[2], e[3]) for e in exp}
        got_keys = set()
        bad_target = None
        for n, a, b, lx, sub, _m, t in y['relmap'][1]:
            k = cx.key(t)
            got_keys.add((n, a, b, lx))
            if (n, a, b, lx, (k[1], k[2], k[3] if len(k) > 3 else None)) not in set(exp):
                bad_target = (n, a, b, lx, k)
        allrel = next((res for a_, res in y['rels'] if a_ == []), None)
        targets_exp = {e[4] for e in exp}
        targets_got = None
        if allrel and allrel[0] == 'ok':
            targets_got = set()
            for r in allrel[1]:
                k = cx.key(r)
                targets_got.add((k[1], k[2], k[3] if len(k) > 3 else None))
        if got_keys != keys_exp or bad_target or (targets_got is not None and targets_got != targets_exp):
            rep.fail('synset relations with expand lexicons are not: own relations, then for every expand synset sharing the ILI '
                     'its relations with targets mapped back by ILI (placeholder when the lexicon lacks the concept)', case,
                     {'synset': y['id'], 'spurious_relations': sorted(map(str, got_keys - keys_exp))[:4],
                      'missed_relations': sorted(map(str, keys_exp - got_keys))[:4], 'wrong_target': str(bad_target),
                      'targets_got': sorted(map(str, targets_got or [])), 'targets_expected': sorted(map(str, targets_exp))})
        elif len(exp) > len([d for d in local if d[6] == 'Y']):
            stats['expanded_synsets'] = stats.get('expanded_synsets', 0) + 1
