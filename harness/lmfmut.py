"""Single-fault mutations of WN-LMF documents (for C20 and for the load model)."""
import re

ELEMS_11_ONLY = ['Pronunciation', 'Requires', 'ExternalSynset']


def mutate(rng, text):
    """returns (description, mutated text)"""
    kinds = ['drop_attr', 'rename_elem', 'dup_single', 'unbalance', 'header_decl', 'header_doctype',
             'swap_quotes', 'unknown_elem', 'version_elem', 'drop_required_id', 'drop_required_id', 'truncate', 'truncate', 'none']
    for _ in range(20):
        k = rng.choice(kinds)
        if k == 'none':
            return 'none', text
        if k == 'drop_attr':
            ms = list(re.finditer(r' (id|synset|ili|target|relType|writtenForm|partOfSpeech|category|version|label|'
                                  r'language|email|license|subcategorizationFrame)=("[^"]*"|\'[^\']*\')', text))
            if ms:
                m = rng.choice(ms)
                return 'drop_attr ' + m.group(1), text[:m.start()] + text[m.end():]
        elif k == 'rename_elem':
            names = re.findall(r'<(Lemma|Sense|Synset|Definition|Example|Tag|Form|Count)\b', text)
            if names:
                n = rng.choice(names)
                return 'rename ' + n, re.sub(r'(</?)%s\b' % n, r'\1%sX' % n, text, count=0)
        elif k == 'dup_single':
            m = re.search(r'<Lemma\b[^>]*?(/>|>.*?</Lemma>)', text, re.S)
            if m:
                return 'dup Lemma', text[:m.end()] + m.group(0) + text[m.end():]
        elif k == 'unbalance':
            ms = list(re.finditer(r'</(Sense|Synset|LexicalEntry|Lexicon)>', text))
            if ms:
                m = rng.choice(ms)
                return 'unbalance', text[:m.start()] + text[m.end():]
        elif k == 'header_decl':
            return 'header_decl', rng.choice([text.replace('<?xml version="1.0" encoding="UTF-8"?>\n', '', 1),
                                              text.replace('encoding="UTF-8"', 'encoding="utf-8"', 1),
                                              text.replace('<?xml version="1.0" encoding="UTF-8"?>',
                                                           "<?xml version='1.0' encoding='UTF-8'?>  ", 1),
                                              '\n' + text,
                                              text.replace('<?xml version=', '<?xml\tversion=', 1),
                                              text.replace('<?xml version="1.0" encoding', '<?xml  version="1.0"   encoding', 1),
                                              text.replace('<?xml version="1.0" encoding="UTF-8"?>',
                                                           '<?xml version="1.0" encoding="UTF-8" ?>', 1)])
        elif k == 'header_doctype':
            return 'header_doctype', rng.choice([re.sub(r'<!DOCTYPE[^>]*>\n', '', text, count=1),
                                                 text.replace('WN-LMF-1.', 'WN-LMF-9.', 1),
                                                 text.replace('<!DOCTYPE LexicalResource SYSTEM "', "<!DOCTYPE LexicalResource SYSTEM '", 1)
                                                 .replace('.dtd">', ".dtd'>", 1)])
        elif k == 'swap_quotes':
            m = re.search(r' label="([^"\'&]*)"', text)
            if m:
                return 'swap_quotes', text[:m.start()] + " label='%s'" % m.group(1) + text[m.end():]
        elif k == 'unknown_elem':
            m = re.search(r'<(LexicalEntry|Synset)\b', text)
            if m:
                return 'unknown_elem', text[:m.start()] + '<Bogus a="1"/>' + text[m.start():]
        elif k == 'version_elem':
            if 'WN-LMF-1.0' in text:
                m = re.search(r'</Lemma>|<Lemma[^>]*/>', text)
                if m:
                    return 'version_elem', text[:m.start()] + text[m.start():m.end()].replace(
                        '</Lemma>', '<Pronunciation>x</Pronunciation></Lemma>') + text[m.end():]
            else:
                return 'version_down', text.replace('WN-LMF-1.1', 'WN-LMF-1.0').replace('WN-LMF-1.3', 'WN-LMF-1.0')
        elif k == 'truncate':
            # the file ends too early: only the closing tags of the open elements are missing
            ends = [m.end() for m in re.finditer(r'</LexicalEntry>\n|</Synset>\n|</Lexicon>\n|</LexiconExtension>\n', text)]
            ends.append(text.rfind('</LexicalResource>'))
            cut = rng.choice(ends)
            if 0 < cut < len(text):
                return 'truncate', text[:cut]
        elif k == 'drop_required_id':
            ms = list(re.finditer(r'<(Lexicon|LexiconExtension|LexicalEntry|Sense|Synset|ExternalLexicalEntry|ExternalSense|'
                                  r'ExternalSynset)\b[^>]*?( id\s*=\s*("[^"]*"|\'[^\']*\'))', text))
            if ms:
                # every kind of element that needs an id gets its turn (not only the first match in the file)
                by_kind = {}
                for m in ms:
                    by_kind.setdefault(m.group(1), []).append(m)
                m = rng.choice(by_kind[rng.choice(sorted(by_kind))])
                return 'drop_required_id ' + m.group(1), text[:m.start(2)] + text[m.end(2):]
    return 'none', text


ID_KINDS = ('Lexicon', 'LexiconExtension', 'LexicalEntry', 'Sense', 'Synset', 'ExternalLexicalEntry', 'ExternalSense',
            'ExternalSynset')


def drop_id_each_kind(rng, text):
    """one mutant per kind of element that needs an id and occurs in the document: the id of one such element removed"""
    out = []
    for kind in ID_KINDS:
        ms = list(re.finditer(r'<%s\b[^>]*?( id\s*=\s*("[^"]*"|\'[^\']*\'))' % kind, text))
        if ms:
            m = rng.choice(ms)
            out.append(('drop_required_id ' + kind, text[:m.start(1)] + text[m.end(1):]))
    return out
