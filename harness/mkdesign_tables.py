"""Prints the markdown table of seeded changes (from seeded/*/meta.json) for DESIGN.md."""
import glob, json, os
V = os.path.dirname(os.path.dirname(os.path.abspath(__file__)))
rows = []
for d in sorted(glob.glob(os.path.join(V, 'seeded', 'C*-*'))):
    m = json.load(open(os.path.join(d, 'meta.json')))
    c = m.get('confirmation', {})
    tail = ' '.join(c.get('check_tail', [])[-2:]) if c.get('check_tail') else ''
    how = 'oracle (failing input)' if 'VIOLATION' in tail and 'no-failing-input-found' not in tail else \
        ('broken correspondence/obligation' if 'VIOLATION' in tail else '')
    rows.append('| %s | %s | %s | %s |' % (os.path.basename(d), m.get('summary', '').replace('|', '/').replace('\n', ' ')[:150],
                                        m.get('needs', '').replace('|', '/').replace('\n', ' ')[:150],
                                        ('caught: ' + how) if c.get('check_rc') == 1 else 'NOT caught' if c.get('check_rc') == 0 else '?'))
print('| seed | change | needs | quick check of its property |\n|---|---|---|---|')
print('\n'.join(rows))
