"""Rebuilds Appendix E of DESIGN.md from harness/appendixE.tmpl.md: the per-property table (theorem counts read from
coq/Properties, claims from MANIFEST.json, known findings from known_findings.json) and the seeded-change table
(seeded/*/meta.json).  python3 harness/mkdesign_tables.py [--write]"""
import glob
import json
import os
import re
import sys
V = os.path.dirname(os.path.dirname(os.path.abspath(__file__)))

CORR = {
 'C01': 'Model/Add.v (tables after every add, row for row)', 'C02': 'Model/Lmf.v run_dump (file bytes) and run_load (resource)',
 'C03': 'Model/Export.v run_export (exported dictionaries)', 'C04': 'Model/Core.v run_core (full observation battery)',
 'C05': 'Model/Add.v run_add / run_remove / run_add_ili (tables after every operation)', 'C06': 'Model/Txn.v (statement trace shape of clean runs)',
 'C07': 'Model/Project.v run_project (file trees built as real files)', 'C08': 'Model/Spec.v run_spec (selected rowids / error)',
 'C09': 'Model/Core.v run_core (search batteries)', 'C10': 'Model/Core.v run_core (navigation, equality keys, translate)',
 'C11': 'Model/Core.v run_core on add-built and table-level databases', 'C12': 'Model/Core.v run_core in expand mode, add-built and table-level',
 'C13': 'Model/Taxonomy.v run_taxonomy (all digraphs up to the bound + random)', 'C14': 'Model/SimilarityFloat.v run_similarity (bit-exact floats)',
 'C15': 'Model/Ic.v run_ic, run_load (exact rationals)', 'C16': '(none: runtime property; theorems reuse C13/C14 models)',
 'C17': 'Model/Morphy.v run_morphy', 'C18': 'Model/Validate.v run_validate', 'C19': 'Model/IliFile.v run_add_ili_text (file text in; splitting into lines and fields, then Model/Add.v add_ili)', 'C20': 'Model/Lmf.v run_load on valid and mutated documents',
}
ORACLE = {
 'C01': 'expected API content from the document description (expect.py), per lexicon scope and default mode, with churn and interleaved queries',
 'C02': 'load(dump(R)) = R and dump(load(F)) reloads equal, on generated resources/files in every version',
 'C03': 'export -> load -> add to empty database -> compare observations and the loaded document',
 'C04': 'every reported entity/relation/form belongs to the scope; results unchanged by adding/removing unselected lexicons',
 'C05': 'final database of a history vs fresh database with the installed lexicons; FK audit after every step',
 'C06': 'fault injection at every progress callback, every authorizer call, corrupted references; database dump before = after',
 'C07': 'canonical content per supply route vs in-memory route; file hashes / deep copies; orphan extensions; pre-installed packages',
 'C08': 'documented selection computed independently from the lexicon list',
 'C09': 'documented procedure re-implemented on the document description (own normaliser)',
 'C10': 'round trips sense<->word/synset, two-hop navigation, equality/hash across routes, translate via ILI from documents',
 'C11': 'declared relations from documents per scope, argument sets, closure/paths against brute-force search',
 'C12': 'documented expand construction from documents (ILI sharing, placeholders, default expand set, warning)',
 'C13': 'graph-theoretic definitions by brute force (all simple chains, BFS distances)',
 'C14': 'documented formulas with exact rationals / correctly rounded floats, symmetry, bounds',
 'C15': 'ancestor-closure weights, conservation, monotonicity, ic.load totals',
 'C16': 'transcripts byte-identical across PYTHONHASHSEED values, call orders and repeated calls; database unchanged',
 'C17': 'direct re-implementation of the documented Morphy behaviour; union over proposals through a lemmatizer-free Wordnet',
 'C18': 'fault-injected lexicons with the expected report computed from the injected faults; add rejects E204/E401',
 'C19': 'listed/unlisted ILIs per step, idempotence, order independence w.r.t. lexicons',
 'C20': 'every mutation rejected by load and add, database unchanged; scan_lexicons = load on accepted documents',
}


def prop_table():
    man = json.load(open(os.path.join(V, 'MANIFEST.json')))
    claimed = {c['property_id']: c for c in man['checks']}
    known = json.load(open(os.path.join(V, 'known_findings.json')))
    kf = {}
    for f in known.get('findings', []):
        kf.setdefault(f['property'], []).append(f['id'])
    seeds = {}
    for d in sorted(glob.glob(os.path.join(V, 'seeded', 'C*-*'))):
        m = json.load(open(os.path.join(d, 'meta.json')))
        pid = os.path.basename(d).split('-')[0]
        c = m.get('confirmation', {})
        seeds.setdefault(pid, []).append(c.get('check_rc') == 1)
    rows = ['| id | thm | registered | correspondence (model run against the code) | oracle on the real code | known findings | seeds caught |',
            '|---|---|---|---|---|---|---|']
    for i in range(1, 21):
        pid = 'C%02d' % i
        src = open(os.path.join(V, 'coq', 'Properties', pid + '.v')).read()
        n = len(re.findall(r'^\s*(?:Theorem|Lemma|Corollary|Example)\s', src, re.M))
        sd = seeds.get(pid, [])
        rows.append('| %s | %d | %s | %s | %s | %s | %d/%d |' % (
            pid, n, 'yes' if pid in claimed else 'no (not_applicable: see MANIFEST)', CORR[pid], ORACLE[pid],
            ', '.join(kf.get(pid, [])) or '-', sum(sd), len(sd)))
    return '\n'.join(rows)


def theorem_lists():
    """per property: the claim (MANIFEST level text) and the names of the statements in its Properties file, grouped by the
    section comments of that file"""
    man = json.load(open(os.path.join(V, 'MANIFEST.json')))
    claimed = {c['property_id']: c for c in man['checks']}
    out = []
    for i in range(1, 21):
        pid = 'C%02d' % i
        src = open(os.path.join(V, 'coq', 'Properties', pid + '.v')).read()
        out.append('**%s** (`coq/Properties/%s.v`). %s' % (pid, pid, claimed[pid]['level_claimed']['text'] if pid in claimed else ''))
        out.append('')
        groups = []
        cur = ['(statements)', []]
        for m in re.finditer(r'^\(\* -{2,}=*\s*(.*?)\*\)\s*$|^\(\* ={2,}\s*(.*?)\*\)\s*$|^\s*(?:Theorem|Lemma|Corollary|Example)\s+([A-Za-z0-9_\']+)', src, re.M | re.S):
            if m.group(3):
                cur[1].append(m.group(3))
            else:
                if cur[1]:
                    groups.append(cur)
                title = (m.group(1) or m.group(2) or '').strip()
                cur = [' '.join(title.split())[:160], []]
        if cur[1]:
            groups.append(cur)
        for title, names in groups:
            out.append('* %s: %s' % (title, ', '.join('`%s`' % n for n in names)))
        out.append('')
    return '\n'.join(out)


def seed_table():
    rows = []
    for d in sorted(glob.glob(os.path.join(V, 'seeded', 'C*-*'))):
        m = json.load(open(os.path.join(d, 'meta.json')))
        c = m.get('confirmation', {})
        tail = ' '.join(c.get('check_tail', [])[-2:]) if c.get('check_tail') else ''
        how = 'failing input found' if 'VIOLATION' in tail and 'no-failing-input-found' not in tail else \
            ('broken correspondence/obligation, no failing input' if 'VIOLATION' in tail else '')
        first = m.get('first_run')
        note = (' (missed at first: %s)' % first) if first else ''
        rows.append('| %s | %s | %s | %s |' % (os.path.basename(d), m.get('summary', '').replace('|', '/').replace('\n', ' ')[:170],
                                            m.get('needs', '').replace('|', '/').replace('\n', ' ')[:150],
                                            (('caught: ' + how) if c.get('check_rc') == 1 else 'NOT caught' if c.get('check_rc') == 0 else '?') + note))
    return '| seed | change | needs | quick check of its property |\n|---|---|---|---|\n' + '\n'.join(rows)


def main():
    tmpl = open(os.path.join(V, 'harness', 'appendixE.tmpl.md')).read()
    text = tmpl.replace('@@PROPTABLE@@', prop_table()).replace('@@SEEDTABLE@@', seed_table()).replace('@@THEOREMS@@', theorem_lists())
    if '--write' in sys.argv:
        p = os.path.join(V, 'DESIGN.md')
        s = open(p).read()
        marker = '\n---------------------------------------------------------------------------\n\n## Appendix E — as built'
        i = s.find(marker)
        if i >= 0:
            s = s[:i]
        s = s.rstrip('\n') + '\n' + text
        open(p, 'w').write(s)
        print('DESIGN.md updated (%d lines)' % s.count('\n'))
    else:
        print(text)


if __name__ == '__main__':
    main()
