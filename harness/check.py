"""./check <property> [--tier quick|thorough] [--replay FILE]"""
import argparse
import importlib
import json
import os
import sys
import traceback

HERE = os.path.dirname(os.path.abspath(__file__))
sys.path.insert(0, HERE)
import common  # noqa: E402


def main():
    ap = argparse.ArgumentParser()
    ap.add_argument('pid')
    ap.add_argument('--tier', default=os.environ.get('VERIF_TIER', 'quick'),
                    choices=['quick', 'thorough'])
    ap.add_argument('--replay', default=None)
    ap.add_argument('--no-build', action='store_true')
    args = ap.parse_args()
    pid = args.pid
    rep = common.Report(pid, args.tier)
    try:
        mod = importlib.import_module('props.' + pid)
    except ImportError as e:
        print('no check for %s: %s' % (pid, e))
        return 2
    try:
        # 1. tie, part 1: regenerate the generated tables and rebuild
        build = common.ensure_build()
        if not build.translate_ok:
            rep.broke('translator failed on the current source: ' + build.translate_err[:500])
        # 2. proof obligations of this property
        audit = common.audit_property(pid)
        forb = common.grep_forbidden()
        if forb:
            rep.broke('forbidden vernacular in the development: ' + ', '.join(forb[:10]))
        if not audit['ok']:
            rep.broke('proof obligations of Properties/%s.v no longer check: %s'
                      % (pid, audit['log'][-1500:]))
        rep.coverage.update({
            'obligations': max(audit['obligations'], 1),
            'discharged': audit['discharged'] if audit['ok'] else 0,
            'checker_cmd': 'coqc -Q coq WnV coq/Properties/%s.v (after make -k of the whole development)' % pid,
            'theorems': audit['theorems'],
            'axioms_reported': audit['axioms'],
            'gen_files_changed_this_run': build.changed_gen,
            'trusted_base': [
                'Coq 8.16.1 kernel incl. vm_compute (no native_compute)',
                'axioms reported by Print Assumptions: %s' % (audit['axioms'] or 'none (closed under the global context)'),
                'translator harness/translate.py + harness/probe_repo.py (constant tables, schema)',
                'correspondence check: generated cases.v evaluated by coqc/vm_compute against the implementation run under /venv/bin/python with PYTHONPATH=' + common.repo(),
            ] + list(getattr(mod, 'TRUSTED', [])),
        })
        rep.assumptions = list(rep.coverage['trusted_base'])
        # 3. property-specific: correspondence + oracle search
        import fingerprint
        drift = fingerprint.changed_for(pid, common.repo())
        rep.coverage['modelled_source_files_changed_since_baseline'] = drift
        mod.run(rep, args.tier, build, replay=args.replay)
        if drift and args.tier == 'quick' and not args.replay:
            # the files the model was written from have changed: the model may no longer describe the code, so
            # look harder before answering (two more passes with fresh seeds; counts of the last pass are reported)
            passes = 1
            try:
                for k in (1, 2):
                    if rep.failures:
                        break
                    common.shift_seed(k)
                    mod.run(rep, args.tier, build, replay=None)
                    passes += 1
            finally:
                common.shift_seed(0)
            rep.coverage['passes_after_source_drift'] = passes
    except Exception:
        tb = traceback.format_exc()
        print(tb)
        rep.broke('check crashed: ' + tb[-1500:])
    return rep.finish()


if __name__ == '__main__':
    sys.exit(main())
