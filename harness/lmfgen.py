"""The harness's own WN-LMF writer (independent of wn.lmf.dump).  A resource is
described with the same dictionary shapes wn.lmf.load returns; to_xml() turns it
into a document, optionally varying quoting style, attribute order and the way
special characters are written (entities, character references, CDATA)."""
import random

SCHEMAS = {
    '1.0': 'http://globalwordnet.github.io/schemas/WN-LMF-1.0.dtd',
    '1.1': 'http://globalwordnet.github.io/schemas/WN-LMF-1.1.dtd',
    '1.2': 'http://globalwordnet.github.io/schemas/WN-LMF-1.2.dtd',
    '1.3': 'http://globalwordnet.github.io/schemas/WN-LMF-1.3.dtd',
}
DC_URIS = {
    '1.0': 'http://purl.org/dc/elements/1.1/',
    '1.1': 'https://globalwordnet.github.io/schemas/dc/',
    '1.2': 'https://globalwordnet.github.io/schemas/dc/',
    '1.3': 'https://globalwordnet.github.io/schemas/dc/',
}
DC_ATTRS = ['contributor', 'coverage', 'creator', 'date', 'description', 'format',
            'identifier', 'publisher', 'relation', 'rights', 'source', 'subject',
            'title', 'type']
PLAIN_META = ['status', 'note', 'confidenceScore']


class Style:
    """Presentation choices that must not change the loaded content."""
    def __init__(self, rng=None):
        self.rng = rng

    def quote(self):
        if self.rng is None:
            return '"'
        return self.rng.choice('"\'')

    def shuffle(self, items):
        if self.rng is not None and self.rng.random() < 0.5:
            items = list(items)
            self.rng.shuffle(items)
        return items

    def charref(self):
        return self.rng is not None and self.rng.random() < 0.15

    def comment(self):
        """now and then a comment between elements, with tag-like text inside (ignored by every XML parser)"""
        if self.rng is not None and self.rng.random() < 0.12:
            return self.rng.choice(['<!-- previous release: <Lexicon id="old" version="0"> -->\n',
                                    '<!-- <Extends id="nobase" version="0"/> -->\n',
                                    '<!-- plain comment -->\n',
                                    "<!--\n <LexiconExtension id='c' version='1' label='in a comment'>\n-->\n"])
        return ''

    def cdata(self):
        return self.rng is not None and self.rng.random() < 0.06


def esc_attr(s, q, st):
    out = []
    for c in s:
        if c == '&':
            out.append('&amp;')
        elif c == '<':
            out.append('&lt;')
        elif c == '>':
            out.append('&gt;')
        elif c == q:
            out.append('&quot;' if q == '"' else '&apos;')
        elif c in '\t\n\r':
            out.append('&#%d;' % ord(c))
        elif st.charref() and c not in ' ':
            out.append('&#x%X;' % ord(c))
        else:
            out.append(c)
    return ''.join(out)


def esc_text(s, st):
    if s and st.cdata() and ']]>' not in s and '\r' not in s:
        return '<![CDATA[%s]]>' % s
    out = []
    for c in s:
        if c == '&':
            out.append('&amp;')
        elif c == '<':
            out.append('&lt;')
        elif c == '>':
            out.append('&gt;')
        elif c == '\r':
            out.append('&#13;')
        elif st.charref() and not c.isspace():
            out.append('&#%d;' % ord(c))
        else:
            out.append(c)
    return ''.join(out)


def attrs(pairs, st):
    pairs = [(k, v) for k, v in pairs if v is not None]
    pairs = st.shuffle(pairs)
    out = []
    for k, v in pairs:
        q = st.quote()
        out.append(' %s=%s%s%s' % (k, q, esc_attr(str(v), q, st), q))
    return ''.join(out)


def meta_pairs(meta):
    if not meta:
        return []
    out = []
    for k in DC_ATTRS:
        if k in meta:
            out.append(('dc:' + k, meta[k]))
    for k in PLAIN_META:
        if k in meta:
            out.append((k, meta[k]))
    return out


def boolattr(v):
    return None if v is None else ('true' if v else 'false')


def to_xml(resource, version=None, style=None, indent=True):
    st = style or Style()
    v = version or resource['lmf_version']
    o = []
    w = o.append
    w('<?xml version="1.0" encoding="UTF-8"?>\n')
    w('<!DOCTYPE LexicalResource SYSTEM "%s">\n' % SCHEMAS[v])
    w('<LexicalResource xmlns:dc="%s">\n' % DC_URIS[v])
    for lex in resource['lexicons']:
        ext = lex.get('extends')
        tag = 'LexiconExtension' if ext else 'Lexicon'
        w(st.comment())
        w('<%s%s>\n' % (tag, attrs(
            [('id', lex['id']), ('label', lex['label']), ('language', lex['language']),
             ('email', lex['email']), ('license', lex['license']), ('version', lex['version']),
             ('url', lex.get('url')), ('citation', lex.get('citation')),
             ('logo', lex.get('logo'))] + meta_pairs(lex.get('meta')), st)))
        if ext:
            w('<Extends%s/>\n' % attrs([('id', ext['id']), ('version', ext['version']),
                                        ('url', ext.get('url'))], st))
        for req in lex.get('requires', []):
            w('<Requires%s/>\n' % attrs([('id', req['id']), ('version', req['version']),
                                         ('url', req.get('url'))], st))
        for e in lex.get('entries', []):
            w(st.comment())
            _entry(e, w, st, v)
        for ss in lex.get('synsets', []):
            w(st.comment())
            _synset(ss, w, st, v)
        for sb in lex.get('frames', []):
            _frame(sb, w, st, lexlevel=True)
        w('</%s>\n' % tag)
    w('</LexicalResource>\n')
    return ''.join(o)


def _formkids(f, w, st):
    for p in f.get('pronunciations', []):
        w('<Pronunciation%s>%s</Pronunciation>' % (attrs(
            [('variety', p.get('variety')), ('notation', p.get('notation')),
             ('phonemic', boolattr(p.get('phonemic'))), ('audio', p.get('audio'))], st),
            esc_text(p['text'], st)))
    for t in f.get('tags', []):
        w('<Tag%s>%s</Tag>' % (attrs([('category', t['category'])], st), esc_text(t['text'], st)))


def _entry(e, w, st, v):
    if e.get('external'):
        w('<ExternalLexicalEntry%s>\n' % attrs([('id', e['id'])], st))
        lem = e.get('lemma')
        if lem is not None:
            w('<ExternalLemma>')
            _formkids(lem, w, st)
            w('</ExternalLemma>\n')
    else:
        w('<LexicalEntry%s>\n' % attrs([('id', e['id'])] + meta_pairs(e.get('meta')), st))
        lem = e['lemma']
        w('<Lemma%s>' % attrs([('writtenForm', lem['writtenForm']), ('script', lem.get('script')),
                               ('partOfSpeech', lem['partOfSpeech'])], st))
        _formkids(lem, w, st)
        w('</Lemma>\n')
    for f in e.get('forms', []):
        if f.get('external'):
            w('<ExternalForm%s>' % attrs([('id', f['id'])], st))
            _formkids(f, w, st)
            w('</ExternalForm>\n')
        else:
            w('<Form%s>' % attrs([('id', f.get('id')), ('writtenForm', f['writtenForm']),
                                  ('script', f.get('script'))], st))
            _formkids(f, w, st)
            w('</Form>\n')
    for s in e.get('senses', []):
        _sense(s, w, st)
    for sb in e.get('frames', []):
        _frame(sb, w, st, lexlevel=False)
    w('</ExternalLexicalEntry>\n' if e.get('external') else '</LexicalEntry>\n')


def _rel(r, tag, w, st):
    w('<%s%s/>' % (tag, attrs([('target', r['target']), ('relType', r['relType'])]
                              + meta_pairs(r.get('meta')), st)))


def _example(x, w, st):
    w('<Example%s>%s</Example>' % (attrs([('language', x.get('language'))]
                                         + meta_pairs(x.get('meta')), st), esc_text(x['text'], st)))


def _sense(s, w, st):
    if s.get('external'):
        w('<ExternalSense%s>' % attrs([('id', s['id'])], st))
    else:
        w('<Sense%s>' % attrs(
            [('id', s['id']), ('synset', s['synset']),
             ('lexicalized', boolattr(s.get('lexicalized'))),
             ('adjposition', s.get('adjposition')),
             ('subcat', ' '.join(s['subcat']) if s.get('subcat') else None)]
            + meta_pairs(s.get('meta')), st))
    for r in s.get('relations', []):
        _rel(r, 'SenseRelation', w, st)
    for x in s.get('examples', []):
        _example(x, w, st)
    for c in s.get('counts', []):
        w('<Count%s>%d</Count>' % (attrs(meta_pairs(c.get('meta')), st), c['value']))
    w('</ExternalSense>\n' if s.get('external') else '</Sense>\n')


def _synset(ss, w, st, v):
    if ss.get('external'):
        w('<ExternalSynset%s>' % attrs([('id', ss['id'])], st))
    else:
        w('<Synset%s>' % attrs(
            [('id', ss['id']), ('ili', ss['ili']), ('partOfSpeech', ss.get('partOfSpeech')),
             ('lexicalized', boolattr(ss.get('lexicalized'))),
             ('members', ' '.join(ss['members']) if ss.get('members') else None),
             ('lexfile', ss.get('lexfile'))] + meta_pairs(ss.get('meta')), st))
    for d in ss.get('definitions', []):
        w('<Definition%s>%s</Definition>' % (attrs(
            [('language', d.get('language')), ('sourceSense', d.get('sourceSense'))]
            + meta_pairs(d.get('meta')), st), esc_text(d['text'], st)))
    if ss.get('ili_definition'):
        idf = ss['ili_definition']
        w('<ILIDefinition%s>%s</ILIDefinition>' % (attrs(meta_pairs(idf.get('meta')), st),
                                                   esc_text(idf['text'], st)))
    for r in ss.get('relations', []):
        _rel(r, 'SynsetRelation', w, st)
    for x in ss.get('examples', []):
        _example(x, w, st)
    w('</ExternalSynset>\n' if ss.get('external') else '</Synset>\n')


def _frame(sb, w, st, lexlevel):
    w('<SyntacticBehaviour%s/>\n' % attrs(
        [('id', sb.get('id')), ('subcategorizationFrame', sb['subcategorizationFrame']),
         # (the generators put `senses` on entry-level frames only; a lexicon-level frame that has the attribute as well
         # — the DTDs of 1.1+ allow it — is written only for the crafted C07 case)
         ('senses', ' '.join(sb['senses']) if sb.get('senses') else None)], st))


def simple_lexicon(lid, version='1', language='en', **kw):
    d = {'id': lid, 'label': kw.pop('label', lid + ' label'), 'language': language,
         'email': 'a@b.c', 'license': 'lic', 'version': version,
         'entries': [], 'synsets': []}
    d.update(kw)
    return d
