"""Shared machinery for every check: build of the Coq development, proof audit,
correspondence evaluation inside Coq (generated cases.v + vm_compute), running
the real implementation, verdicts, replays and evidence."""
import fcntl
import glob
import hashlib
import json
import os
import random
import re
import shutil
import subprocess
import sys
import tempfile
import time

HERE = os.path.dirname(os.path.abspath(__file__))
VERIF = os.path.dirname(HERE)
COQ = os.path.join(VERIF, 'coq')
PY = '/venv/bin/python'
NPROC = min(16, os.cpu_count() or 4)
MAX_SHARD_CHARS = 300000

ALLOWED_AXIOMS = {
    'functional_extensionality_dep', 'proof_irrelevance', 'classic', 'JMeq_eq',
    'Eqdep.Eq_rect_eq.eq_rect_eq', 'eq_rect_eq',
}
FORBIDDEN_RE = re.compile(
    r'\b(Admitted|admit|Axiom|Axioms|Parameter|Parameters|Conjecture|Conjectures|'
    r'Unset\s+Guard|bypass_check|Admit\s+Obligations|type-in-type|impredicative-set)\b')


def repo():
    return os.environ.get('VERIF_REPO', '/repo')


_SEED_SHIFT = 0


def seed():
    try:
        return int(os.environ.get('VERIF_SEED', '0')) + _SEED_SHIFT
    except ValueError:
        return _SEED_SHIFT


def shift_seed(k):
    """extra passes after source drift (check.py) use seeds base + 100003 * k"""
    global _SEED_SHIFT
    _SEED_SHIFT = 100003 * k


# --------------------------------------------------------------------------
# work directory

_WORK = None


def workdir():
    global _WORK
    if _WORK is None:
        base = '/dev/shm' if os.path.isdir('/dev/shm') else tempfile.gettempdir()
        _WORK = tempfile.mkdtemp(prefix='wnverif-%d-' % os.getpid(), dir=base)
    return _WORK


def cleanup():
    global _WORK
    if _WORK and os.path.isdir(_WORK):
        shutil.rmtree(_WORK, ignore_errors=True)
    _WORK = None


# --------------------------------------------------------------------------
# Coq build

def coq_files():
    out = []
    for d in ('Base', 'Gen', 'Model', 'Samples', 'Proofs', 'Properties'):
        out += sorted(glob.glob(os.path.join(COQ, d, '*.v')))
    return [os.path.relpath(p, COQ) for p in out]


def write_coqproject():
    hdr = ('-Q . WnV\n'
           '-arg -w -arg -notation-overridden,-deprecated-hint-without-locality,'
           '-deprecated-instance-without-locality,-ambiguous-paths\n')
    text = hdr + '\n'.join(coq_files()) + '\n'
    path = os.path.join(COQ, '_CoqProject')
    old = open(path).read() if os.path.exists(path) else None
    if old != text:
        with open(path, 'w') as fh:
            fh.write(text)
        return True
    return False


class BuildResult:
    def __init__(self):
        self.translate_ok = True
        self.translate_err = ''
        self.changed_gen = []
        self.make_rc = 0
        self.make_log = ''
        self.wall = 0.0


def ensure_build(verbose=True):
    """Regenerate Gen/ from the source tree, then bring every .vo up to date
    (make -k: a file that no longer compiles does not stop unrelated files).
    Serialised by a file lock."""
    import translate
    res = BuildResult()
    t0 = time.time()
    lock = open(os.path.join(COQ, '.build.lock'), 'w')
    fcntl.flock(lock, fcntl.LOCK_EX)
    try:
        try:
            res.changed_gen, res.probe = translate.regenerate()
        except Exception as e:  # fail closed
            res.translate_ok = False
            res.translate_err = str(e)
            res.probe = None
        changed = write_coqproject()
        mk = os.path.join(COQ, 'Makefile')
        if changed or not os.path.exists(mk):
            subprocess.run(['coq_makefile', '-f', '_CoqProject', '-o', 'Makefile'],
                           cwd=COQ, check=True, capture_output=True)
        p = subprocess.run(['timeout', '1500', 'make', '-k', '-j%d' % NPROC],
                           cwd=COQ, capture_output=True, text=True)
        res.make_rc = p.returncode
        res.make_log = (p.stdout + p.stderr)[-20000:]
    finally:
        fcntl.flock(lock, fcntl.LOCK_UN)
        lock.close()
    res.wall = time.time() - t0
    if verbose:
        print('[build] gen changed=%s translate_ok=%s make_rc=%d (%.1fs)' % (
            res.changed_gen, res.translate_ok, res.make_rc, res.wall))
    return res


def grep_forbidden():
    """Forbidden vernacular anywhere in the development (comments stripped)."""
    hits = []
    for rel in coq_files():
        text = open(os.path.join(COQ, rel)).read()
        text = strip_comments(text)
        for m in FORBIDDEN_RE.finditer(text):
            line = text.count('\n', 0, m.start()) + 1
            hits.append('%s:%d:%s' % (rel, line, m.group(0)))
    return hits


def strip_comments(text):
    out = []
    depth = 0
    i = 0
    n = len(text)
    instr = False
    while i < n:
        if depth == 0 and text[i] == '"':
            instr = not instr
            out.append(text[i]); i += 1; continue
        if not instr and text.startswith('(*', i):
            depth += 1; i += 2; continue
        if not instr and depth > 0 and text.startswith('*)', i):
            depth -= 1; i += 2; continue
        if depth == 0:
            out.append(text[i])
        elif text[i] == '\n':
            out.append('\n')
        i += 1
    return ''.join(out)


def audit_property(pid):
    """Re-checks Properties/<pid>.v with coqc (its dependencies were just built)
    and parses every Print Assumptions report.  Returns a dict."""
    rel = os.path.join('Properties', pid + '.v')
    src = os.path.join(COQ, rel)
    r = {'file': rel, 'obligations': 0, 'discharged': 0, 'axioms': [],
         'ok': False, 'log': '', 'theorems': []}
    if not os.path.exists(src):
        r['log'] = 'missing ' + rel
        return r
    text = strip_comments(open(src).read())
    names = re.findall(r'^\s*Print\s+Assumptions\s+([A-Za-z0-9_\.\']+)\s*\.', text, re.M)
    stated = re.findall(r'^\s*(?:Theorem|Lemma|Corollary|Example)\s+([A-Za-z0-9_\']+)', text, re.M)
    r['theorems'] = stated
    r['obligations'] = len(stated)
    t0 = time.time()
    p = subprocess.run(['timeout', '600', 'coqc', '-Q', '.', 'WnV',
                        '-w', '-notation-overridden,-deprecated-hint-without-locality', rel],
                       cwd=COQ, capture_output=True, text=True)
    r['log'] = (p.stdout + p.stderr)[-6000:]
    r['wall'] = time.time() - t0
    if p.returncode != 0:
        return r
    # every stated theorem must have its Print Assumptions
    missing = [s for s in stated if s not in names]
    reports = re.split(r'(?=Closed under the global context|Axioms:)', p.stdout)
    closed = p.stdout.count('Closed under the global context')
    ax_blocks = re.findall(r'Axioms:\n((?:.+\n?)+?)(?=\n\S|\Z)', p.stdout)
    axioms = set()
    bad = False
    for blk in ax_blocks:
        for m in re.finditer(r'^([A-Za-z0-9_\.\']+)\s*:', blk, re.M):
            axioms.add(m.group(1))
    for a in axioms:
        short = a.split('.')[-1]
        if a not in ALLOWED_AXIOMS and short not in ALLOWED_AXIOMS:
            bad = True
    r['axioms'] = sorted(axioms)
    n_reports = closed + len(ax_blocks)
    r['discharged'] = min(n_reports, len(stated)) if not missing else len(stated) - len(missing)
    r['missing_print_assumptions'] = missing
    r['ok'] = (not bad) and (not missing) and n_reports >= len(stated)
    if bad:
        r['log'] += '\nnon-allow-listed axiom among: %s' % sorted(axioms)
    return r


# --------------------------------------------------------------------------
# S-expression literals

def sx(obj):
    """Python value -> Coq term of type sx.  int -> A, str -> list of code points,
    bool -> A 0/1, None -> L [], list/tuple -> L."""
    if obj is None:
        return 'L []'
    if obj is True:
        return 'A 1'
    if obj is False:
        return 'A 0'
    if isinstance(obj, int):
        return 'A %d' % obj if obj >= 0 else 'A (%d)' % obj
    if isinstance(obj, str):
        return 'Sz [' + ';'.join(str(ord(c)) for c in obj) + ']'
    if isinstance(obj, (list, tuple)):
        return 'L [' + '; '.join(sx(x) for x in obj) + ']'
    raise TypeError('cannot encode %r' % (obj,))


def coq_mismatches(requires, run, agree, pairs, tag='c', shard=250, want_model_out=True):
    """pairs: list of (input_obj, impl_output_obj).  Evaluates inside Coq, with
    vm_compute, on which indices the model's output disagrees with the
    implementation's.  Returns (mismatch_indices, info)."""
    wd = workdir()
    jobs = []
    # shards of at most [shard] cases and at most MAX_SHARD_CHARS characters of literal text: very large list literals
    # overflow coqc's stack (the parser is not tail-recursive); coqc also runs with an unlimited stack (launch below)
    rendered = ['(%s,\n %s)' % (sx(a), sx(b)) for a, b in pairs]
    k = 0
    while k < len(pairs):
        j, size = k, 0
        while j < len(pairs) and j - k < shard and (j == k or size + len(rendered[j]) <= MAX_SHARD_CHARS):
            size += len(rendered[j])
            j += 1
        name = '%s_%d' % (tag, len(jobs))
        path = os.path.join(wd, name + '.v')
        with open(path, 'w') as fh:
            fh.write('From Coq Require Import ZArith List.\nImport ListNotations.\n')
            fh.write('Require Import WnV.Base.Sx %s.\nLocal Open Scope Z_scope.\n' % requires)
            fh.write('Definition cases : list (sx * sx) := [\n')
            fh.write(';\n'.join(rendered[k:j]))
            fh.write('\n].\n')
            fh.write('Definition mm := Eval vm_compute in mismatches %s %s cases.\n' % (run, agree))
            fh.write('Print mm.\n')
        jobs.append((k, name, path))
        k = j
    del rendered
    procs = []
    results = {}
    t0 = time.time()

    def launch(job):
        k, name, path = job
        return (job, subprocess.Popen(
            ['bash', '-c', 'ulimit -s unlimited 2>/dev/null || ulimit -s 1000000 2>/dev/null; exec timeout 900 coqc -Q "$0" WnV -w -all "$1"',
             COQ, path],
            cwd=wd, stdout=subprocess.PIPE, stderr=subprocess.PIPE, text=True))
    pending = list(jobs)
    running = []
    errors = []
    while pending or running:
        while pending and len(running) < NPROC:
            running.append(launch(pending.pop(0)))
        job, pr = running.pop(0)
        out, err = pr.communicate()
        k, name, path = job
        if pr.returncode != 0:
            errors.append('%s: rc=%d %s' % (name, pr.returncode, (out + err)[-1500:]))
            continue
        m = re.search(r'mm\s*=\s*(.*?)\s*:\s*list Z', out, re.S)
        if not m:
            errors.append('%s: unparsable output %s' % (name, out[-500:]))
            continue
        idx = [int(x) for x in re.findall(r'-?\d+', m.group(1))]
        results[k] = idx
    mism = []
    for k in sorted(results):
        mism += [k + i for i in results[k]]
    info = {'errors': errors, 'wall': time.time() - t0, 'shards': len(jobs)}
    if mism and want_model_out:
        info['model_outputs'] = coq_model_outputs(requires, run, [pairs[i][0] for i in mism[:5]])
    return mism, info


def coq_model_outputs(requires, run, inputs):
    wd = workdir()
    path = os.path.join(wd, 'show.v')
    with open(path, 'w') as fh:
        fh.write('From Coq Require Import ZArith List.\nImport ListNotations.\n')
        fh.write('Require Import WnV.Base.Sx %s.\nLocal Open Scope Z_scope.\n' % requires)
        for i, a in enumerate(inputs):
            fh.write('Definition o%d := Eval vm_compute in %s (%s).\nPrint o%d.\n' % (i, run, sx(a), i))
    p = subprocess.run(['timeout', '300', 'coqc', '-Q', COQ, 'WnV', '-w', '-all', path],
                       cwd=wd, capture_output=True, text=True)
    return p.stdout[-6000:]


# --------------------------------------------------------------------------
# running the implementation

def run_impl(script, payload, hashseed=0, timeout=1800, extra_env=None):
    """Runs harness/impl/<script> under the repository's interpreter with
    PYTHONPATH forced to the source tree; payload/result are JSON."""
    env = dict(os.environ)
    env['PYTHONPATH'] = repo() + os.pathsep + HERE
    env['PYTHONHASHSEED'] = str(hashseed)
    env['WN_VERIF'] = '1'
    env['VERIF_REPO'] = repo()
    env.pop('PYTHONSTARTUP', None)
    if extra_env:
        env.update(extra_env)
    wd = workdir()
    inp = os.path.join(wd, 'impl_in_%d_%d.json' % (os.getpid(), random.getrandbits(32)))
    with open(inp, 'w') as fh:
        json.dump(payload, fh)
    p = subprocess.run([PY, os.path.join(HERE, 'impl', script), inp], env=env, cwd=wd,
                       capture_output=True, text=True, timeout=timeout)
    os.unlink(inp)
    if p.returncode != 0:
        raise RuntimeError('impl runner %s failed rc=%d:\n%s' % (script, p.returncode, p.stderr[-4000:]))
    return json.loads(p.stdout)


def run_impl_parallel(script, payloads, hashseed=0, timeout=1800):
    """payloads: list of JSON payloads, one subprocess each (up to NPROC at a time)."""
    from concurrent.futures import ThreadPoolExecutor
    with ThreadPoolExecutor(max_workers=NPROC) as ex:
        return list(ex.map(lambda pl: run_impl(script, pl, hashseed, timeout), payloads))


# --------------------------------------------------------------------------
# known findings

def shard_dbs(items, per_db, nproc=None, min_dbs_per_proc=3):
    """Group generated cases into databases of [per_db] cases and databases into per-process shards such that every
    process handles several databases in turn (fresh database, same rowids, different content): state that survives
    between calls inside one process (module-level caches keyed by rowid) then shows up as a disagreement."""
    nproc = nproc or NPROC
    per_db = max(1, min(per_db, max(1, len(items) // (nproc * min_dbs_per_proc))))
    dbs = [items[i:i + per_db] for i in range(0, len(items), per_db)]
    nsh = max(1, min(nproc, len(dbs) // min_dbs_per_proc))
    return [s for s in (dbs[i::nsh] for i in range(nsh)) if s]


def load_known():
    path = os.path.join(VERIF, 'known_findings.json')
    if not os.path.exists(path):
        return {'findings': [], 'fixed': []}
    return json.load(open(path))


# --------------------------------------------------------------------------
# verdict / evidence

class Report:
    def __init__(self, pid, tier):
        self.pid = pid
        self.tier = tier
        self.t0 = time.time()
        self.failures = []        # oracle failures: dicts (case, items)
        self.known_seen = {}      # finding id -> description
        self.broken = []          # broken obligations / ties (strings)
        self.coverage = {}
        self.assumptions = []
        self.samples = []
        self.notes = []

    def fail(self, what, case, detail):
        self.failures.append({'what': what, 'case': case, 'detail': detail})

    def known(self, fid, desc, case=None, detail=None):
        """An observed failure matching the signature of finding [fid]: reported as
        KNOWN-FINDING only if known_findings.json lists it; otherwise it is a violation."""
        listed = {f['id'] for f in load_known().get('findings', []) if f.get('property') == self.pid}
        if fid in listed:
            self.known_seen.setdefault(fid, desc)
        else:
            self.fail('unlisted finding %s: %s' % (fid, desc), case, detail)

    def broke(self, what):
        self.broken.append(what)

    def finish(self):
        wall = time.time() - self.t0
        os.makedirs(os.path.join(VERIF, 'replays'), exist_ok=True)
        os.makedirs(os.path.join(VERIF, 'evidence'), exist_ok=True)
        rc = 0
        lines = []
        for fid, desc in sorted(self.known_seen.items()):
            lines.append('KNOWN-FINDING: property=%s %s' % (self.pid, desc))
        replay = None
        if self.failures:
            replay = os.path.join(VERIF, 'replays', '%s-%s-seed%d.json' % (self.pid, self.tier, seed()))
            with open(replay, 'w') as fh:
                json.dump({'property': self.pid, 'kind': 'failing-input', 'tree': tree_id(),
                           'failures': self.failures[:20], 'broken': self.broken}, fh, indent=1)
            lines.append('VIOLATION property=%s replay=%s' % (self.pid, replay))
            rc = 1
        elif self.broken:
            replay = os.path.join(VERIF, 'replays', '%s-%s-seed%d-broken.json' % (self.pid, self.tier, seed()))
            with open(replay, 'w') as fh:
                json.dump({'property': self.pid, 'kind': 'broken-obligation-or-correspondence', 'tree': tree_id(),
                           'broken': self.broken}, fh, indent=1)
            lines.append('VIOLATION property=%s replay=%s no-failing-input-found' % (self.pid, replay))
            rc = 1
        cov = dict(self.coverage)
        cov.setdefault('samples', self.samples[:5] or ['(none)'])
        ev = {
            'property_id': self.pid,
            'tier': self.tier,
            'seed': seed(),
            'level': 'proof',
            'coverage': cov,
            'assumptions': self.assumptions,
            'wall_s': round(wall, 2),
            'violations': len(self.failures) + (1 if (self.broken and not self.failures) else 0),
            'known_findings_observed': sorted(self.known_seen),
            'broken': self.broken,
            'notes': self.notes,
        }
        with open(os.path.join(VERIF, 'evidence', self.pid + '.json'), 'w') as fh:
            json.dump(ev, fh, indent=1, default=str)
        for ln in lines:
            print(ln)
        print('[%s] tier=%s seed=%d wall=%.1fs failures=%d broken=%d known=%d -> exit %d' % (
            self.pid, self.tier, seed(), wall, len(self.failures), len(self.broken),
            len(self.known_seen), rc))
        cleanup()
        return rc


def tree_id():
    """identifies the tree a replay was produced on (HEAD + summary of uncommitted changes)"""
    try:
        head = subprocess.run(['git', '-C', repo(), 'rev-parse', 'HEAD'], capture_output=True, text=True, timeout=20).stdout.strip()
        st = subprocess.run(['git', '-C', repo(), 'diff', '--stat'], capture_output=True, text=True, timeout=20).stdout.strip().splitlines()
        return {'repo': repo(), 'head': head, 'uncommitted': st[-8:]}
    except Exception as e:  # noqa
        return {'repo': repo(), 'error': str(e)}


def canon_hash(obj):
    return hashlib.sha1(json.dumps(obj, sort_keys=True, default=str).encode()).hexdigest()
