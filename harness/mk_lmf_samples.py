"""harness/mk_lmf_samples.py <seed> <count> <outdir> — real cases for Model/Lmf.v (run_dump, run_load)."""
import os
import random
import sys
HERE = os.path.dirname(os.path.abspath(__file__))
sys.path.insert(0, HERE)
import common    # noqa: E402
import gendoc    # noqa: E402
import lmfgen    # noqa: E402
import lmfmodel  # noqa: E402
import lmfmut    # noqa: E402

seed, count, outdir = int(sys.argv[1]), int(sys.argv[2]), sys.argv[3]
os.makedirs(outdir, exist_ok=True)
rng = random.Random(seed)
jobs = []
for _ in range(count):
    u = gendoc.gen_universe(rng, size=2)
    name, res = rng.choice(u)
    v = rng.choice(['1.0', '1.1', '1.3'])
    jobs.append({'kind': 'dump', 'resource': dict(res, lmf_version=v)})
    text = lmfgen.to_xml(res, style=lmfgen.Style(random.Random(rng.randrange(1 << 30))))
    jobs.append({'kind': 'load', 'text': text})
    jobs.append({'kind': 'load', 'text': lmfmut.mutate(rng, text)[1]})
outs = common.run_impl('run_lmf.py', {'jobs': jobs})
k = 0
for job, rec in zip(jobs, outs):
    if job['kind'] == 'dump':
        pair = lmfmodel.dump_case(job['resource']['lmf_version'], job['resource'], rec)
        fn = 'run_dump'
    else:
        pair = lmfmodel.load_case(rec)
        fn = 'run_load'
        if pair is None:
            continue
    with open(os.path.join(outdir, 'case_%d_%d.v' % (seed, k)), 'w') as fh:
        fh.write('From Coq Require Import ZArith List.\nImport ListNotations.\nRequire Import WnV.Base.Sx.\n'
                 'Local Open Scope Z_scope.\n(* to be evaluated with %s *)\n' % fn)
        fh.write('Definition input_%d : sx :=\n %s.\n' % (k, common.sx(pair[0])))
        fh.write('Definition expected_%d : sx :=\n %s.\n' % (k, common.sx(pair[1])))
    k += 1
common.cleanup()
print('wrote', k, 'cases to', outdir)
