"""Expected API content computed from the generated document descriptions alone
(independent of wn.lmf.load and of the database).  A Universe indexes the
resources that were added (in order) and answers, for a scope = set of lexicon
specifiers, what each entity must show."""


def spec(lex):
    return '%s:%s' % (lex['id'], lex['version'])


class Universe:
    def __init__(self, resources, installed=None):
        """resources: list of (name, resource) in the order they were added.
        installed: specifiers actually installed (default: all, except extensions whose base is missing)."""
        self.lex = {}
        self.order = []
        for _name, res in resources:
            for lx in res['lexicons']:
                sp = spec(lx)
                if sp in self.lex:
                    continue
                base = lx.get('extends')
                if base and '%s:%s' % (base['id'], base['version']) not in self.lex:
                    continue        # skipped: base not available
                self.lex[sp] = (lx, res['lmf_version'])
                self.order.append(sp)
        if installed is not None:
            self.order = [s for s in self.order if s in installed]
            self.lex = {s: self.lex[s] for s in self.order}

    def base_of(self, sp):
        lx = self.lex[sp][0]
        b = lx.get('extends')
        return ('%s:%s' % (b['id'], b['version'])) if b else None

    def family(self, sp):
        """the lexicon, its bases (transitively) and its extensions (transitively)"""
        fam = {sp}
        b = self.base_of(sp)
        while b and b in self.lex:
            fam.add(b)
            b = self.base_of(b)
        changed = True
        ext = {sp}
        while changed:
            changed = False
            for s in self.order:
                if self.base_of(s) in ext and s not in ext:
                    ext.add(s)
                    changed = True
        return fam | ext

    def chain(self, sp):
        """sp and its bases, nearest first"""
        out = [sp]
        b = self.base_of(sp)
        while b and b in self.lex:
            out.append(b)
            b = self.base_of(b)
        return out

    # ---- declarations -------------------------------------------------
    def entries(self, sp, local_only=True):
        return [e for e in self.lex[sp][0].get('entries', []) if not (local_only and e.get('external'))]

    def synsets(self, sp, local_only=True):
        return [s for s in self.lex[sp][0].get('synsets', []) if not (local_only and s.get('external'))]

    def owner_entry(self, sp, entry_id):
        """(specifier, entry) of the lexicon in sp's base chain that declares the entry"""
        for s in self.chain(sp):
            for e in self.lex[s][0].get('entries', []):
                if e['id'] == entry_id and not e.get('external'):
                    return s, e
        return None, None

    def owner_synset(self, sp, synset_id):
        for s in self.chain(sp):
            for ss in self.lex[s][0].get('synsets', []):
                if ss['id'] == synset_id and not ss.get('external'):
                    return s, ss
        return None, None

    def owner_sense(self, sp, sense_id):
        for s in self.chain(sp):
            for e in self.lex[s][0].get('entries', []):
                for se in e.get('senses', []):
                    if se['id'] == sense_id and not se.get('external'):
                        return s, e, se
        return None, None, None

    def senses_of_entry(self, owner_sp, entry_id, scope):
        """[(spec, sense)]: local senses of every in-scope lexicon (the owner and its extensions) on this entry,
        grouped per lexicon in document order"""
        out = []
        for s in self.order:
            if s not in scope or owner_sp not in self.chain(s):
                continue
            for e in self.lex[s][0].get('entries', []):
                if e['id'] != entry_id:
                    continue
                if s != owner_sp and not e.get('external'):
                    continue
                for se in e.get('senses', []):
                    if not se.get('external'):
                        out.append((s, se))
        return out

    def contributions(self, owner_sp, kind, ident, field, scope):
        """things (examples, counts, relations, definitions, tags, ...) in-scope lexicons attach to an entity:
        the owner's own declaration first, then extensions' External* declarations, in installation order"""
        out = []
        for s in self.order:
            if s not in scope or owner_sp not in self.chain(s):
                continue
            lx = self.lex[s][0]
            if kind == 'synset':
                for ss in lx.get('synsets', []):
                    if ss['id'] == ident and (s == owner_sp) != bool(ss.get('external')):
                        out += [(s, x) for x in ss.get(field, [])]
            elif kind == 'sense':
                for e in lx.get('entries', []):
                    for se in e.get('senses', []):
                        if se['id'] == ident and (s == owner_sp) != bool(se.get('external')):
                            out += [(s, x) for x in se.get(field, [])]
        return out

    def frames_of_sense(self, sp, entry, sense):
        lx, _v = self.lex[sp]
        out = []
        for fr in lx.get('frames', []):
            if fr.get('id') and fr['id'] in sense.get('subcat', []):
                out.append(fr['subcategorizationFrame'])
        for fr in entry.get('frames', []):
            if not fr.get('senses') or sense['id'] in fr['senses']:
                out.append(fr['subcategorizationFrame'])
        # frames are unique per lexicon by their text
        res = []
        for f in out:
            if f not in res:
                res.append(f)
        return res

    def form_children(self, owner_sp, entry, which, field, scope):
        """tags / pronunciations of the lemma (which = None) or of the form with index/id, owner first then extensions"""
        out = []
        for s in self.order:
            if s not in scope or owner_sp not in self.chain(s):
                continue
            for e in self.lex[s][0].get('entries', []):
                if e['id'] != entry['id']:
                    continue
                if s == owner_sp and not e.get('external'):
                    src = e['lemma'] if which is None else e.get('forms', [])[which]
                    out += list(src.get(field, []))
                elif s != owner_sp and e.get('external'):
                    if which is None:
                        if e.get('lemma'):
                            out += list(e['lemma'].get(field, []))
                    else:
                        fid = entry.get('forms', [])[which].get('id')
                        for f in e.get('forms', []):
                            if f.get('external') and fid and f['id'] == fid:
                                out += list(f.get(field, []))
        return out
