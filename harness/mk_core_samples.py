"""harness/mk_core_samples.py <seed> <count> <outdir> — real (input, expected) cases for Model/Core.v."""
import os
import random
import sys
HERE = os.path.dirname(os.path.abspath(__file__))
sys.path.insert(0, HERE)
import common    # noqa: E402
import coremodel  # noqa: E402

seed, count, outdir = int(sys.argv[1]), int(sys.argv[2]), sys.argv[3]
os.makedirs(outdir, exist_ok=True)
rng = random.Random(seed)
unis = [coremodel.gen_case(rng, small=True) for _ in range(count)]
outs = common.run_impl('run_battery.py', {'universes': unis})
k = 0
for u, rec in zip(unis, outs):
    for cfg, ob in zip(u['configs'], rec['obs']):
        inp, exp = coremodel.to_pair(u, rec, cfg, ob)
        name = 'case_%d_%d' % (seed, k)
        with open(os.path.join(outdir, name + '.v'), 'w') as fh:
            fh.write('From Coq Require Import ZArith List.\nImport ListNotations.\nRequire Import WnV.Base.Sx.\n'
                     'Local Open Scope Z_scope.\n')
            fh.write('Definition input_%d : sx :=\n %s.\n' % (k, common.sx(inp)))
            fh.write('Definition expected_%d : sx :=\n %s.\n' % (k, common.sx(exp)))
        k += 1
common.cleanup()
print('wrote', k, 'cases to', outdir)
