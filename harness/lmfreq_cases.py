"""harness/lmfreq_cases.py — the 65 minimal documents of Proofs/LmfRequired.v (one per assert / conversion of the _validate*
functions of wn/lmf.py, plus accepted neighbours).  Each is a tree (name, attrs, text, kids); `to_coq` gives the text of its
`Definition <name> : xtree` in LmfRequired.v and `to_xml` the document that the real wn.lmf.load is run on, so that the
verdict proved for the model (`Example <name>_verdict`, by vm_compute) is compared with the implementation on every run
(props/C20.py).  (Table written by the proof agent together with the proofs; originally gen_examples.py.)"""
import os
import re
from xml.sax.saxutils import quoteattr, escape

XSP = 'http://www.w3.org/XML/1998/namespace space'

def E(name, attrs=None, kids=None, text=''):
    return (name, dict(attrs or {}), text, list(kids or []))

LEX = dict(id='x', label='L', language='en', email='a@b', license='lic', version='1')
def without(d, k):
    d = dict(d); del d[k]; return d

def doc(*lexicons):
    return E('LexicalResource', {}, list(lexicons))
def lexicon(kids=(), attrs=LEX, name='Lexicon'):
    return E(name, attrs, kids)
LEMMA = E('Lemma', dict(writtenForm='w', partOfSpeech='n'))
def entry(kids=(LEMMA,), attrs=None, name='LexicalEntry'):
    return E(name, attrs if attrs is not None else dict(id='e1'), kids)
def sense(kids=(), attrs=None, name='Sense'):
    return E(name, attrs if attrs is not None else dict(id='s1', synset='ss1'), kids)
def synset(kids=(), attrs=None, name='Synset'):
    return E(name, attrs if attrs is not None else dict(id='ss1', ili='i1'), kids)
EXT = E('Extends', dict(id='base', version='1'))

CASES = []   # (name, version, tree, predicate or None, comment)
def case(name, tree, pred=None, version='1.1', comment=''):
    CASES.append((name, version, tree, pred, comment))

# ---- R2
case('r2_entry_no_lemma', doc(lexicon([entry(kids=[])])), 'r2_fault')
case('r2_lemma_no_written_form', doc(lexicon([entry([E('Lemma', dict(partOfSpeech='n'))])])), 'r2_fault')
case('r2_lemma_no_pos', doc(lexicon([entry([E('Lemma', dict(writtenForm='w'))])])), 'r2_fault')
case('r2_lemma_no_attrs', doc(lexicon([entry([E('Lemma')])])), 'r2_fault')
case('r2_form_no_written_form', doc(lexicon([entry([LEMMA, E('Form', dict(id='f1'))])])), 'r2_fault')
# ---- R3
case('r3_sense_no_synset', doc(lexicon([entry([LEMMA, sense(attrs=dict(id='s1'))])])), 'r3_fault')
case('r3_synset_no_ili', doc(lexicon([synset(attrs=dict(id='ss1', partOfSpeech='n'))])), 'r3_fault')
# ---- R4
case('r4_sense_relation_no_target',
     doc(lexicon([entry([LEMMA, sense([E('SenseRelation', dict(relType='antonym'))])])])), 'r4_fault')
case('r4_sense_relation_no_reltype',
     doc(lexicon([entry([LEMMA, sense([E('SenseRelation', dict(target='s2'))])])])), 'r4_fault')
case('r4_synset_relation_no_target', doc(lexicon([synset([E('SynsetRelation', dict(relType='hypernym'))])])), 'r4_fault')
case('r4_synset_relation_no_reltype', doc(lexicon([synset([E('SynsetRelation', dict(target='ss2'))])])), 'r4_fault')
case('r4_requires_no_version', doc(lexicon([E('Requires', dict(id='base'))])), 'r4_fault')
case('r4_requires_no_id', doc(lexicon([E('Requires', dict(version='1'))])), 'r4_fault')
case('r4_extends_no_version', doc(lexicon([E('Extends', dict(id='base'))], name='LexiconExtension')), 'r4_fault')
case('r4_extends_no_id', doc(lexicon([E('Extends', dict(version='1'))], name='LexiconExtension')), 'r4_fault')
case('r4_extends_only_url', doc(lexicon([E('Extends', dict(url='u'))], name='LexiconExtension')), 'r4_fault')
case('r4_frame_no_scf', doc(lexicon([E('SyntacticBehaviour', dict(id='fr1'))])), 'r4_fault')
case('r4_frame_no_scf_in_entry_10', doc(lexicon([entry([LEMMA, E('SyntacticBehaviour', dict(senses='s1'))])])),
     'r4_fault', version='1.0')
case('r4_lemma_tag_no_category',
     doc(lexicon([entry([E('Lemma', dict(writtenForm='w', partOfSpeech='n'), [E('Tag', text='t')])])])), 'r4_fault')
case('r4_form_tag_no_category',
     doc(lexicon([entry([LEMMA, E('Form', dict(writtenForm='v'), [E('Tag', text='t')])])])), 'r4_fault')
# ---- R1
for k in ['id', 'version', 'label', 'language', 'email', 'license']:
    case('r1_lexicon_no_' + k, doc(lexicon(attrs=without(LEX, k))), 'r1_fault')
case('r1_extension_no_label', doc(lexicon([EXT], attrs=without(LEX, 'label'), name='LexiconExtension')), 'r1_fault')
# ---- R5
for nm, tx in [('word', 'abc'), ('empty', ''), ('decimal', '1.5'), ('two', '1 2')]:
    case('r5_count_' + nm, doc(lexicon([entry([LEMMA, sense([E('Count', text=tx)])])])), 'r5_fault')
# ---- R6
case('r6_external_entry_in_lexicon', doc(lexicon([entry(name='ExternalLexicalEntry', kids=[])])), 'r6_external_fault')
case('r6_external_synset_in_lexicon', doc(lexicon([synset(name='ExternalSynset', attrs=dict(id='ss1'))])),
     'r6_external_fault')
case('r6_external_sense_in_lexicon',
     doc(lexicon([entry([LEMMA, sense(name='ExternalSense', attrs=dict(id='s1'))])])), 'r6_external_fault')
case('r6_external_form_in_lexicon',
     doc(lexicon([entry([LEMMA, E('ExternalForm', dict(id='f1'))])])), 'r6_external_fault')
case('r6_external_lemma_in_lexicon', doc(lexicon([entry([E('ExternalLemma')])])), 'r6_external_fault')
case('r6_external_in_extension_without_extends',
     doc(lexicon([synset(name='ExternalSynset', attrs=dict(id='ss1'))], name='LexiconExtension')),
     'r6_external_fault')
case('r6_external_form_no_id',
     doc(lexicon([EXT, entry([E('ExternalForm')], name='ExternalLexicalEntry')], name='LexiconExtension')),
     'r6_xform_fault')
case('r6_root_is_lexicon', lexicon(), None, comment='the document element is not LexicalResource')
# ---- rejected, outside the predicates (the model and the implementation still agree)
case('x_external_after_empty_extends',
     doc(lexicon([E('Extends'), synset(name='ExternalSynset', attrs=dict(id='ss1'))], name='LexiconExtension')),
     None, comment='<Extends/> without attributes is falsy: the lexicon is validated as a plain one')
case('x_entry_lemma_attribute', doc(lexicon([E('LexicalEntry', dict(id='e1', lemma='w'))])), None,
     comment="an attribute called lemma is not a Lemma: 'w'.get raises AttributeError")
case('x_count_preserve_word',
     doc(lexicon([entry([LEMMA, sense([E('Count', {XSP: 'preserve'}, text=' abc ')])])])), None)

# ---- accepted
case('a_empty_resource', doc())
case('a_lexicon_only', doc(lexicon()))
case('a_minimal', doc(lexicon([entry([LEMMA, sense()]), synset()])))
case('a_synset_no_part_of_speech', doc(lexicon([synset()])))
case('a_lexicon_empty_values', doc(lexicon(attrs={k: '' for k in LEX})),
     comment='the attributes must be present, not non-empty')
case('a_lexicalized_not_boolean',
     doc(lexicon([entry([LEMMA, sense(attrs=dict(id='s1', synset='ss1', lexicalized='maybe'))]),
                  synset(attrs=dict(id='ss1', ili='i1', lexicalized='maybe'))])),
     comment='anything but "false" becomes True')
case('a_phonemic_not_boolean',
     doc(lexicon([entry([E('Lemma', dict(writtenForm='w', partOfSpeech='n'),
                          [E('Pronunciation', dict(phonemic='maybe'), text='p')])])])))
case('a_pronunciation_bare',
     doc(lexicon([entry([E('Lemma', dict(writtenForm='w', partOfSpeech='n'), [E('Pronunciation')])])])))
case('a_tag_no_text',
     doc(lexicon([entry([E('Lemma', dict(writtenForm='w', partOfSpeech='n'), [E('Tag', dict(category='c'))])])])))
case('a_extension_without_extends', doc(lexicon([entry([LEMMA, sense()]), synset()], name='LexiconExtension')),
     comment='validated as a plain lexicon')
case('a_extension_empty_extends', doc(lexicon([E('Extends'), synset()], name='LexiconExtension')),
     comment='<Extends/> is an empty dictionary, hence falsy')
case('a_lexicon_with_extends',
     doc(lexicon([EXT,
                  entry([E('ExternalLemma'), E('ExternalForm', dict(id='f1')),
                         sense(name='ExternalSense', attrs=dict(id='s1'))],
                        name='ExternalLexicalEntry'),
                  synset(name='ExternalSynset', attrs=dict(id='ss1'))])),
     comment='what makes an extension is the Extends child, not the element name')
case('a_external_entry_without_lemma',
     doc(lexicon([EXT, entry(kids=[], name='ExternalLexicalEntry')], name='LexiconExtension')))
case('a_external_entry_plain_lemma',
     doc(lexicon([EXT, entry([LEMMA], name='ExternalLexicalEntry')], name='LexiconExtension')))
case('a_count_lenient', doc(lexicon([entry([LEMMA, sense([E('Count', text='  +1_0 ')])])])),
     comment='int() accepts surrounding space, a sign and underscores')
case('a_count_preserve',
     doc(lexicon([entry([LEMMA, sense([E('Count', {XSP: 'preserve'}, text=' 12 ')])])])))
case('a_relation_unchecked_values',
     doc(lexicon([entry([LEMMA, sense([E('SenseRelation', dict(relType='bogus', target='nowhere'))])]),
                  synset([E('SynsetRelation', dict(relType='', target=''))])])),
     comment='only the presence of target and relType is asserted')
case('a_texts_missing',
     doc(lexicon([entry([LEMMA, sense([E('Example')])]),
                  synset([E('Definition'), E('ILIDefinition'), E('Example')])])))
case('a_confidence_score_not_number',
     doc(lexicon([entry([LEMMA, sense(attrs=dict(id='s1', synset='ss1', confidenceScore='abc'))])])),
     comment='_validate_metadata is never called')
case('a_form_and_frame_minimal',
     doc(lexicon([entry([LEMMA, E('Form', dict(writtenForm='v'))]),
                  E('SyntacticBehaviour', dict(subcategorizationFrame='f'))])))
case('a_requires_without_url', doc(lexicon([E('Requires', dict(id='base', version='1'))])))
case('a_dangling_references', doc(lexicon([entry([LEMMA, sense(attrs=dict(id='s1', synset='missing'))])])),
     comment='identifiers are not resolved by load()')

# ---------------------------------------------------------------------------
HEADER = {v: ('<?xml version="1.0" encoding="UTF-8"?>\n'
              '<!DOCTYPE LexicalResource SYSTEM "http://globalwordnet.github.io/schemas/WN-LMF-%s.dtd">\n' % v)
          for v in ('1.0', '1.1', '1.2', '1.3')}

def to_xml(t):
    name, attrs, text, kids = t
    a = ''.join(' %s=%s' % ('xml:space' if k == XSP else k, quoteattr(v)) for k, v in attrs.items())
    return '<%s%s>%s%s</%s>' % (name, a, escape(text), ''.join(map(to_xml, kids)), name)

def cstr(s):
    assert all(32 <= ord(c) < 127 for c in s)
    return '(s_ "%s")' % s.replace('"', '""')

def to_coq(t, ind):
    name, attrs, text, kids = t
    a = '; '.join('(%s, %s)' % (cstr(k), cstr(v)) for k, v in attrs.items())
    pad = ' ' * ind
    if kids:
        k = '\n' + ';\n'.join(pad + '   ' + to_coq(c, ind + 3) for c in kids)
    else:
        k = ''
    return 'XNode %s [%s] %s [%s]' % (cstr(name), a, cstr(text), k)



def coq_verdicts(path):
    """{name: (version, code)} from the Example statements, and {name: definition text}"""
    s = open(path, encoding='utf-8').read()
    v = {m.group(1): (m.group(2), int(m.group(3)))
         for m in re.finditer(r'Example (\w+)_verdict : verdict \(s_ "([^"]*)"\) \w+ = (-?\d+)\.', s)}
    d = {m.group(1): m.group(2) for m in re.finditer(r'Definition (\w+) : xtree :=\n  (.*?)\.\n\(\* wn\.lmf\.load', s, re.S)}
    f = {m.group(1): m.group(2) for m in re.finditer(r'Example (\w+)_fault : (\w+) \w+ = true\.', s)}
    return v, d, f


def documents():
    return [(name, version, HEADER[version] + to_xml(tree) + '\n', to_coq(tree, 2), pred) for name, version, tree, pred, _ in CASES]
