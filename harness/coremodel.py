"""Case generation and encoding for the query-layer model (Model/Core.v), shared by the
checks of C04, C09, C10, C11, C12 and by mk_core_samples.py."""
import unicodedata
import gendoc
import obsproj

SEARCH_FORMS = ['cat', 'Cat', 'CATS', 'cats', 'dog', 'Dog', 'ran', 'run', 'running', 'resume', 'résumé', 'Résumé',
                'RESUME', 'hot dog', 'hot dogs', 'straße', 'strasse', 'STRASSE', '情報', 'λόγος', 'λογοσ', 'x<y',
                'bank', 'banks', 'nosuchform', '𝒳', 'x']


def normalize_form(s):
    return ''.join(c for c in unicodedata.normalize('NFKD', s.lower()) if not unicodedata.combining(c))


def configs_for(rng, names, small=False):
    specs = [n for n in names]
    cfgs = [{}]
    cfgs.append({'lexicon': rng.choice(specs)})
    cfgs.append({'lexicon': rng.choice(specs), 'expand': ''})
    if len(specs) > 1:
        two = rng.sample(specs, 2)
        cfgs.append({'lexicon': ' '.join(two)})
        cfgs.append({'lexicon': two[0], 'expand': two[1]})
    cfgs.append({'lang': 'en'})
    if not small:
        cfgs.append({'lexicon': rng.choice(specs), 'expand': '*'})
        cfgs.append({'lexicon': 'ba', 'normalizer': False, 'search_all_forms': False})
        cfgs.append({'lang': rng.choice(['fr', 'de', 'zz'])})
    for c in cfgs:
        if rng.random() < 0.3:
            c['search_all_forms'] = False
        if rng.random() < 0.25:
            c['normalizer'] = False
        if rng.random() < 0.3:
            c['lemmatizer'] = {'cats': {'n': ['cat'], 'v': ['cat', 'cats']}, 'running': {'v': ['run'], '': ['running']},
                               'ran': {'v': ['run', 'Ran']}, 'dogs': {'n': ['dog', 'Dog']}}
    return cfgs if not small else cfgs[:rng.choice([2, 3, 4])]


def gen_case(rng, small=False):
    u = gendoc.gen_universe(rng, size=2 if small else rng.choice([2, 3, 4]))
    names = [n for n, _ in u]
    searches = [[rng.choice(SEARCH_FORMS), rng.choice([None, None, 'n', 'v', 'a', 'x'])]
                for _ in range(6 if small else 14)]
    targets = [{'lexicon': rng.choice(names)}, {'lang': rng.choice(['en', 'fr'])}]
    if rng.random() < 0.5:
        targets.append({'lexicon': 'nosuch:1'})
    return {'resources': u, 'style_seed': rng.randrange(1 << 30), 'configs': configs_for(rng, names, small),
            'searches': searches, 'translate_to': targets, 'deep': True}


def norm_table(u, cfg):
    strs = set(f for f, _ in u['searches'])
    lem = cfg.get('lemmatizer')
    if isinstance(lem, dict):
        for d in lem.values():
            for fs in d.values():
                strs |= set(fs)
    return sorted((s, normalize_form(s)) for s in strs)


def to_pair(u, rec, cfg, ob):
    db = obsproj.project_db(rec['tables'])
    c = obsproj.project_cfg(cfg, norm_table(u, cfg))
    c.append([[f, obsproj.OPT(p)] for f, p in u['searches']])
    c.append([[obsproj.OPT(t.get('lexicon')), obsproj.OPT(t.get('lang'))] for t in (u.get('translate_to') or [])])
    return [db, c], obsproj.project_obs(ob)
