#!/bin/bash
# MANIFEST.setup_cmd: regenerate Gen/ from /repo, build the whole Coq development (full .vo build).
set -e
cd "$(dirname "$0")"
export PYTHONHASHSEED=0
/venv/bin/python - <<'PY'
import sys, os
sys.path.insert(0, os.path.join(os.getcwd(), 'harness'))
import common
b = common.ensure_build()
print(b.make_log[-3000:] if b.make_rc else 'build ok')
sys.exit(0 if (b.translate_ok and b.make_rc == 0) else 1)
PY
